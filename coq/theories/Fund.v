(* C12 (structure): pams/fundamentals.py as a state machine over an abstract price type.  What each generation round
   produces (last kept price x exp(cumulative log-returns), NumPy / SciPy / libm) is an input tape of segments; the model
   carries what the code does with them: which prefix is kept, where regeneration starts after a parameter change or a
   shock, and that reads extend the horizon as far as needed. *)
Require Import Pams.Prelude.
Open Scope Z_scope.

Section Fund.
Variable V : Type.
Variable vmul : V -> Q -> V.          (* price x scale (shock) *)
Variable vdef : V.

Record fstate := mkF {
  f_until : nat;                       (* _generated_until: prices up to this index are final *)
  f_prices : list (Z * list V);        (* per market *)
  f_tape : list (list (Z * list V))    (* what the next generation rounds will produce, per market (oracle) *)
}.
Definition chunk : nat := 100.

Fixpoint price_list (m : Z) (l : list (Z * list V)) : list V :=
  match l with [] => [] | (k, p) :: r => if k =? m then p else price_list m r end.
Definition seg_of (m : Z) (seg : list (Z * list V)) : list V := price_list m seg.

(* _generate_next (all markets start at 0): keep prices[: until + 1], append the new segment, until += chunk *)
Definition generate_next (s : fstate) : fstate :=
  match f_tape s with
  | [] => s
  | seg :: rest =>
      mkF (f_until s + chunk)
          (map (fun kp => (fst kp, firstn (S (f_until s)) (snd kp) ++ firstn chunk (seg_of (fst kp) seg))) (f_prices s))
          rest
  end.

(* get_fundamental_price: while time >= until: generate *)
Fixpoint ensure (fuel : nat) (t : nat) (s : fstate) : fstate :=
  match fuel with
  | O => s
  | S f => if (f_until s <=? t)%nat then ensure f t (generate_next s) else s
  end.
Definition get (s : fstate) (m : Z) (t : nat) : fstate * V :=
  let s' := ensure (S t) t s in (s', nth t (price_list m (f_prices s')) vdef).

(* change_volatility / change_drift / set_correlation / remove_correlation at time t: only the regeneration point moves *)
Definition change (s : fstate) (t : nat) : fstate := mkF t (f_prices s) (f_tape s).

(* Market.change_fundamental_price at time t: the level at t is scaled, the regeneration point moves to t *)
Definition shock (s : fstate) (m : Z) (t : nat) (scale : Q) : fstate :=
  mkF t (map (fun kp => if fst kp =? m then (fst kp, upd (snd kp) t (vmul (nth t (snd kp) vdef) scale)) else kp) (f_prices s))
      (f_tape s).

(* ---------------- theorems ---------------- *)
Lemma price_list_map (f : Z * list V -> list V) m l :
  price_list m (map (fun kp => (fst kp, f kp)) l) =
  match find (fun kp => fst kp =? m) l with Some kp => f kp | None => [] end.
Proof. induction l as [|[k p] r IH]; simpl; auto. destruct (k =? m); auto. Qed.

Lemma price_list_find m l : price_list m l = match find (fun kp => fst kp =? m) l with Some kp => snd kp | None => [] end.
Proof. induction l as [|[k p] r IH]; simpl; auto. destruct (k =? m); auto. Qed.

Lemma nth_firstn {A} (l : list A) n i d : (i < n)%nat -> nth i (firstn n l) d = nth i l d.
Proof.
  revert n i. induction l as [|x r IH]; intros [|n] [|i] H; simpl; auto; try lia. apply IH. lia.
Qed.

(* well-formed: every market's list covers the final prefix; every tape segment covers a whole chunk for every market *)
Definition wf (s : fstate) : Prop :=
  Forall (fun kp => (S (f_until s) <= length (snd kp))%nat) (f_prices s) /\
  Forall (fun seg => Forall (fun kp => (chunk <= length (seg_of (fst kp) seg))%nat) (f_prices s)) (f_tape s).

Lemma find_In {A} (f : A -> bool) l x : find f l = Some x -> In x l.
Proof. induction l as [|a r IH]; simpl; [discriminate|]. destruct (f a); [intros H; inversion H; auto|auto]. Qed.

(* a generation round never touches the kept prefix: every index <= until keeps its value, for every market *)
Theorem generate_keeps_prefix s m i : wf s -> (i <= f_until s)%nat ->
  nth i (price_list m (f_prices (generate_next s))) vdef = nth i (price_list m (f_prices s)) vdef.
Proof.
  intros [W _] Hi. unfold generate_next. destruct (f_tape s) as [|seg rest]; auto. cbn [f_prices].
  rewrite (price_list_map (fun kp => firstn (S (f_until s)) (snd kp) ++ firstn chunk (seg_of (fst kp) seg))), price_list_find.
  destruct (find (fun kp => fst kp =? m) (f_prices s)) as [[k p]|] eqn:F; auto. cbn [snd fst].
  rewrite Forall_forall in W. pose proof (W _ (find_In _ _ _ F)) as L. cbn [snd] in L.
  rewrite app_nth1 by (rewrite firstn_length; lia). apply nth_firstn. lia.
Qed.

Lemma generate_until s : f_tape s <> [] -> f_until (generate_next s) = (f_until s + chunk)%nat.
Proof. unfold generate_next. destruct (f_tape s); [congruence|reflexivity]. Qed.

Lemma generate_wf s : wf s -> wf (generate_next s).
Proof.
  intros [W T]. unfold generate_next. destruct (f_tape s) as [|seg rest] eqn:E; [split; auto; rewrite E; auto|].
  inversion T as [|? ? Hs Hr]; subst. split; cbn [f_until f_prices f_tape].
  - rewrite Forall_forall in *. intros kp Hin. apply in_map_iff in Hin. destruct Hin as [[k p] [<- Hin]]. cbn [snd fst].
    pose proof (W _ Hin) as L. pose proof (Hs _ Hin) as L2. cbn [snd fst] in *.
    rewrite app_length, !firstn_length. lia.
  - rewrite Forall_forall in *. intros sg Hsg. specialize (Hr sg Hsg). rewrite Forall_forall in *.
    intros kp Hin. apply in_map_iff in Hin. destruct Hin as [[k p] [<- Hin]]. cbn [fst]. apply (Hr _ Hin).
Qed.

Lemma ensure_keeps_prefix fuel t : forall s m i, wf s -> (i <= f_until s)%nat ->
  nth i (price_list m (f_prices (ensure fuel t s))) vdef = nth i (price_list m (f_prices s)) vdef /\
  wf (ensure fuel t s) /\ (f_until s <= f_until (ensure fuel t s))%nat.
Proof.
  induction fuel as [|f IH]; simpl; intros s m i W Hi; [auto|].
  destruct (f_until s <=? t)%nat; [|auto].
  assert (U : (f_until s <= f_until (generate_next s))%nat).
  { unfold generate_next. destruct (f_tape s); cbn; lia. }
  destruct (IH (generate_next s) m i (generate_wf s W) ltac:(lia)) as [E [W' U']].
  rewrite E. split; [apply generate_keeps_prefix; auto|]. split; auto. lia.
Qed.

(* reading any price (which may extend the horizon by any number of chunks) never changes a value at or below the
   regeneration point: recorded fundamentals are final *)
Theorem get_keeps_prefix s m t m' i : wf s -> (i <= f_until s)%nat ->
  nth i (price_list m' (f_prices (fst (get s m t)))) vdef = nth i (price_list m' (f_prices s)) vdef.
Proof. intros W Hi. unfold get. cbn [fst]. apply ensure_keeps_prefix; auto. Qed.

(* changing a parameter at time t (<= the generated horizon) alters no value at any time <= t, whatever is read afterwards *)
Theorem change_keeps_history s t m t2 m' i : wf s -> (t <= f_until s)%nat -> (i <= t)%nat ->
  nth i (price_list m' (f_prices (fst (get (change s t) m t2)))) vdef = nth i (price_list m' (f_prices s)) vdef.
Proof.
  intros [W T] Ht Hi.
  assert (Wc : wf (change s t)).
  { split; cbn; auto. eapply Forall_impl; [|exact W]. cbn. intros; lia. }
  rewrite (get_keeps_prefix (change s t) m t2 m' i Wc) by (cbn; lia). reflexivity.
Qed.

Lemma price_list_shock m' m t scale l :
  price_list m' (map (fun kp => if fst kp =? m then (fst kp, upd (snd kp) t (vmul (nth t (snd kp) vdef) scale)) else kp) l) =
  if m' =? m then (let p := price_list m' l in match find (fun kp => fst kp =? m') l with Some _ => upd p t (vmul (nth t p vdef) scale) | None => [] end)
  else price_list m' l.
Proof.
  induction l as [|[k p] r IH]; simpl; [destruct (m' =? m); auto|].
  destruct (k =? m) eqn:E1; cbn [fst]; destruct (k =? m') eqn:E2; cbn [fst snd]; rewrite ?IH; destruct (m' =? m) eqn:E3; auto;
    rewrite ?Z.eqb_eq, ?Z.eqb_neq in *; try lia.
Qed.

(* a shock at time t multiplies the target's value at t by the scale, and changes no other value at any time <= t of any
   market - whatever is read afterwards; later values are regenerated from the new level (they come after index t) *)
Theorem shock_effect s m t scale m2 t2 m' i : wf s -> (t <= f_until s)%nat -> (i <= t)%nat ->
  In m (map fst (f_prices s)) ->
  nth i (price_list m' (f_prices (fst (get (shock s m t scale) m2 t2)))) vdef =
  if (m' =? m) && (i =? t)%nat then vmul (nth t (price_list m (f_prices s)) vdef) scale
  else nth i (price_list m' (f_prices s)) vdef.
Proof.
  intros [W T] Ht Hi Hm.
  assert (Ws : wf (shock s m t scale)).
  { split; cbn [f_until f_prices f_tape shock].
    - rewrite Forall_forall in *. intros kp Hin. apply in_map_iff in Hin. destruct Hin as [[k p] [E Hin]].
      pose proof (W _ Hin) as L. cbn [snd fst] in *. destruct (k =? m); subst kp; cbn [snd]; rewrite ?upd_length; lia.
    - rewrite Forall_forall in *. intros sg Hsg. specialize (T sg Hsg). rewrite Forall_forall in *.
      intros kp Hin. apply in_map_iff in Hin. destruct Hin as [[k p] [E Hin]]. specialize (T _ Hin). cbn [fst] in *.
      destruct (k =? m); subst kp; cbn [fst]; auto. }
  rewrite (get_keeps_prefix (shock s m t scale) m2 t2 m' i Ws) by (cbn; lia).
  cbn [shock f_prices]. rewrite price_list_shock.
  destruct (m' =? m) eqn:E; cbn [andb]; auto. apply Z.eqb_eq in E. subst m'.
  rewrite price_list_find. destruct (find (fun kp => fst kp =? m) (f_prices s)) as [[k p]|] eqn:F.
  - cbn [snd]. rewrite Forall_forall in W. pose proof (W _ (find_In _ _ _ F)) as L. cbn [snd] in L.
    destruct (i =? t)%nat eqn:Ei.
    + apply Nat.eqb_eq in Ei. subst. apply upd_nth_same. lia.
    + apply Nat.eqb_neq in Ei. apply upd_nth_other. auto.
  - exfalso. apply in_map_iff in Hm. destruct Hm as [[k p] [Ek Hin]]. cbn in Ek. subst k.
    assert (C : find (fun kp => fst kp =? m) (f_prices s) <> None).
    { clear - Hin. induction (f_prices s) as [|[k2 p2] r IH]; simpl; [destruct Hin|].
      destruct (k2 =? m) eqn:E; [discriminate|]. destruct Hin as [H|H]; [inversion H; subst; rewrite Z.eqb_refl in E; discriminate|auto]. }
    congruence.
Qed.

(* reading terminates: each round advances the horizon by a whole chunk, so t + 1 rounds are more than enough *)
Theorem get_reaches_time fuel t : forall s, (length (f_tape s) >= fuel)%nat -> (t < f_until s + fuel * chunk)%nat ->
  (t < f_until (ensure fuel t s))%nat.
Proof.
  induction fuel as [|f IH]; cbn [ensure]; intros s Hl Ht; [simpl in Ht; lia|].
  destruct (f_until s <=? t)%nat eqn:E; [|apply Nat.leb_gt in E; exact E].
  destruct (f_tape s) as [|seg rest] eqn:Et; [simpl in Hl; lia|].
  apply IH.
  - unfold generate_next. rewrite Et. cbn. simpl in Hl. lia.
  - rewrite generate_until by congruence. rewrite Nat.mul_succ_l in Ht. lia.
Qed.
End Fund.

(* ---------------- executable instance for the correspondence check ---------------- *)
Inductive fop := FGet (m : Z) (t : nat) | FChange (t : nat) | FShock (m : Z) (t : nat) (scale : Q) | FRead (t : nat).
Definition fstateQ := fstate Q.
Definition fstep (s : fstateQ) (o : fop) : fstateQ * ov :=
  match o with
  | FGet m t => let '(s', v) := get Q (0#1) s m t in (s', VQ v)
  | FChange t => (change Q s t, VN)
  | FShock m t sc => (shock Q qmul (0#1) s m t sc, VN)
  | FRead t => let s' := ensure Q (S t) t s in     (* get_fundamental_prices extends the horizon like a single read of max(times) *)
               (s', VL (map (fun kp => VL (VZ (fst kp) :: map VQ (firstn (S t) (snd kp)))) (f_prices Q s')))
  end.
Fixpoint frun (s : fstateQ) (ops : list fop) : list ov :=
  match ops with [] => [] | o :: r => let '(s', x) := fstep s o in x :: frun s' r end.
Definition run_case_f (c : list (Z * Q) * list (list (Z * list Q)) * list fop) : ov :=
  let '(inits, tape, ops) := c in
  VL (frun (mkF Q 0 (map (fun mi => (fst mi, [snd mi])) inits) tape) ops).
