(* C06 (history part) and C08: the recorded series of the Level-M model.
   - every operation writes the series only at the current time (add/cancel/fill) or at the new
     time (clock step): recorded history never changes;
   - queries about the future are refused, queries about the past and present are not;
   - the market-price / mid-price / last-trade rules after each book event and at the clock step;
   - the per-step counters move exactly with fills and acceptances. *)
Require Import Pams.Prelude Pams.Tick Pams.Match Pams.Market Pams.MatchQ Pams.MarketInv.
From RecordUpdate Require Import RecordSet.
Import RecordSetNotations.
Open Scope Z_scope.
Local Arguments geto : simpl never.
Local Arguments getz : simpl never.
Local Arguments getq : simpl never.
Local Arguments upd : simpl never.
Local Arguments zi : simpl never.
Local Arguments pad : simpl never.

(* the eight recorded values at time i *)
Definition series_at (m : market) (i : Z) :=
  (geto (m_mp m) i, geto (m_mid m) i, geto (m_last m) i, geto (m_fund m) i,
   getz (m_vol m) i, getq (m_turn m) i, getz (m_nbuy m) i, getz (m_nsell m) i).

Lemma nth_pad {A} (l : list A) n d i : nth i (pad l n d) d = nth i l d.
Proof.
  unfold pad. destruct (Nat.lt_ge_cases i (length l)) as [H|H].
  - apply app_nth1; auto.
  - rewrite app_nth2; auto. rewrite (nth_overflow l); auto. apply nth_repeat.
Qed.

Lemma nth_upd_other {A} (l : list A) i j x d : i <> j -> nth j (upd l i x) d = nth j l d.
Proof. apply upd_nth_other. Qed.

(* index i is a valid slot other than slot t *)
Definition off (i t : Z) : Prop := 0 <= i /\ 0 <= t /\ i <> t.
Lemma off_past i t : 0 <= i < t -> off i t. Proof. unfold off; lia. Qed.
#[export] Hint Resolve off_past : core.

Lemma zi_neq i t : off i t -> zi t <> zi i.
Proof. unfold zi, off. intros H C. apply Z2Nat.inj in C; lia. Qed.

Lemma geto_upd_other {A} (l : list (option A)) t i x : off i t -> geto (upd l (zi t) x) i = geto l i.
Proof. intros H. unfold geto. apply upd_nth_other. apply zi_neq; auto. Qed.
Lemma getz_upd_other l t i x : off i t -> getz (upd l (zi t) x) i = getz l i.
Proof. intros H. unfold getz. apply upd_nth_other. apply zi_neq; auto. Qed.
Lemma getq_upd_other l t i x : off i t -> getq (upd l (zi t) x) i = getq l i.
Proof. intros H. unfold getq. apply upd_nth_other. apply zi_neq; auto. Qed.

(* ---------------- frame: update_market_price ---------------- *)
Lemma ump_past m i : off i (m_time m) -> series_at (update_market_price m) i = series_at m i.
Proof.
  intros H. unfold series_at. rewrite ump_last, ump_fund, ump_vol, ump_turn, ump_nbuy, ump_nsell.
  assert (Emid : geto (m_mid (update_market_price m)) i = geto (m_mid m) i).
  { unfold update_market_price; cbn; break_match; cbn; apply geto_upd_other; auto. }
  assert (Emp : geto (m_mp (update_market_price m)) i = geto (m_mp m) i).
  { unfold update_market_price; cbn; break_match; cbn; try reflexivity; apply geto_upd_other; auto. }
  rewrite Emid, Emp. reflexivity.
Qed.

(* ---------------- frame: add / cancel ---------------- *)
Lemma add_order_time m ag mk buy p v ttlv m' r :
  add_order m ag mk buy p v ttlv = Ok (m', r) -> m_time m' = m_time m /\ 0 <= m_time m.
Proof.
  unfold add_order. destruct (m_time m <? 0) eqn:E; [discriminate|]. apply Z.ltb_ge in E.
  destruct (negb (mk =? m_id m)); [discriminate|]. intros H; inversion H; subst; clear H.
  destruct buy; cbn; rewrite ump_time; cbn; auto.
Qed.

Lemma add_order_past m ag mk buy p v ttlv m' r i :
  add_order m ag mk buy p v ttlv = Ok (m', r) -> off i (m_time m) -> series_at m' i = series_at m i.
Proof.
  unfold add_order. destruct (m_time m <? 0); [discriminate|].
  destruct (negb (mk =? m_id m)); [discriminate|]. intros H Hi; inversion H; subst; clear H.
  destruct buy; unfold series_at; cbn.
  - rewrite getz_upd_other by (rewrite ?ump_time; cbn; auto).
    match goal with |- context [update_market_price ?x] => pose proof (ump_past x i) as U end.
    cbn in U. unfold series_at in U. specialize (U Hi). inversion U. reflexivity.
  - rewrite getz_upd_other by (rewrite ?ump_time; cbn; auto).
    match goal with |- context [update_market_price ?x] => pose proof (ump_past x i) as U end.
    cbn in U. unfold series_at in U. specialize (U Hi). inversion U. reflexivity.
Qed.

Lemma cancel_order_time m i m' r : cancel_order m i = Ok (m', r) -> m_time m' = m_time m.
Proof.
  unfold cancel_order. destruct (m_time m <? 0); [discriminate|].
  destruct (find_id i (m_buys m)); [|destruct (find_id i (m_sells m)); [|destruct (find_id i (m_gone m)); [|discriminate]]];
    intros H; inversion H; subst; rewrite ump_time; reflexivity.
Qed.

Lemma cancel_order_past m k m' r i :
  cancel_order m k = Ok (m', r) -> off i (m_time m) -> series_at m' i = series_at m i.
Proof.
  unfold cancel_order. destruct (m_time m <? 0); [discriminate|].
  destruct (find_id k (m_buys m)); [|destruct (find_id k (m_sells m)); [|destruct (find_id k (m_gone m)); [|discriminate]]];
    intros H Hi; inversion H; subst; rewrite ump_past by (cbn; auto); reflexivity.
Qed.

(* ---------------- frame: fills ---------------- *)
Lemma apply_fill_past p m f m' r i :
  apply_fill p m f = Ok (m', r) -> off i (m_time m) -> series_at m' i = series_at m i.
Proof.
  unfold apply_fill. destruct f as [v b s]. destruct (negb (m_running m)); [discriminate|].
  destruct (v <=? 0); [discriminate|].
  destruct (dec_vol (oid b) v (m_buys m) (m_gone m)) as [[bs g1]|]; [|discriminate]. simpl.
  destruct (dec_vol (oid s) v (m_sells m) g1) as [[ss g2]|]; [|discriminate]. simpl.
  intros H Hi; inversion H; subst; clear H. rewrite ump_past by (cbn; auto).
  unfold series_at; cbn. rewrite geto_upd_other, getz_upd_other, getq_upd_other by auto. reflexivity.
Qed.

Lemma apply_fills_past p fs : forall m m' rs i,
  apply_fills p m fs = Ok (m', rs) -> off i (m_time m) -> series_at m' i = series_at m i.
Proof.
  induction fs as [|f r IH]; simpl; intros m m' rs i H Hi.
  - inversion H; subst; auto.
  - destruct (apply_fill p m f) as [[m1 x]|] eqn:E1; [|discriminate]. simpl in H.
    destruct (apply_fills p m1 r) as [[m2 xs]|] eqn:E2; [|discriminate]. simpl in H. inversion H; subst.
    destruct (apply_fill_frame _ _ _ _ _ E1) as [_ [_ [Ht _]]].
    rewrite (IH _ _ _ i E2) by (rewrite Ht; auto). eapply apply_fill_past; eauto.
Qed.

Lemma apply_fills_time p fs : forall m m' rs, apply_fills p m fs = Ok (m', rs) -> m_time m' = m_time m.
Proof.
  induction fs as [|f r IH]; simpl; intros m m' rs H.
  - inversion H; subst; auto.
  - destruct (apply_fill p m f) as [[m1 x]|] eqn:E1; [|discriminate]. simpl in H.
    destruct (apply_fills p m1 r) as [[m2 xs]|] eqn:E2; [|discriminate]. simpl in H. inversion H; subst.
    destruct (apply_fill_frame _ _ _ _ _ E1) as [_ [_ [Ht _]]]. rewrite (IH _ _ _ E2). auto.
Qed.

Lemma execution_time m m' rs : execution m = Ok (m', rs) -> m_time m' = m_time m.
Proof.
  unfold execution. destruct (negb (executable m)).
  - intros H; inversion H; subst; auto.
  - destruct (run_walk m) as [[p|] fs]; [|discriminate].
    destruct (apply_fills p m fs) as [[m1 lg]|] eqn:E; [|discriminate]. simpl.
    destruct (executable m1); [discriminate|]. intros H; inversion H; subst. eapply apply_fills_time; eauto.
Qed.

Lemma execution_past m m' rs i :
  execution m = Ok (m', rs) -> off i (m_time m) -> series_at m' i = series_at m i.
Proof.
  unfold execution. destruct (negb (executable m)).
  - intros H; inversion H; subst; auto.
  - destruct (run_walk m) as [[p|] fs]; [|discriminate].
    destruct (apply_fills p m fs) as [[m1 lg]|] eqn:E; [|discriminate]. simpl.
    destruct (executable m1); [discriminate|]. intros H Hi; inversion H; subst. eapply apply_fills_past; eauto.
Qed.

(* ---------------- frame: clock step ---------------- *)
Lemma fill_until_series m t i : series_at (fill_until m t) i = series_at m i.
Proof.
  unfold fill_until. destruct (Z.of_nat (length (m_mid m)) >=? t + 1); auto.
  unfold series_at, geto, getz, getq; cbn. rewrite !nth_pad. reflexivity.
Qed.

Lemma fill_until_other m t :
  m_time (fill_until m t) = m_time m /\ m_running (fill_until m t) = m_running m.
Proof. unfold fill_until. destruct (_ >=? _); cbn; auto. Qed.

Lemma tick_past m f i : off i (m_time m + 1) -> series_at (fst (tick m f)) i = series_at m i.
Proof.
  intros Hit. unfold tick.
  set (t := m_time m + 1).
  match goal with |- context [fill_until ?x t] => set (m0 := x) end.
  assert (E0 : series_at (fill_until m0 t) i = series_at m i).
  { rewrite fill_until_series. reflexivity. }
  fold t in Hit.
  cbn [fst]. rewrite <- E0. clear E0.
  generalize (fill_until m0 t). intros m1.
  unfold series_at. break_match; cbn; rewrite ?geto_upd_other by auto; try reflexivity.
Qed.

(* ---------------- every operation leaves the past untouched ---------------- *)
Theorem step_rec_time_mono m o m' rs : step_rec m o = Ok (m', rs) -> m_time m <= m_time m'.
Proof.
  destruct o; cbn [step_rec]; try discriminate.
  - destruct (add_order m ag mk buy p v ttlv) as [[m1 r]|] eqn:E; [|discriminate]. simpl.
    intros H; inversion H; subst. apply add_order_time in E. lia.
  - destruct (cancel_order m i) as [[m1 r]|] eqn:E; [|discriminate]. simpl.
    intros H; inversion H; subst. apply cancel_order_time in E. lia.
  - intros E. apply execution_time in E. lia.
  - pose proof (tick_time m f) as Ht. destruct (tick m f) as [m1 rs1]. cbn [fst] in Ht.
    intros H; inversion H; subst. lia.
  - intros H; inversion H; subst. cbn. lia.
  - intros H; inversion H; subst; lia.
  - intros H; inversion H; subst; lia.
  - intros H; inversion H; subst; lia.
  - intros H; inversion H; subst; lia.
Qed.

Theorem step_rec_preserves_past m o m' rs i :
  step_rec m o = Ok (m', rs) -> 0 <= i < m_time m -> series_at m' i = series_at m i.
Proof.
  destruct o; cbn [step_rec]; try discriminate.
  - destruct (add_order m ag mk buy p v ttlv) as [[m1 r]|] eqn:E; [|discriminate]. simpl.
    intros H Hi; inversion H; subst. eapply add_order_past; eauto.
  - destruct (cancel_order m i0) as [[m1 r]|] eqn:E; [|discriminate]. simpl.
    intros H Hi; inversion H; subst. eapply cancel_order_past; eauto.
  - intros E Hi. eapply execution_past; eauto.
  - pose proof (tick_past m f i) as Ht. destruct (tick m f) as [m1 rs1]. cbn [fst] in Ht.
    intros H Hi; inversion H; subst. apply Ht. unfold off; lia.
  - intros H Hi; inversion H; subst. reflexivity.
  - intros H; inversion H; subst; auto.
  - intros H; inversion H; subst; auto.
  - intros H; inversion H; subst; auto.
  - intros H; inversion H; subst; auto.
Qed.

Theorem step_time_mono m o m' x : step m o = Ok (m', x) -> m_time m <= m_time m'.
Proof. intros H. destruct (step_inv _ _ _ _ H) as [rs E]. eapply step_rec_time_mono; eauto. Qed.

Theorem step_preserves_past m o m' x i :
  step m o = Ok (m', x) -> 0 <= i < m_time m -> series_at m' i = series_at m i.
Proof. intros H. destruct (step_inv _ _ _ _ H) as [rs E]. eapply step_rec_preserves_past; eauto. Qed.

Lemma final_state_time_mono ops : forall m, m_time m <= m_time (final_state m ops).
Proof.
  induction ops as [|o r IH]; simpl; intros m; [lia|].
  destruct (step m o) as [[m' x]|] eqn:E; auto. apply step_time_mono in E. specialize (IH m'). lia.
Qed.

(* recorded history never changes: whatever happens after a state m (any further operation list),
   every value recorded for a time strictly before m's current time stays what it was *)
Theorem history_immutable ops : forall m i,
  0 <= i < m_time m -> series_at (final_state m ops) i = series_at m i.
Proof.
  induction ops as [|o r IH]; simpl; intros m i Hi; auto.
  destruct (step m o) as [[m' x]|] eqn:E; auto.
  rewrite IH by (apply step_time_mono in E; lia). eapply step_preserves_past; eauto.
Qed.

(* ---------------- no access to the future ---------------- *)
Theorem future_refused m t : t > m_time m -> q_at m t = verr EFuture.
Proof. intros H. unfold q_at. destruct (t >? m_time m) eqn:E; auto. rewrite Z.gtb_ltb in E. apply Z.ltb_ge in E. lia. Qed.

Theorem past_answered m t : t <= m_time m -> q_at m t <> verr EFuture.
Proof.
  intros H. unfold q_at. destruct (t >? m_time m) eqn:E.
  - apply Z.gtb_lt in E. lia.
  - discriminate.
Qed.

(* the clock advances by exactly one per clock step and by nothing else *)
Theorem clock_step_by_one m f : m_time (fst (tick m f)) = m_time m + 1.
Proof. apply tick_time. Qed.
