(* C09 (consultation within one step): the normal agents are asked in the order of the runner's permutation, each at most once,
   and asking stops as soon as maxNormalOrders of them have produced orders (or the run fails).  The same for the high-frequency
   agents after a batch; handling orders never asks anybody. *)
Require Import Pams.Prelude Pams.Tick Pams.Match Pams.Market Pams.Sim Pams.SimLift Pams.SimInv.
From RecordUpdate Require Import RecordSet.
Import RecordSetNotations.
Open Scope Z_scope.

Definition consult_of (e : event) : list Z := match e with EvConsult a _ => [a] | _ => [] end.
Definition consults (l : list event) : list Z := flat_map consult_of l.
Local Arguments consults : simpl never.
Lemma consults_app a b : consults (a ++ b) = consults a ++ consults b. Proof. apply flat_map_app. Qed.
Lemma consults_one e : consults [e] = consult_of e. Proof. unfold consults. simpl. apply app_nil_r. Qed.
Definition asked (s : sim) : list Z := consults (events_of s).

Lemma asked_emit s e : asked (emit s e) = asked s ++ consult_of e.
Proof. unfold asked, events_of, emit. cbn. rewrite consults_app, consults_one. reflexivity. Qed.
Lemma asked_same s s' : s_trace s' = s_trace s -> asked s' = asked s.
Proof. unfold asked, events_of. intros ->. reflexivity. Qed.
Lemma asked_fail s e : asked (fail s e) = asked s.
Proof. apply asked_same. unfold fail. destruct (s_err s); reflexivity. Qed.

Lemma ok_of_fail2 s e : ok (fail s e) = false.
Proof. unfold fail, ok. destruct (s_err s) eqn:E; cbn; rewrite ?E; reflexivity. Qed.

Lemma consult_asked s aid :
  (asked (fst (consult s aid)) = asked s ++ [aid]) \/ (asked (fst (consult s aid)) = asked s /\ ok (fst (consult s aid)) = false).
Proof.
  unfold consult. destruct (s_batches s) as [|[a b] r]; simpl.
  - right. split; [apply asked_fail|apply ok_of_fail2].
  - destruct (a =? aid); simpl.
    + left. rewrite asked_emit. cbn. f_equal.
    + right. split; [apply asked_fail|apply ok_of_fail2].
Qed.

(* THE NORMAL AGENTS OF A STEP: those asked are a prefix of the permuted list, in that order, each once *)
Theorem collect_asks_a_prefix : forall ags s cap n acc,
  exists k, (k <= length ags)%nat /\ asked (fst (collect s ags cap n acc)) = asked s ++ map a_id (firstn k ags).
Proof.
  induction ags as [|a rest IH]; simpl; intros s cap n acc.
  - exists 0%nat. rewrite app_nil_r. auto.
  - destruct (negb (ok s)); simpl; [exists 0%nat; rewrite app_nil_r; split; [lia|reflexivity]|].
    destruct (n >=? cap); simpl; [exists 0%nat; rewrite app_nil_r; split; [lia|reflexivity]|].
    pose proof (consult_asked s (a_id a)) as C. destruct (consult s (a_id a)) as [s1 b]. cbn [fst] in C.
    destruct C as [C|[C O]].
    + destruct (negb (ok s1)); simpl; [exists 1%nat; simpl; split; [lia|exact C]|].
      destruct b as [|r0 b'].
      * destruct (IH s1 cap n acc) as [k [Hk E]]. exists (S k). split; [lia|]. rewrite E, C, <- app_assoc. reflexivity.
      * destruct (spoofed (a_id a) (r0 :: b')); simpl.
        -- exists 1%nat. split; [lia|]. rewrite asked_fail. exact C.
        -- destruct (IH s1 cap (n + 1) (acc ++ [r0 :: b'])) as [k [Hk E]]. exists (S k). split; [lia|]. rewrite E, C, <- app_assoc. reflexivity.
    + rewrite O. simpl. exists 0%nat. rewrite app_nil_r. split; [lia|exact C].
Qed.

(* handling a request asks nobody *)
Lemma request_asks_nobody s r : asked (handle_request s r) = asked s.
Proof.
  apply (handle_request_k (fun s' => asked s' = asked s)).
  - intros s0 e _ H. rewrite asked_fail. exact H.
  - intros s0 mkid x e _ _ _ H. rewrite asked_fail. exact H.
  - intros s0 ev k before mkid extra _ H. rewrite asked_emit. cbn. rewrite app_nil_r. exact H.
  - intros s0 aid kind r0 mkid H. unfold callback. destruct (find_agent aid (s_agents s0)); [|rewrite asked_fail; exact H].
    destruct (find_mkt mkid (s_markets s0)); [|rewrite asked_fail; exact H]. rewrite asked_emit. cbn. rewrite app_nil_r. exact H.
  - intros s0 mkid x ag mk buy p v ttlv m' rc tag _ _ H. unfold do_accept_order, log_event, write. rewrite asked_same with (s := emit _ _) by reflexivity.
    rewrite asked_emit. cbn. rewrite app_nil_r. rewrite <- H. apply asked_same. reflexivity.
  - intros s0 mkid x i m' rc _ _ H. unfold do_accept_cancel, log_event, write. rewrite asked_same with (s := emit _ _) by reflexivity.
    rewrite asked_emit. cbn. rewrite app_nil_r. rewrite <- H. apply asked_same. reflexivity.
  - intros s0 mkid x _ _ H. rewrite asked_emit. cbn. rewrite app_nil_r. exact H.
  - intros s0 mkid x m' logs _ _ _ _ H. unfold do_fills. rewrite <- H.
    assert (G : forall rs s1, asked (fold_left (fun s r => log_event s r []) rs s1) = asked s1).
    { induction rs as [|r0 rest IH]; simpl; intros s1; auto. rewrite IH. unfold log_event, write.
      rewrite asked_same with (s := emit s1 (EvTruth r0 [])) by reflexivity. rewrite asked_emit. cbn. apply app_nil_r. }
    rewrite asked_same with (s := fold_left (fun s r => log_event s r []) logs (set_market s0 mkid m')) by reflexivity.
    rewrite G. apply asked_same. reflexivity.
  - intros s0 eid H. rewrite <- H. apply asked_same. reflexivity.
  - intros s0 e mkid _ _ H. rewrite <- H. destruct (halt_after_fields s0 e mkid) as [T _]. apply asked_same. exact T.
  - reflexivity.
Qed.

Lemma requests_ask_nobody b : forall s, asked (fold_left handle_request b s) = asked s.
Proof. induction b as [|r rest IH]; simpl; intros s; auto. rewrite IH. apply request_asks_nobody. Qed.

(* THE HIGH-FREQUENCY AGENTS AFTER A BATCH: those asked are a prefix of the permuted list of high-frequency agents, each once *)
Theorem hft_phase_asks_a_prefix : forall ags s cap n,
  exists k, (k <= length ags)%nat /\ asked (hft_phase s ags cap n) = asked s ++ map a_id (firstn k ags).
Proof.
  induction ags as [|a rest IH]; simpl; intros s cap n.
  - exists 0%nat. rewrite app_nil_r. auto.
  - destruct (negb (ok s)); [exists 0%nat; rewrite app_nil_r; split; [lia|reflexivity]|].
    destruct (n >=? cap); [exists 0%nat; rewrite app_nil_r; split; [lia|reflexivity]|].
    pose proof (consult_asked s (a_id a)) as C. destruct (consult s (a_id a)) as [s1 b]. cbn [fst] in C.
    destruct C as [C|[C O]].
    + destruct (negb (ok s1)); [exists 1%nat; simpl; split; [lia|exact C]|].
      destruct b as [|r0 b'].
      * destruct (IH s1 cap n) as [k [Hk E]]. exists (S k). split; [lia|]. rewrite E, C, <- app_assoc. reflexivity.
      * destruct (spoofed (a_id a) (r0 :: b')).
        -- exists 1%nat. split; [lia|]. rewrite asked_fail. exact C.
        -- destruct (IH (fold_left handle_request (r0 :: b') s1) cap (n + 1)) as [k [Hk E]]. exists (S k). split; [lia|].
           rewrite E, requests_ask_nobody, C, <- app_assoc. reflexivity.
    + rewrite O. exists 0%nat. rewrite app_nil_r. split; [lia|exact C].
Qed.

Lemma NoDup_app_left {A} (a b : list A) : NoDup (a ++ b) -> NoDup a.
Proof.
  induction a as [|x r IH]; simpl; intros H; [constructor|]. inversion H; subst. constructor; auto.
  intros C. apply H2. apply in_or_app. left. exact C.
Qed.

(* with a duplicate-free permutation (what random.sample returns) nobody is asked twice by one collection *)
Corollary collect_asks_each_at_most_once ags s cap n acc : NoDup (map a_id ags) ->
  exists l, asked (fst (collect s ags cap n acc)) = asked s ++ l /\ NoDup l.
Proof.
  intros N. destruct (collect_asks_a_prefix ags s cap n acc) as [k [_ E]]. exists (map a_id (firstn k ags)). split; auto.
  rewrite <- (firstn_skipn k ags), map_app in N. apply NoDup_app_left in N. exact N.
Qed.
