(* Level S: the sequential runner (pams/runners/sequential.py), the simulator's hook table and dispatch
   (pams/simulator.py), sessions with their mutable execution switch, the four built-in events
   (pams/events/*.py) plus recording probe events, agent holdings, the logger's pending list - over the
   Level-M markets of Market.v.  The runner's random decisions, the agents' batches and the delivered
   fundamental values are explicit input tapes (DESIGN 3.4); the output is one chronological event list. *)
Require Import Pams.Prelude Pams.Tick Pams.Match Pams.Market.
From RecordUpdate Require Import RecordSet.
Import RecordSetNotations.
Open Scope Z_scope.

(* ---------------- configuration ---------------- *)
Record mconf := mkMC { mc_id : Z; mc_tick : Q; mc_mp0 : Q; mc_comps : option (list Z); mc_shares : Z }.
Record aconf := mkAC { ac_id : Z; ac_hft : bool; ac_cash : Q; ac_assets : list (Z * Z) }.
Record sconf := mkSC { sc_id : Z; sc_steps : Z; sc_place : bool; sc_exec : bool; sc_maxn : Z; sc_maxh : Z; sc_rate : Q }.
Inductive hkind := HOrder | HCancel | HExec | HSession | HMarket.
Definition hkind_code (k : hkind) : Z := match k with HOrder => 1 | HCancel => 2 | HExec => 3 | HSession => 4 | HMarket => 5 end.
Definition hkind_eqb (a b : hkind) : bool := hkind_code a =? hkind_code b.
Record hspec := mkHS { hs_kind : hkind; hs_before : bool; hs_times : option (list Z); hs_inst : option Z; hs_index_only : bool }.
Inductive evkind :=
| KFundShock (target offset len : Z) (rate : Q)
| KMistake (target offset : Z) (rate : Q) (vol ttlv : Z)
| KPriceLimit (targets : list Z) (rate : Q)
| KHalt (targets : list Z) (rate : Q) (len : Z)
| KProbe (spec : list hspec).
Record econf := mkEC { ec_id : Z; ec_session : Z; ec_enabled : bool; ec_kind : evkind }.
Record config := mkCfg { c_markets : list mconf; c_agents : list aconf; c_sessions : list sconf; c_events : list econf }.

(* ---------------- input tapes ---------------- *)
Inductive tape_item := TPerm (l : list nat) | TDraw (x : Q).
Inductive request :=
| RNew (tag ag mk : Z) (buy : bool) (p : option Q) (v : Z) (ttlv : option Z)
| RCancel (tag ag mk : Z).
Definition req_agent (r : request) : Z := match r with RNew _ a _ _ _ _ _ => a | RCancel _ a _ => a end.
Definition req_market (r : request) : Z := match r with RNew _ _ m _ _ _ _ => m | RCancel _ _ m => m end.

(* ---------------- events of the run (the observable trace) ---------------- *)
Inductive event :=
| EvConsult (a n : Z)                                          (* Agent.submit_orders was called *)
| EvProbe (ev : Z) (k : hkind) (before : bool) (clk mk : Z) (extra : list ov)   (* a probe event's hook ran *)
| EvLog (r : record)                                           (* a record as delivered to the logger *)
| EvSimBegin | EvSimEnd
| EvSessBegin (sid clk : Z) | EvSessEnd (sid clk : Z)
| EvStep (kind : Z) (fields : list ov)                         (* market step begin (9) / end (10) record *)
| EvCallback (a kind : Z) (r : record) (hold : list ov) (switch running : bool)
| EvRound (mk : Z) (running : bool) (sid : Z)                  (* Market._execution was called, in session sid *)
| EvTruth (r : record) (extra : list ov).                      (* the market accepted / filled / expired *)

(* ---------------- state ---------------- *)
Record hook := mkH { h_ev : Z; h_kind : hkind; h_before : bool; h_times : option (list Z); h_inst : option Z; h_index_only : bool }.
Record evstate := mkES { es_id : Z; es_kind : evkind; es_trigger : Z; es_spent : bool; es_started : Z; es_count : Z;
                         es_halted : option (Z * Z) }.
Record agent := mkA { a_id : Z; a_hft : bool; a_cash : Q; a_assets : list (Z * Z) }.
Record sess := mkSe { se_id : Z; se_start : Z; se_steps : Z; se_place : bool; se_cfg_exec : bool; se_exec : bool;
                      se_maxn : Z; se_maxh : Z; se_rate : Q }.
Record mkt := mkMk { mk_m : market; mk_comps : option (list Z); mk_shares : Z }.

Record sim := mkS {
  s_markets : list mkt; s_agents : list agent; s_sessions : list sess; s_cur : Z;
  s_hooks : list hook; s_events : list evstate;
  s_pending : list event; s_trace : list event;
  s_tape : list tape_item; s_batches : list (Z * list request); s_funds : list (Z * Z * Q);
  s_tags : list (Z * (Z * Z));
  s_err : option err
}.
#[export] Instance eta_sim : Settable _ :=
  settable! mkS <s_markets; s_agents; s_sessions; s_cur; s_hooks; s_events; s_pending; s_trace; s_tape; s_batches; s_funds; s_tags; s_err>.
#[export] Instance eta_mkt : Settable _ := settable! mkMk <mk_m; mk_comps; mk_shares>.
#[export] Instance eta_agent : Settable _ := settable! mkA <a_id; a_hft; a_cash; a_assets>.
#[export] Instance eta_sess : Settable _ :=
  settable! mkSe <se_id; se_start; se_steps; se_place; se_cfg_exec; se_exec; se_maxn; se_maxh; se_rate>.
#[export] Instance eta_evstate : Settable _ := settable! mkES <es_id; es_kind; es_trigger; es_spent; es_started; es_count; es_halted>.

Definition fail (s : sim) (e : err) : sim :=
  match s_err s with Some _ => s | None => s <| s_err := Some e |> end.
Definition ok (s : sim) : bool := match s_err s with None => true | Some _ => false end.
(* run f unless the run has already ended with an exception *)
Definition guard (s : sim) (f : sim -> sim) : sim := if ok s then f s else s.
Definition emit (s : sim) (e : event) : sim := s <| s_trace := e :: s_trace s |>.
Definition write (s : sim) (e : event) : sim := s <| s_pending := s_pending s ++ [e] |>.
Definition flush (s : sim) : sim := s <| s_trace := rev (s_pending s) ++ s_trace s |> <| s_pending := [] |>.

(* ---------------- lookups ---------------- *)
Fixpoint find_mkt (i : Z) (l : list mkt) : option mkt :=
  match l with [] => None | x :: r => if m_id (mk_m x) =? i then Some x else find_mkt i r end.
Fixpoint upd_mkt (i : Z) (f : mkt -> mkt) (l : list mkt) : list mkt :=
  match l with [] => [] | x :: r => if m_id (mk_m x) =? i then f x :: r else x :: upd_mkt i f r end.
Definition set_market (s : sim) (i : Z) (m : market) : sim :=
  s <| s_markets := upd_mkt i (fun x => x <| mk_m := m |>) (s_markets s) |>.
Fixpoint find_sess (i : Z) (l : list sess) : option sess :=
  match l with [] => None | x :: r => if se_id x =? i then Some x else find_sess i r end.
Definition upd_sess (i : Z) (f : sess -> sess) (l : list sess) : list sess :=
  map (fun x => if se_id x =? i then f x else x) l.
Definition upd_event (i : Z) (f : evstate -> evstate) (l : list evstate) : list evstate :=
  map (fun x => if es_id x =? i then f x else x) l.
Fixpoint find_event (i : Z) (l : list evstate) : option evstate :=
  match l with [] => None | x :: r => if es_id x =? i then Some x else find_event i r end.
Definition upd_agent (i : Z) (f : agent -> agent) (l : list agent) : list agent :=
  map (fun x => if a_id x =? i then f x else x) l.
Fixpoint find_agent (i : Z) (l : list agent) : option agent :=
  match l with [] => None | x :: r => if a_id x =? i then Some x else find_agent i r end.
Fixpoint assoc {A} (i : Z) (l : list (Z * A)) : option A :=
  match l with [] => None | (k, v) :: r => if k =? i then Some v else assoc i r end.
Fixpoint find_fund (mkid t : Z) (l : list (Z * Z * Q)) : option Q :=
  match l with [] => None | (k, u, v) :: r => if (k =? mkid) && (u =? t) then Some v else find_fund mkid t r end.
Definition memz (x : Z) (l : list Z) : bool := existsb (Z.eqb x) l.

Definition cur_switch (s : sim) : bool :=
  match find_sess (s_cur s) (s_sessions s) with Some x => se_exec x | None => false end.
Definition mtime (x : mkt) : Z := m_time (mk_m x).
Definition clock (s : sim) : Z := match s_markets s with x :: _ => mtime x | [] => -1 end.
Definition mprice_at (x : mkt) (t : Z) : option Q := geto (m_mp (mk_m x)) t.
Definition is_index (x : mkt) : bool := match mk_comps x with Some _ => true | None => false end.

(* weighted average over the components of an index market *)
Definition wavg (s : sim) (comps : list Z) (get : mkt -> option Q) : option Q :=
  let step := fun (acc : option (Q * Z)) (i : Z) =>
    match acc, find_mkt i (s_markets s) with
    | Some (tv, ts), Some c => match get c with
                               | Some p => Some (qadd tv (qmul p (qofz (mk_shares c))), ts + mk_shares c)
                               | None => None
                               end
    | _, _ => None
    end in
  match fold_left step comps (Some (0#1, 0)) with
  | Some (tv, ts) => if ts =? 0 then None else Some (qdiv tv (qofz ts))
  | None => None
  end.

Definition holdings_ov (a : agent) : list ov := [VQ (a_cash a); VL (map (fun kv => VZ (snd kv)) (a_assets a))].

(* ---------------- event records ---------------- *)
Definition ev_step (s : sim) (kind : Z) (x : mkt) : event :=
  let t := mtime x in
  let idx := match mk_comps x with
             | Some comps => voa (wavg s comps (fun c => mprice_at c t))
             | None => VN
             end in
  let fundv := if is_index x then voa (geto (m_fund (mk_m x)) t) else voq (geto (m_fund (mk_m x)) t) in
  EvStep kind ([VZ (s_cur s); VZ (m_id (mk_m x)); VZ t; VB (m_running (mk_m x)); VB (cur_switch s);
                voq (mprice_at x t); fundv; idx] ++
               (if kind =? 10 then [VL (map (fun a => VL (holdings_ov a)) (s_agents s))] else [])).

Definition rec_fields (r : record) : list ov :=
  match ov_record r with VL l => l | x => [x] end.
Definition ev_probe (s : sim) (ev : Z) (k : hkind) (before : bool) (mkid : Z) (extra : list ov) : event :=
  EvProbe ev k before (clock s) mkid extra.

(* rendering for the correspondence check *)
Definition render (e : event) : ov :=
  match e with
  | EvConsult a n => VL [VZ 1; VZ a; VZ n]
  | EvProbe ev k before clk mk extra => VL [VZ 2; VZ ev; VZ (hkind_code k); VB before; VZ clk; VZ mk; VL extra]
  | EvLog r => VL (VZ 3 :: rec_fields r)
  | EvSimBegin => VL [VZ 3; VZ 5]
  | EvSimEnd => VL [VZ 3; VZ 6]
  | EvSessBegin sid clk => VL [VZ 3; VZ 7; VZ sid; VZ clk]
  | EvSessEnd sid clk => VL [VZ 3; VZ 8; VZ sid; VZ clk]
  | EvStep kind fields => VL (VZ 3 :: VZ kind :: fields)
  | EvCallback a kind r hold sw run => VL ([VZ 5; VZ a; VZ kind] ++ tl (rec_fields r) ++ hold ++ [VB sw; VB run])
  | EvRound mk run sid => VL [VZ 4; VZ mk; VB run; VZ sid]
  | EvTruth r extra => VL (VZ 6 :: rec_fields r ++ extra)
  end.

(* ---------------- hook table ---------------- *)
Definition hook_matches (k : hkind) (before : bool) (h : hook) : bool :=
  hkind_eqb (h_kind h) k && Bool.eqb (h_before h) before.
(* dispatch order of Simulator._trigger_*: the hooks registered for every time, then those registered for this time *)
Definition hooks_for (s : sim) (k : hkind) (before : bool) (t : Z) : list hook :=
  filter (fun h => hook_matches k before h && match h_times h with None => true | Some _ => false end) (s_hooks s) ++
  filter (fun h => hook_matches k before h && match h_times h with None => false | Some l => memz t l end) (s_hooks s).
Definition market_filter (h : hook) (x : mkt) : bool :=
  (if h_index_only h then is_index x else true) &&
  match h_inst h with None => true | Some i => i =? m_id (mk_m x) end.

(* hook_registration of each event class *)
Definition dedup_times (l : list Z) : list Z :=
  fold_left (fun acc t => if memz t acc then acc else acc ++ [t]) l [].
Definition hooks_of_event (e : econf) (trigger : Z) : list hook :=
  if negb (ec_enabled e) then [] else
  match ec_kind e with
  | KFundShock target _ len _ =>
      [mkH (ec_id e) HMarket true (Some (map (fun i => trigger + Z.of_nat i) (seq 0 (Z.to_nat len)))) (Some target) false]
  | KMistake _ _ _ _ _ => [mkH (ec_id e) HOrder true (Some [trigger]) None false]
  | KPriceLimit _ _ => [mkH (ec_id e) HOrder true None None false]
  | KHalt targets _ _ =>
      mkH (ec_id e) HExec false None None false ::
      map (fun m => mkH (ec_id e) HMarket true None (Some m) false) targets
  | KProbe spec =>
      map (fun h => mkH (ec_id e) (hs_kind h) (hs_before h) (hs_times h) (hs_inst h) (hs_index_only h)) spec
  end.

(* ---------------- effects of the built-in events ---------------- *)
Definition qabs (x : Q) : Q := Qabs x.
Definition qmin (a b : Q) : Q := if qltb b a then b else a.     (* Python min(a, b): first minimal *)
Definition qmax (a b : Q) : Q := if qltb a b then b else a.     (* Python max(a, b): first maximal *)
Definition one_plus (r : Q) : Q := qadd (1#1) r.

(* PriceLimitRule.get_limited_price *)
Definition limited_price (ref rate p : Q) : Q :=
  let change := qsub p ref in
  let thr := qmul ref rate in
  if qleb (qabs thr) (qabs change) then
    qmin (qmax p (qmul ref (qsub (1#1) rate))) (qmul ref (one_plus rate))
  else p.

Definition before_order_effect (s : sim) (h : hook) (r : request) : sim * request :=
  match r with
  | RCancel _ _ _ => (s, r)
  | RNew tag ag mk buy p v ttlv =>
    match find_event (h_ev h) (s_events s) with
    | None => (s, r)
    | Some e =>
      match es_kind e with
      | KProbe _ => (emit s (ev_probe s (h_ev h) HOrder true mk [VZ ag; VB buy; voq p; VZ v; voz ttlv]), r)
      | KMistake target _ rate vol ttl' =>
          if negb (mk =? target) then (s, r) else
          if es_spent e then (s, r) else
          match find_mkt mk (s_markets s) with
          | None => (fail s EIndex, r)
          | Some x =>
            match mprice_at x (mtime x) with
            | None => (fail s EAssertNone, r)
            | Some base =>
              (s <| s_events := upd_event (es_id e) (fun e => e <| es_spent := true |>) (s_events s) |>,
               RNew tag ag mk (qltb (0#1) rate) (Some (qmul base (one_plus rate))) vol (Some ttl'))
            end
          end
      | KPriceLimit targets rate =>
          if negb (memz mk targets) then (s, r) else
          match find_mkt mk (s_markets s) with
          | None => (fail s EIndex, r)
          | Some x =>
            match mprice_at x 0, p with
            | None, _ => (fail s EAssertNone, r)
            | Some _, None => (s, r)
            | Some ref, Some pr => (s, RNew tag ag mk buy (Some (limited_price ref rate pr)) v ttlv)
            end
          end
      | _ => (s, r)
      end
    end
  end.

(* TradingHaltRule.hooked_after_execution *)
Definition halt_after_execution (s : sim) (e : evstate) (mkid : Z) : sim :=
  match es_kind e with
  | KHalt targets rate len =>
    match find_mkt mkid (s_markets s) with
    | None => fail s EIndex
    | Some x =>
      match mprice_at x 0, mprice_at x (mtime x) with
      | Some ref, Some now =>
        if negb (m_running (mk_m x)) then s else
        let change := qsub ref now in
        let thr := qmul (qmul ref rate) (qofz (es_count e + 1)) in
        if qleb (qabs thr) (qabs change) && memz mkid targets then
          let s := set_market s mkid ((mk_m x) <| m_running := false |>) in
          let s := s <| s_sessions := upd_sess (s_cur s) (fun z => z <| se_exec := false |>) (s_sessions s) |> in
          s <| s_events := upd_event (es_id e)
                 (fun e => e <| es_started := mtime x |> <| es_count := es_count e + 1 |> <| es_halted := Some (mkid, s_cur s) |>)
                 (s_events s) |>
        else s
      | _, _ => fail s EAssertNone
      end
    end
  | _ => s
  end.

(* TradingHaltRule.hooked_before_step_for_market *)
Definition halt_before_step (s : sim) (e : evstate) (x : mkt) : sim :=
  match es_kind e with
  | KHalt targets rate len =>
    if (mtime x >? es_started e + len) && memz (m_id (mk_m x)) targets then
      match es_halted e with
      | Some (hm, hs) =>
        if negb (hm =? m_id (mk_m x)) then s else
        let s := if hs =? s_cur s then
                   let s := set_market s hm ((mk_m x) <| m_running := true |>) in
                   s <| s_sessions := upd_sess (s_cur s) (fun z => z <| se_exec := true |>) (s_sessions s) |>
                 else s in
        s <| s_events := upd_event (es_id e) (fun e => e <| es_halted := None |> <| es_started := 0 |>) (s_events s) |>
      | None => s
      end
    else s
  | _ => s
  end.

(* FundamentalPriceShock.hooked_before_step_for_market -> Market.change_fundamental_price *)
Definition shock_before_step (s : sim) (e : evstate) (x : mkt) : sim :=
  match es_kind e with
  | KFundShock target _ len rate =>
    let t := mtime x in
    if negb ((es_trigger e <=? t) && (t <? es_trigger e + len)) then fail s EHook else
    if negb (m_id (mk_m x) =? target) then fail s EHook else
    match geto (m_fund (mk_m x)) t with
    | None => fail s EAssertNone
    | Some f => set_market s target ((mk_m x) <| m_fund := upd (m_fund (mk_m x)) (zi t) (Some (qmul f (one_plus rate))) |>)
    end
  | _ => s
  end.

(* ---------------- dispatch ---------------- *)
Definition is_probe (s : sim) (h : hook) : bool :=
  match find_event (h_ev h) (s_events s) with Some e => match es_kind e with KProbe _ => true | _ => false end | None => false end.

Definition fire_order_before (s : sim) (r : request) (t : Z) : sim * request :=
  fold_left (fun (acc : sim * request) h => if ok (fst acc) then before_order_effect (fst acc) h (snd acc) else acc)
            (hooks_for s HOrder true t) (s, r).

(* hooks whose only built-in effect is the probe's record *)
Definition fire_simple (s : sim) (k : hkind) (before : bool) (t : Z) (mkid : Z) (extra : list ov) : sim :=
  fold_left (fun s h => if ok s && is_probe s h then emit s (ev_probe s (h_ev h) k before mkid extra) else s)
            (hooks_for s k before t) s.

Definition fire_exec_after (s : sim) (t mkid : Z) (extra : list ov) : sim :=
  fold_left (fun s h =>
               if negb (ok s) then s else
               match find_event (h_ev h) (s_events s) with
               | None => s
               | Some e => match es_kind e with
                           | KProbe _ => emit s (ev_probe s (h_ev h) HExec false mkid extra)
                           | KHalt _ _ _ => halt_after_execution s e mkid
                           | _ => s
                           end
               end)
            (hooks_for s HExec false t) s.

Definition fire_market (s : sim) (before : bool) (mkid : Z) : sim :=
  match find_mkt mkid (s_markets s) with
  | None => s
  | Some x0 =>
    fold_left (fun s h =>
                 if negb (ok s) then s else
                 match find_mkt mkid (s_markets s), find_event (h_ev h) (s_events s) with
                 | Some x, Some e =>
                   if negb (market_filter h x) then s else
                   match es_kind e with
                   | KProbe _ => emit s (ev_probe s (h_ev h) HMarket before mkid [VZ (mtime x)])
                   | KHalt _ _ _ => if before then halt_before_step s e x else s
                   | KFundShock _ _ _ _ => if before then shock_before_step s e x else s
                   | _ => s
                   end
                 | _, _ => s
                 end)
              (hooks_for s HMarket before (mtime x0)) s
  end.

(* ---------------- holdings ---------------- *)
Definition add_asset (mkid v : Z) (l : list (Z * Z)) : list (Z * Z) :=
  map (fun kv => if fst kv =? mkid then (fst kv, snd kv + v) else kv) l.
(* Simulator._update_agents_for_execution, one log *)
Definition apply_fill_holdings (ags : list agent) (r : record) : list agent :=
  match r with
  | RExec mkid _ ba sa _ _ p v =>
      let amt := qmul p (qofz v) in
      let ags := upd_agent ba (fun a => a <| a_cash := qsub (a_cash a) amt |>) ags in
      let ags := upd_agent sa (fun a => a <| a_cash := qadd (a_cash a) amt |>) ags in
      let ags := upd_agent ba (fun a => a <| a_assets := add_asset mkid v (a_assets a) |>) ags in
      upd_agent sa (fun a => a <| a_assets := add_asset mkid (- v) (a_assets a) |>) ags
  | _ => ags
  end.

Definition callback (s : sim) (aid kind : Z) (r : record) (mkid : Z) : sim :=
  match find_agent aid (s_agents s), find_mkt mkid (s_markets s) with
  | Some a, Some x => emit s (EvCallback (a_id a) kind r (holdings_ov a) (cur_switch s) (m_running (mk_m x)))
  | _, _ => fail s EIndex
  end.

(* the agent an order / cancel record is about (runner: id2agent[order.agent_id], id2agent[cancel.order.agent_id]) *)
Definition rec_owner (r : record) (d : Z) : Z :=
  match r with ROrder o => Match.agent o | Market.RCancel o _ => Match.agent o | RExpire o _ => Match.agent o | RExec _ _ _ _ _ _ _ _ => d end.

(* ---------------- atomic updates at the points where the market changes ---------------- *)
(* a record is born: the ground-truth event is emitted and the log is handed to the logger (pending) *)
Definition log_event (s : sim) (r : record) (extra : list ov) : sim := write (emit s (EvTruth r extra)) (EvLog r).

Definition do_accept_order (s : sim) (mkid : Z) (x : mkt) (m' : market) (rc : record) (tag : Z) : sim :=
  let oid := match rc with ROrder o => Match.oid o | _ => -1 end in
  let s := set_market s mkid m' in
  let s := s <| s_tags := (tag, (mkid, oid)) :: s_tags s |> in
  log_event s rc [VZ tag; voq (mprice_at x (mtime x)); voq (mprice_at x 0)].

Definition do_accept_cancel (s : sim) (mkid : Z) (m' : market) (rc : record) : sim :=
  log_event (set_market s mkid m') rc [].

(* a round's fills: the book changes, every fill is logged, and the holdings of all parties are updated for the whole
   round (Simulator._update_agents_for_execution) before anybody is notified *)
Definition do_fills (s : sim) (mkid : Z) (m' : market) (logs : list record) : sim :=
  let s := set_market s mkid m' in
  let s := fold_left (fun s r => log_event s r []) logs s in
  s <| s_agents := fold_left apply_fill_holdings logs (s_agents s) |>.

Definition do_tick (s : sim) (mkid : Z) (m' : market) (recs : list record) : sim :=
  fold_left (fun s r => log_event s r []) recs (set_market s mkid m').

(* ---------------- one request: runner lines 447-471 / 507-537 ---------------- *)
Definition notify_fill (s : sim) (mkid : Z) (r : record) : sim :=
  match r with
  | RExec _ t ba sa bi si _ _ =>
      let s := guard s (fun s => callback s ba 3 r mkid) in
      let s := guard s (fun s => callback s sa 3 r mkid) in
      guard s (fun s => fire_exec_after s t mkid [VZ bi; VZ si])
  | _ => s
  end.

Definition run_round (s : sim) (mkid : Z) : sim :=
  if negb (cur_switch s) then s else
  match find_mkt mkid (s_markets s) with
  | None => fail s EIndex
  | Some x =>
    let s := emit s (EvRound mkid (m_running (mk_m x)) (s_cur s)) in
    match execution (mk_m x) with
    | Err e => fail s e
    | Ok (m', logs) => fold_left (fun s r => notify_fill s mkid r) logs (do_fills s mkid m' logs)
    end
  end.

Definition handle_request (s : sim) (r : request) : sim :=
  if negb (ok s) then s else
  let mkid := req_market r in
  match find_mkt mkid (s_markets s) with
  | None => fail s EIndex
  | Some x =>
    match r with
    | RNew _ _ _ _ _ _ _ =>
      let '(s, r') := fire_order_before s r (mtime x) in
      if negb (ok s) then s else
      match r', find_mkt mkid (s_markets s) with
      | RNew tag ag mk buy p v ttlv, Some x =>
        match assoc tag (s_tags s) with
        | Some _ => fail s EAlreadySubmitted
        | None =>
          match add_order (mk_m x) ag mk buy p v ttlv with
          | Err e => fail s e
          | Ok (m', rec) =>
            let oid := match rec with ROrder o => Match.oid o | _ => -1 end in
            let s := do_accept_order s mkid x m' rec tag in
            let s := callback s ag 1 rec mkid in
            let s := guard s (fun s => fire_simple s HOrder false (m_time m') mkid [VZ oid]) in
            guard s (fun s => run_round s mkid)
          end
        end
      | _, _ => fail s EOther
      end
    | RCancel tag ag mk =>
      let oid := match assoc tag (s_tags s) with Some (_, i) => Some i | None => None end in
      let s := fire_simple s HCancel true (mtime x) mkid [voz oid] in
      if negb (ok s) then s else
      match oid, find_mkt mkid (s_markets s) with
      | None, _ => fail s ENotSubmitted
      | Some i, Some x =>
        match cancel_order (mk_m x) i with
        | Err e => fail s e
        | Ok (m', rec) =>
          let s := do_accept_cancel s mkid m' rec in
          let s := callback s (rec_owner rec ag) 2 rec mkid in   (* id2agent[cancel.order.agent_id] *)
          let s := guard s (fun s => fire_simple s HCancel false (m_time m') mkid [VZ i]) in
          guard s (fun s => run_round s mkid)
        end
      | _, None => fail s EIndex
      end
    end
  end.

(* ---------------- consulting agents ---------------- *)
Definition pop_perm (s : sim) : sim * list nat :=
  match s_tape s with
  | TPerm l :: r => (s <| s_tape := r |>, l)
  | _ => (fail s EOther, [])
  end.
Definition pop_draw (s : sim) : sim * Q :=
  match s_tape s with
  | TDraw x :: r => (s <| s_tape := r |>, x)
  | _ => (fail s EOther, 0#1)
  end.
Definition permute {A} (l : list A) (p : list nat) : list A :=
  flat_map (fun i => match nth_error l i with Some x => [x] | None => [] end) p.

(* Agent.submit_orders: the next recorded batch must be this agent's *)
Definition consult (s : sim) (aid : Z) : sim * list request :=
  match s_batches s with
  | (a, b) :: r =>
      if a =? aid then (emit (s <| s_batches := r |>) (EvConsult aid (Z.of_nat (length b))), b)
      else (fail s EOther, [])
  | [] => (fail s EOther, [])
  end.

Definition spoofed (aid : Z) (b : list request) : bool := existsb (fun r => negb (req_agent r =? aid)) b.

(* _collect_orders_from_normal_agents *)
Fixpoint collect (s : sim) (ags : list agent) (cap n : Z) (acc : list (list request)) : sim * list (list request) :=
  match ags with
  | [] => (s, acc)
  | a :: rest =>
      if negb (ok s) then (s, acc) else
      if n >=? cap then (s, acc) else
      let '(s, b) := consult s (a_id a) in
      if negb (ok s) then (s, acc) else
      match b with
      | [] => collect s rest cap n acc
      | _ => if spoofed (a_id a) b then (fail s ESpoof, acc) else collect s rest cap (n + 1) (acc ++ [b])
      end
  end.

(* the high-frequency phase after one handled batch *)
Fixpoint hft_phase (s : sim) (ags : list agent) (cap n : Z) : sim :=
  match ags with
  | [] => s
  | a :: rest =>
      if negb (ok s) then s else
      if n >=? cap then s else
      let '(s, b) := consult s (a_id a) in
      if negb (ok s) then s else
      match b with
      | [] => hft_phase s rest cap n
      | _ => if spoofed (a_id a) b then fail s ESpoof
             else hft_phase (fold_left handle_request b s) rest cap (n + 1)
      end
  end.

Definition cur_sess (s : sim) : option sess := find_sess (s_cur s) (s_sessions s).

(* _handle_orders *)
Definition handle_batch (s : sim) (b : list request) : sim :=
  if negb (ok s) then s else
  let s := fold_left handle_request b s in
  if negb (ok s) then s else
  match cur_sess s with
  | None => fail s EOther
  | Some se =>
    let '(s, x) := pop_draw s in
    if negb (ok s) then s else
    if qltb (se_rate se) x then s else
    let '(s, p) := pop_perm s in
    if negb (ok s) then s else
    hft_phase s (permute (filter a_hft (s_agents s)) p) (se_maxh se) 0
  end.

(* _update_markets *)
Definition update_markets (s : sim) : sim :=
  match cur_sess s with
  | None => fail s EOther
  | Some se =>
    let '(s, p) := pop_perm s in
    if negb (ok s) then s else
    let '(s, local) := collect s (permute (filter (fun a => negb (a_hft a)) (s_agents s)) p) (se_maxn se) 0 [] in
    if negb (ok s) then s else
    let '(s, p2) := pop_perm s in
    if negb (ok s) then s else
    fold_left handle_batch (permute local p2) s
  end.

(* ---------------- the clock: Simulator._update_times_on_markets ---------------- *)
Definition tick_market (s : sim) (x : mkt) : sim :=
  if negb (ok s) then s else
  match find_mkt (m_id (mk_m x)) (s_markets s) with
  | None => s
  | Some x =>
    let t' := mtime x + 1 in
    let fv := match mk_comps x with
              | None => find_fund (m_id (mk_m x)) t' (s_funds s)
              | Some comps => wavg s comps (fun c => geto (m_fund (mk_m c)) t')
              end in
    match fv with
    | None => fail s EIndex
    | Some f =>
      let '(m', recs) := tick (mk_m x) f in
      do_tick s (m_id (mk_m x)) m' recs
    end
  end.
Definition tick_all (s : sim) : sim :=
  let s := fold_left tick_market (filter (fun x => negb (is_index x)) (s_markets s)) s in
  fold_left tick_market (filter is_index (s_markets s)) s.

(* ---------------- steps, sessions, the run ---------------- *)
Definition mids (s : sim) : list Z := map (fun x => m_id (mk_m x)) (s_markets s).

Definition step_begin (s : sim) (mkid : Z) : sim :=
  if negb (ok s) then s else
  let s := fire_market s true mkid in
  if negb (ok s) then s else
  match find_mkt mkid (s_markets s) with Some x => emit s (ev_step s 9 x) | None => s end.
Definition step_end (s : sim) (mkid : Z) : sim :=
  if negb (ok s) then s else
  let s := match find_mkt mkid (s_markets s) with Some x => emit s (ev_step s 10 x) | None => s end in
  fire_market s false mkid.

Definition one_step (s : sim) : sim :=
  if negb (ok s) then s else
  let s := fold_left step_begin (mids s) s in
  if negb (ok s) then s else
  let s := match cur_sess s with
           | Some se => if se_place se then update_markets s else s
           | None => fail s EOther
           end in
  if negb (ok s) then s else
  let s := fold_left step_end (mids s) s in
  if negb (ok s) then s else
  tick_all s.

Fixpoint iterate (n : nat) (s : sim) : sim :=
  match n with 0%nat => s | S k => iterate k (one_step s) end.

(* _iterate_market_updates: every market's running flag := the session's (current) execution switch *)
Definition begin_iteration (s : sim) : sim :=
  let sw := cur_switch s in
  s <| s_markets := map (fun x => x <| mk_m := (mk_m x) <| m_running := sw |> |>) (s_markets s) |>.

Definition run_session (s : sim) (se0 : sess) : sim :=
  if negb (ok s) then s else
  let sid := se_id se0 in
  let s := s <| s_cur := sid |> in
  let s := fire_simple s HSession true (se_start se0) (-1) [VZ sid; VZ (se_start se0)] in
  if negb (ok s) then s else
  let s := flush (write s (EvSessBegin sid (clock s))) in
  let s := begin_iteration s in
  let s := iterate (Z.to_nat (se_steps se0)) s in
  if negb (ok s) then s else
  let s := fire_simple s HSession false (se_start se0 + se_steps se0 - 1) (-1) [VZ sid; VZ (se_start se0 + se_steps se0 - 1)] in
  if negb (ok s) then s else
  flush (write s (EvSessEnd sid (clock s))).

(* ---------------- setup ---------------- *)
Fixpoint mk_sessions (l : list sconf) (start : Z) : list sess :=
  match l with
  | [] => []
  | c :: r => mkSe (sc_id c) start (sc_steps c) (sc_place c) (sc_exec c) (sc_exec c) (sc_maxn c) (sc_maxh c) (sc_rate c)
              :: mk_sessions r (start + sc_steps c)
  end.
Definition ev_offset (k : evkind) : Z :=
  match k with KFundShock _ o _ _ => o | KMistake _ o _ _ _ => o | _ => 0 end.
Definition ev_trigger (ss : list sess) (e : econf) : Z :=
  match find_sess (ec_session e) ss with Some x => se_start x + ev_offset (ec_kind e) | None => 0 end.

(* Simulator._add_event: a hook is registered once per distinct time *)
Definition norm_hook (h : hook) : hook :=
  mkH (h_ev h) (h_kind h) (h_before h) (match h_times h with Some l => Some (dedup_times l) | None => None end)
      (h_inst h) (h_index_only h).

Definition init_sim (c : config) (tape : list tape_item) (batches : list (Z * list request)) (funds : list (Z * Z * Q)) : sim :=
  let ss := mk_sessions (c_sessions c) 0 in
  mkS (map (fun m => mkMk (init_market (mc_id m) (mc_tick m) (mc_mp0 m)) (mc_comps m) (mc_shares m)) (c_markets c))
      (map (fun a => mkA (ac_id a) (ac_hft a) (ac_cash a) (ac_assets a)) (c_agents c))
      ss (-1)
      (map norm_hook (flat_map (fun e => hooks_of_event e (ev_trigger ss e)) (c_events c)))
      (map (fun e => mkES (ec_id e) (ec_kind e) (ev_trigger ss e) false 0 0 None) (c_events c))
      [] [] tape batches funds [] None.

(* SequentialRunner._run *)
Definition run (c : config) (tape : list tape_item) (batches : list (Z * list request)) (funds : list (Z * Z * Q)) : sim :=
  let s := init_sim c tape batches funds in
  let s := flush (write s EvSimBegin) in
  let s := tick_all s in
  let s := fold_left run_session (s_sessions s) s in
  if negb (ok s) then s else
  flush (write s EvSimEnd).

(* the run's events in chronological order *)
Definition events_of (s : sim) : list event := rev (s_trace s).
Definition trace_of (s : sim) : list ov :=
  map render (events_of s) ++ match s_err s with Some e => [VL [VZ 9; VZ (err_code e)]] | None => [] end.

Definition run_case_s (x : config * list tape_item * list (Z * list request) * list (Z * Z * Q)) : ov :=
  let '(c, tape, batches, funds) := x in VL (trace_of (run c tape batches funds)).
