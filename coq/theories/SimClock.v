(* C06 (run level): one lock-step clock for all markets.  Nothing but the simulator's clock update moves a market's
   time; the clock update moves every market by exactly one; a step is one clock update; a session spans exactly its
   configured number of steps and starts where the previous one ended. *)
Require Import Pams.Prelude Pams.Tick Pams.Match Pams.Market Pams.MatchQ Pams.MarketInv Pams.MarketSeries Pams.Sim Pams.SimLift Pams.SimInv.
From Coq Require Import Permutation.
From RecordUpdate Require Import RecordSet.
Import RecordSetNotations.
Open Scope Z_scope.

Definition mkid (x : mkt) : Z := m_id (mk_m x).
Definition key (x : mkt) : Z * Z := (mkid x, mtime x).
Definition skel (x : mkt) : Z * bool := (mkid x, is_index x).
Definition keys (s : sim) : list (Z * Z) := map key (s_markets s).
Definition skels (s : sim) : list (Z * bool) := map skel (s_markets s).
Definition all_at (t : Z) (s : sim) : Prop := forall i v, In (i, v) (keys s) -> v = t.
(* market ids are distinct, and while the run has not failed every market reads the same time t *)
Definition clock_inv (t : Z) (s : sim) : Prop :=
  NoDup (map fst (keys s)) /\ (ok s = true -> all_at t s).

(* [keeps s s']: going from s to s' no market was added, removed, renamed or moved in time, and a failed run stays failed *)
Definition keeps (s s' : sim) : Prop := keys s' = keys s /\ (ok s' = true -> ok s = true).

Lemma keeps_refl s : keeps s s. Proof. split; auto. Qed.
Lemma keeps_trans a b c : keeps a b -> keeps b c -> keeps a c.
Proof. intros [A1 A2] [B1 B2]. split; [congruence|auto]. Qed.

Lemma clock_inv_keeps t s s' : keeps s s' -> clock_inv t s -> clock_inv t s'.
Proof. intros [K Ok'] [N A]. unfold clock_inv, all_at in *. rewrite K. split; [exact N|]. intros H. apply A. apply Ok'. exact H. Qed.

Lemma ok_fail s e : ok (fail s e) = true -> ok s = true.
Proof. unfold fail, ok. destruct (s_err s) eqn:E; cbn; rewrite ?E; auto. Qed.

Lemma keeps_fail s e : keeps s (fail s e).
Proof. split; [unfold keys; destruct (fail_fields s e) as [_ [_ [_ [-> _]]]]; reflexivity|apply ok_fail]. Qed.

Lemma keeps_same s s' : s_markets s' = s_markets s -> s_err s' = s_err s -> keeps s s'.
Proof. intros A B. unfold keeps, keys, ok. rewrite A, B. auto. Qed.

Lemma upd_mkt_map {B} (key : mkt -> B) i f l : (forall x, find_mkt i l = Some x -> key (f x) = key x) -> map key (upd_mkt i f l) = map key l.
Proof.
  induction l as [|y r IH]; simpl; intros H; auto. destruct (m_id (mk_m y) =? i).
  - simpl. rewrite H; auto.
  - simpl. rewrite IH; auto.
Qed.

Lemma keeps_set_market s i x m' :
  find_mkt i (s_markets s) = Some x -> m_id m' = m_id (mk_m x) -> m_time m' = m_time (mk_m x) -> keeps s (set_market s i m').
Proof.
  intros Fx Hid Ht. split; [|auto]. unfold keys, set_market. cbn. apply (upd_mkt_map key).
  intros y Fy. rewrite Fx in Fy. inversion Fy; subst. unfold key, mkid, mtime. cbn. congruence.
Qed.

Lemma keeps_log_event s r extra : keeps s (log_event s r extra).
Proof. apply keeps_same; reflexivity. Qed.

Lemma keeps_log_events rs : forall s, keeps s (fold_left (fun s r => log_event s r []) rs s).
Proof. induction rs as [|r rest IH]; simpl; intros s; [apply keeps_refl|]. eapply keeps_trans; [apply keeps_log_event|apply IH]. Qed.

(* ---------------- ids are never changed by the single-market operations ---------------- *)
Lemma add_order_id m ag mk buy p v ttlv m' r : add_order m ag mk buy p v ttlv = Ok (m', r) -> m_id m' = m_id m.
Proof.
  unfold add_order. destruct (m_time m <? 0); [discriminate|].
  destruct (negb (mk =? m_id m)); [discriminate|]. intros H; inversion H; subst; clear H.
  destruct buy; cbn; rewrite ump_id; cbn; auto.
Qed.

Lemma cancel_order_id m i m' r : cancel_order m i = Ok (m', r) -> m_id m' = m_id m.
Proof.
  unfold cancel_order. destruct (m_time m <? 0); [discriminate|].
  destruct (find_id i (m_buys m)); [|destruct (find_id i (m_sells m)); [|destruct (find_id i (m_gone m)); [|discriminate]]];
    intros H; inversion H; subst; rewrite ump_id; reflexivity.
Qed.

Lemma apply_fills_id p fs : forall m m' rs, apply_fills p m fs = Ok (m', rs) -> m_id m' = m_id m.
Proof.
  induction fs as [|f r IH]; simpl; intros m m' rs H.
  - inversion H; subst; auto.
  - destruct (apply_fill p m f) as [[m1 x]|] eqn:E1; [|discriminate]. simpl in H.
    destruct (apply_fills p m1 r) as [[m2 xs]|] eqn:E2; [|discriminate]. simpl in H. inversion H; subst.
    destruct (apply_fill_frame _ _ _ _ _ E1) as [_ [Hi _]]. rewrite (IH _ _ _ E2). auto.
Qed.

Lemma execution_id m m' rs : execution m = Ok (m', rs) -> m_id m' = m_id m.
Proof.
  unfold execution. destruct (negb (executable m)).
  - intros H; inversion H; subst; auto.
  - destruct (run_walk m) as [[p|] fs]; [|discriminate].
    destruct (apply_fills p m fs) as [[m1 lg]|] eqn:E; [|discriminate]. simpl.
    destruct (executable m1); [discriminate|]. intros H; inversion H; subst. eapply apply_fills_id; eauto.
Qed.

(* ---------------- every atomic update except the clock keeps ids and times ---------------- *)
Lemma keeps_accept_order s mkid0 x ag mk buy p v ttlv m' rc tag :
  find_mkt mkid0 (s_markets s) = Some x -> add_order (mk_m x) ag mk buy p v ttlv = Ok (m', rc) ->
  keeps s (do_accept_order s mkid0 x m' rc tag).
Proof.
  intros Fx Ea. unfold do_accept_order.
  eapply keeps_trans; [eapply keeps_set_market; [exact Fx|eapply add_order_id; eauto|eapply add_order_time; eauto]|].
  eapply keeps_trans; [|apply keeps_log_event]. apply keeps_same; reflexivity.
Qed.

Lemma keeps_accept_cancel s mkid0 x i m' rc :
  find_mkt mkid0 (s_markets s) = Some x -> cancel_order (mk_m x) i = Ok (m', rc) -> keeps s (do_accept_cancel s mkid0 m' rc).
Proof.
  intros Fx Ec. unfold do_accept_cancel.
  eapply keeps_trans; [eapply keeps_set_market; [exact Fx|eapply cancel_order_id; eauto|eapply cancel_order_time; eauto]|].
  apply keeps_log_event.
Qed.

Lemma keeps_fills s mkid0 x m' logs :
  find_mkt mkid0 (s_markets s) = Some x -> execution (mk_m x) = Ok (m', logs) -> keeps s (do_fills s mkid0 m' logs).
Proof.
  intros Fx Ex. unfold do_fills.
  eapply keeps_trans; [eapply keeps_set_market; [exact Fx|eapply execution_id; eauto|eapply execution_time; eauto]|].
  eapply keeps_trans; [apply keeps_log_events|]. apply keeps_same; reflexivity.
Qed.

Lemma keeps_pop_perm s : keeps s (fst (pop_perm s)).
Proof. unfold pop_perm. destruct (s_tape s) as [|[l|x] r]; simpl; try apply keeps_fail. apply keeps_same; reflexivity. Qed.
Lemma keeps_pop_draw s : keeps s (fst (pop_draw s)).
Proof. unfold pop_draw. destruct (s_tape s) as [|[l|x] r]; simpl; try apply keeps_fail. apply keeps_same; reflexivity. Qed.

Lemma keeps_consult s aid : keeps s (fst (consult s aid)).
Proof.
  unfold consult. destruct (s_batches s) as [|[a b] r]; simpl; [apply keeps_fail|].
  destruct (a =? aid); simpl; [|apply keeps_fail]. apply keeps_same; reflexivity.
Qed.

Lemma keeps_halt_after s e mkid0 : keeps s (halt_after_execution s e mkid0).
Proof.
  unfold halt_after_execution. destruct (es_kind e); try apply keeps_refl.
  destruct (find_mkt mkid0 (s_markets s)) as [x|] eqn:Fx; [|apply keeps_fail].
  destruct (mprice_at x 0); [|apply keeps_fail]. destruct (mprice_at x (mtime x)); [|apply keeps_fail].
  destruct (negb (m_running (mk_m x))); [apply keeps_refl|]. destruct (_ && _); [|apply keeps_refl].
  eapply keeps_trans; [eapply (keeps_set_market s mkid0 x ((mk_m x) <| m_running := false |>)); [exact Fx|reflexivity|reflexivity]|].
  apply keeps_same; reflexivity.
Qed.

Lemma keeps_halt_before s e x : find_mkt (m_id (mk_m x)) (s_markets s) = Some x -> keeps s (halt_before_step s e x).
Proof.
  intros Fx. unfold halt_before_step. destruct (es_kind e); try apply keeps_refl.
  destruct (_ && _); [|apply keeps_refl]. destruct (es_halted e) as [[hm hs]|]; [|apply keeps_refl].
  destruct (negb (hm =? m_id (mk_m x))) eqn:E; [apply keeps_refl|].
  apply negb_false_iff, Z.eqb_eq in E. subst hm.
  destruct (hs =? s_cur s).
  - eapply keeps_trans; [eapply (keeps_set_market s _ x ((mk_m x) <| m_running := true |>)); [exact Fx|reflexivity|reflexivity]|].
    apply keeps_same; reflexivity.
  - apply keeps_same; reflexivity.
Qed.

Lemma keeps_shock s e x : find_mkt (m_id (mk_m x)) (s_markets s) = Some x -> keeps s (shock_before_step s e x).
Proof.
  intros Fx. unfold shock_before_step. destruct (es_kind e); try apply keeps_refl.
  destruct (negb _); [apply keeps_fail|].
  destruct (negb (m_id (mk_m x) =? target)) eqn:E; [apply keeps_fail|]. apply negb_false_iff, Z.eqb_eq in E. subst target.
  destruct (geto _ _); [|apply keeps_fail].
  match goal with |- keeps _ (set_market _ _ ?m) => eapply (keeps_set_market s _ x m); [exact Fx|reflexivity|reflexivity] end.
Qed.

Lemma keeps_begin_iteration s : keeps s (begin_iteration s).
Proof.
  split; [|auto]. unfold keys, begin_iteration. cbn. rewrite map_map. apply map_ext. intros x. reflexivity.
Qed.

(* ---------------- lifting: the order phase and the step hooks never move a clock ---------------- *)
Section Frame.
Variable s0 : sim.
Let P (s : sim) : Prop := keeps s0 s.
Ltac via H := intros; unfold P in *; eapply keeps_trans; [eassumption|]; eapply H; eauto.

Lemma F_fail : forall s e, P s -> P (fail s e). Proof. via keeps_fail. Qed.
Lemma F_emit : forall s e, obs_event e -> P s -> P (emit s e). Proof. intros; unfold P in *; eapply keeps_trans; [eassumption|]; apply keeps_same; reflexivity. Qed.
Lemma F_callback : forall s aid kind r mkid, P s -> P (callback s aid kind r mkid).
Proof.
  apply callback_from_emit; [exact F_fail|].
  intros; unfold P in *; eapply keeps_trans; [eassumption|]; apply keeps_same; reflexivity.
Qed.
Lemma F_step : forall s kind mkid x, find_mkt mkid (s_markets s) = Some x -> P s -> P (emit s (ev_step s kind x)).
Proof. intros; unfold P in *; eapply keeps_trans; [eassumption|]; apply keeps_same; reflexivity. Qed.
Lemma F_boundary : forall s e, boundary_event e -> P s -> P (flush (write s e)).
Proof. intros; unfold P in *; eapply keeps_trans; [eassumption|]; apply keeps_same; reflexivity. Qed.
Lemma F_accept_order : forall s mkid x ag mk buy p v ttlv m' rc tag,
  find_mkt mkid (s_markets s) = Some x -> add_order (mk_m x) ag mk buy p v ttlv = Ok (m', rc) ->
  P s -> P (do_accept_order s mkid x m' rc tag).
Proof. via keeps_accept_order. Qed.
Lemma F_accept_cancel : forall s mkid x i m' rc,
  find_mkt mkid (s_markets s) = Some x -> cancel_order (mk_m x) i = Ok (m', rc) -> P s -> P (do_accept_cancel s mkid m' rc).
Proof. via keeps_accept_cancel. Qed.
Lemma F_round : forall s mkid x, find_mkt mkid (s_markets s) = Some x -> cur_switch s = true ->
  P s -> P (emit s (EvRound mkid (m_running (mk_m x)) (s_cur s))).
Proof. intros; unfold P in *; eapply keeps_trans; [eassumption|]; apply keeps_same; reflexivity. Qed.
Lemma F_fills : forall s mkid x m' logs,
  find_mkt mkid (s_markets s) = Some x -> execution (mk_m x) = Ok (m', logs) -> cur_switch s = true ->
  (exists tr, s_trace s = EvRound mkid (m_running (mk_m x)) (s_cur s) :: tr) -> P s -> P (do_fills s mkid m' logs).
Proof. via keeps_fills. Qed.
Lemma F_pop_perm : forall s, P s -> P (fst (pop_perm s)). Proof. via keeps_pop_perm. Qed.
Lemma F_pop_draw : forall s, P s -> P (fst (pop_draw s)). Proof. via keeps_pop_draw. Qed.
Lemma F_consult : forall s aid, P s -> P (fst (consult s aid)). Proof. via keeps_consult. Qed.
Lemma F_spent : forall s eid, P s -> P (s <| s_events := upd_event eid (fun e => e <| es_spent := true |>) (s_events s) |>).
Proof. intros; unfold P in *; eapply keeps_trans; [eassumption|]; apply keeps_same; reflexivity. Qed.
Lemma F_halt_after : forall s e mkid, In e (s_events s) -> round_ctx mkid s -> P s -> P (halt_after_execution s e mkid).
Proof. via keeps_halt_after. Qed.
Lemma F_halt_before : forall s e x, In e (s_events s) -> find_mkt (m_id (mk_m x)) (s_markets s) = Some x -> P s -> P (halt_before_step s e x).
Proof. via keeps_halt_before. Qed.
Lemma F_shock : forall s e x, find_mkt (m_id (mk_m x)) (s_markets s) = Some x -> P s -> P (shock_before_step s e x).
Proof. via keeps_shock. Qed.
End Frame.

(* Everything a step does before the clock update - the before-step hooks (trading halt resume, fundamental shock),
   consulting agents, accepting orders and cancels, every round of matching and all their hooks and callbacks, the
   after-step hooks - leaves every market's id and time as they were. *)
Lemma keeps_step_begin s mkid0 : keeps s (step_begin s mkid0).
Proof. apply (step_begin_pres (keeps s) (F_emit s) (F_step s) (F_halt_before s) (F_shock s)). apply keeps_refl. Qed.

Lemma keeps_step_end s mkid0 : keeps s (step_end s mkid0).
Proof. apply (step_end_pres (keeps s) (F_emit s) (F_step s) (F_halt_before s) (F_shock s)). apply keeps_refl. Qed.

Lemma keeps_update_markets s : keeps s (update_markets s).
Proof.
  apply (update_markets_pres (keeps s) (F_fail s) (F_emit s) (F_callback s) (F_accept_order s) (F_accept_cancel s) (F_round s) (F_fills s)
           (F_pop_perm s) (F_pop_draw s) (F_consult s) (F_spent s) (F_halt_after s)).
  apply keeps_refl.
Qed.

Lemma keeps_fire_simple s k before t mkid0 extra : keeps s (fire_simple s k before t mkid0 extra).
Proof. apply (fire_simple_pres (keeps s) (F_emit s)). apply keeps_refl. Qed.

Lemma keeps_fold {A} (f : sim -> A -> sim) (l : list A) : (forall s x, keeps s (f s x)) -> forall s, keeps s (fold_left f l s).
Proof. intros H. induction l as [|a r IH]; simpl; intros s; [apply keeps_refl|]. eapply keeps_trans; [apply H|apply IH]. Qed.

(* ---------------- the clock update: every market moves by exactly one ---------------- *)
Lemma NoDup_map_inj_in {A B} (f : A -> B) l x y : NoDup (map f l) -> In x l -> In y l -> f x = f y -> x = y.
Proof.
  induction l as [|a r IH]; simpl; intros N Hx Hy E; [tauto|]. inversion N as [|? ? Hn Nr]; subst.
  destruct Hx as [->|Hx], Hy as [->|Hy]; auto.
  - exfalso. apply Hn. rewrite E. apply in_map; auto.
  - exfalso. apply Hn. rewrite <- E. apply in_map; auto.
Qed.

Lemma NoDup_map_filter {A B} (f : A -> B) (g : A -> bool) l : NoDup (map f l) -> NoDup (map f (filter g l)).
Proof.
  induction l as [|a r IH]; simpl; intros N; auto. inversion N as [|? ? Hn Nr]; subst.
  destruct (g a); simpl; auto. constructor; auto. intros Hi. apply Hn.
  apply in_map_iff in Hi. destruct Hi as [z [Ez Hz]]. apply filter_In in Hz. rewrite <- Ez. apply in_map. tauto.
Qed.

Lemma find_mkt_none i l : find_mkt i l = None -> ~ In i (map mkid l).
Proof.
  induction l as [|y r IH]; simpl; intros H; [tauto|]. destruct (m_id (mk_m y) =? i) eqn:E; [discriminate|].
  apply Z.eqb_neq in E. intros [A|A]; [apply E; exact A|apply IH; auto].
Qed.

Lemma keys_ids s : map fst (keys s) = map mkid (s_markets s).
Proof. unfold keys. rewrite map_map. reflexivity. Qed.
Lemma skels_ids s : map fst (skels s) = map mkid (s_markets s).
Proof. unfold skels. rewrite map_map. reflexivity. Qed.

(* replacing the market found under id i by one at the next time: exactly that entry of the key list moves *)
Lemma upd_mkt_bump i f l y :
  NoDup (map mkid l) -> find_mkt i l = Some y -> key (f y) = (i, mtime y + 1) ->
  forall j v, In (j, v) (map key (upd_mkt i f l)) ->
    (j = i -> In (j, v - 1) (map key l)) /\ (j <> i -> In (j, v) (map key l)).
Proof.
  induction l as [|z r IH]; simpl; intros N Fy Hk j v Hin; [discriminate|].
  inversion N as [|? ? Hn Nr]; subst.
  destruct (m_id (mk_m z) =? i) eqn:E.
  - inversion Fy; subst z. apply Z.eqb_eq in E. simpl in Hin. destruct Hin as [Hh|Ht].
    + rewrite Hk in Hh. inversion Hh; subst. split; [intros _; left; unfold key, mkid; f_equal; lia|intros C; congruence].
    + assert (j <> i).
      { intros ->. apply Hn. fold (mkid y). unfold mkid at 1. rewrite E.
        apply in_map_iff in Ht. destruct Ht as [w [Ew Hw]]. apply in_map_iff. exists w. split; auto. unfold key in Ew. congruence. }
      split; [tauto|intros _; right; exact Ht].
  - apply Z.eqb_neq in E. simpl in Hin. destruct Hin as [Hh|Ht].
    + unfold key in Hh. inversion Hh; subst. split; [intros C; exfalso; apply E; exact C|intros _; left; reflexivity].
    + destruct (IH Nr Fy Hk j v Ht) as [A B]. split; intros C; right; auto.
Qed.

Lemma ok_tick_market s x : ok (tick_market s x) = true -> ok s = true.
Proof. unfold tick_market. destruct (ok s) eqn:E; auto. simpl. intros H. congruence. Qed.

Lemma tick_market_effect s x :
  NoDup (map fst (keys s)) ->
  map fst (keys (tick_market s x)) = map fst (keys s) /\ skels (tick_market s x) = skels s /\
  (ok (tick_market s x) = true ->
     forall i v, In (i, v) (keys (tick_market s x)) ->
       (i = mkid x -> In (i, v - 1) (keys s)) /\ (i <> mkid x -> In (i, v) (keys s))).
Proof.
  intros N. unfold tick_market. destruct (negb (ok s)) eqn:Oks.
  { split; [reflexivity|split; [reflexivity|]]. intros C. apply negb_true_iff in Oks. congruence. }
  destruct (find_mkt (m_id (mk_m x)) (s_markets s)) as [y|] eqn:Fy.
  2:{ split; [reflexivity|split; [reflexivity|]]. intros _ i v Hin. split; auto. intros ->.
      exfalso. apply (find_mkt_none _ _ Fy). fold (mkid x). rewrite <- keys_ids. apply in_map_iff. exists (mkid x, v). auto. }
  match goal with |- context [match ?fv with Some _ => _ | None => _ end] => destruct fv as [f|] end.
  2:{ split; [unfold keys; destruct (fail_fields s EIndex) as [_ [_ [_ [-> _]]]]; reflexivity|].
      split; [unfold skels; destruct (fail_fields s EIndex) as [_ [_ [_ [-> _]]]]; reflexivity|].
      intros C. exfalso. unfold fail, ok in C. apply negb_false_iff in Oks. unfold ok in Oks. destruct (s_err s); [discriminate|]. cbn in C. discriminate. }
  destruct (tick (mk_m y) f) as [m' recs] eqn:Et.
  assert (Hid : m_id m' = m_id (mk_m y)) by (pose proof (tick_id (mk_m y) f) as T; rewrite Et in T; exact T).
  assert (Htm : m_time m' = m_time (mk_m y) + 1) by (pose proof (tick_time (mk_m y) f) as T; rewrite Et in T; exact T).
  pose proof (find_mkt_id _ _ _ Fy) as Ey. rewrite Ey in Hid |- *.
  unfold do_tick.
  unfold skels, keys in *.
  assert (Mk : s_markets (fold_left (fun s r => log_event s r []) recs (set_market s (m_id (mk_m x)) m')) =
               s_markets (set_market s (m_id (mk_m x)) m')).
  { clear. generalize (set_market s (m_id (mk_m x)) m'). induction recs as [|r rest IH]; simpl; intros s0; auto. rewrite IH. reflexivity. }
  rewrite Mk. unfold set_market. cbn [s_markets set eta_sim]. cbn.
  split; [|split].
  - rewrite !map_map. apply (upd_mkt_map (fun z => fst (key z))). intros z Fz. rewrite Fy in Fz. inversion Fz; subst z.
    unfold key, mkid. cbn. congruence.
  - apply (upd_mkt_map skel). intros z Fz. rewrite Fy in Fz. inversion Fz; subst z. unfold skel, mkid, is_index. cbn. f_equal. congruence.
  - intros _ i v Hin.
    apply (upd_mkt_bump (m_id (mk_m x)) (fun z => z <| mk_m := m' |>) (s_markets s) y); auto.
    + rewrite map_map in N. exact N.
    + unfold key, mkid, mtime. cbn. rewrite Hid, Htm. reflexivity.
Qed.

Lemma ok_tick_fold L : forall s, ok (fold_left tick_market L s) = true -> ok s = true.
Proof. induction L as [|x r IH]; simpl; intros s H; auto. apply ok_tick_market with x. apply IH. exact H. Qed.

Lemma tick_fold_effect L : forall s,
  NoDup (map mkid L) -> NoDup (map fst (keys s)) ->
  map fst (keys (fold_left tick_market L s)) = map fst (keys s) /\ skels (fold_left tick_market L s) = skels s /\
  (ok (fold_left tick_market L s) = true ->
     forall i v, In (i, v) (keys (fold_left tick_market L s)) ->
       (In i (map mkid L) -> In (i, v - 1) (keys s)) /\ (~ In i (map mkid L) -> In (i, v) (keys s))).
Proof.
  induction L as [|x r IH]; simpl; intros s NL N.
  - split; [reflexivity|split; [reflexivity|]]. intros _ i v Hin. split; tauto.
  - inversion NL as [|? ? Hn Nr]; subst.
    destruct (tick_market_effect s x N) as [K1 [S1 E1]].
    assert (N1 : NoDup (map fst (keys (tick_market s x)))) by (rewrite K1; exact N).
    destruct (IH (tick_market s x) Nr N1) as [K2 [S2 E2]].
    split; [congruence|split; [congruence|]]. intros Hok i v Hin.
    specialize (E2 Hok i v Hin). destruct E2 as [A B].
    specialize (E1 (ok_tick_fold _ _ Hok)).
    split.
    + intros [Hx|Hr].
      * subst i. destruct (E1 _ _ (B Hn)) as [C _]. apply C. reflexivity.
      * assert (i <> mkid x) by (intros ->; tauto). destruct (E1 _ _ (A Hr)) as [_ C]. apply C; auto.
    + intros Hni. assert (i <> mkid x) by (intros ->; tauto). assert (~ In i (map mkid r)) by tauto.
      destruct (E1 _ _ (B H0)) as [_ C]. apply C; auto.
Qed.

(* THE CLOCK STEP: if every market reads t before Simulator._update_times_on_markets and the update does not fail,
   every market reads t + 1 after it - none skipped, none ticked twice (index markets included) *)
Theorem tick_all_clock t s : clock_inv t s -> clock_inv (t + 1) (tick_all s).
Proof.
  intros [N A]. unfold tick_all.
  set (L1 := filter (fun x => negb (is_index x)) (s_markets s)).
  set (s1 := fold_left tick_market L1 s).
  set (L2 := filter is_index (s_markets s1)).
  assert (NM : NoDup (map mkid (s_markets s))) by (rewrite <- keys_ids; exact N).
  assert (NL1 : NoDup (map mkid L1)) by (apply NoDup_map_filter; exact NM).
  destruct (tick_fold_effect L1 s NL1 N) as [K1 [S1 E1]]. fold s1 in K1, S1, E1.
  assert (N1 : NoDup (map fst (keys s1))) by (rewrite K1; exact N).
  assert (NL2 : NoDup (map mkid L2)) by (apply NoDup_map_filter; rewrite <- keys_ids; exact N1).
  destruct (tick_fold_effect L2 s1 NL2 N1) as [K2 [S2 E2]].
  split; [rewrite K2, K1; exact N|]. intros Hok i v Hin.
  pose proof (ok_tick_fold _ _ Hok) as Hok1. pose proof (ok_tick_fold _ _ Hok1) as Hok0.
  specialize (A Hok0). specialize (E1 Hok1). specialize (E2 Hok i v Hin). destruct E2 as [B2 C2].
  (* the market of s carrying id i *)
  assert (Hi : In i (map mkid (s_markets s))).
  { rewrite <- keys_ids, <- K1, <- K2. apply in_map_iff. exists (i, v). auto. }
  apply in_map_iff in Hi. destruct Hi as [x [Ex Hx]].
  assert (In2 : In i (map mkid L2) <-> is_index x = true).
  { split.
    - intros H. apply in_map_iff in H. destruct H as [y [Ey Hy]]. apply filter_In in Hy. destruct Hy as [Hy Iy].
      assert (Hs : In (i, true) (skels s)).
      { rewrite <- S1. unfold skels. apply in_map_iff. exists y. split; auto. unfold skel. congruence. }
      unfold skels in Hs. apply in_map_iff in Hs. destruct Hs as [x' [Ex' Hx']]. unfold skel in Ex'. inversion Ex'.
      assert (x' = x) by (apply (NoDup_map_inj_in mkid (s_markets s)); auto; congruence). subst x'. auto.
    - intros H. assert (Hs : In (i, true) (skels s1)).
      { rewrite S1. unfold skels. apply in_map_iff. exists x. split; auto. unfold skel. congruence. }
      unfold skels in Hs. apply in_map_iff in Hs. destruct Hs as [y [Ey Hy]]. unfold skel in Ey. inversion Ey.
      apply in_map_iff. exists y. split; auto. apply filter_In. auto. }
  assert (In1 : In i (map mkid L1) <-> is_index x = false).
  { split.
    - intros H. apply in_map_iff in H. destruct H as [y [Ey Hy]]. apply filter_In in Hy. destruct Hy as [Hy Iy].
      assert (y = x) by (apply (NoDup_map_inj_in mkid (s_markets s)); auto; congruence). subst y.
      apply negb_true_iff in Iy. exact Iy.
    - intros H. apply in_map_iff. exists x. split; auto. apply filter_In. split; auto. rewrite H. reflexivity. }
  destruct (is_index x) eqn:Ix.
  - assert (H2 : In i (map mkid L2)) by (apply In2; reflexivity).
    assert (H1 : ~ In i (map mkid L1)) by (intros C; apply In1 in C; discriminate).
    destruct (E1 _ _ (B2 H2)) as [_ D]. specialize (A _ _ (D H1)). lia.
  - assert (H2 : ~ In i (map mkid L2)) by (intros C; apply In2 in C; discriminate).
    assert (H1 : In i (map mkid L1)) by (apply In1; reflexivity).
    destruct (E1 _ _ (C2 H2)) as [D _]. specialize (A _ _ (D H1)). lia.
Qed.

(* ---------------- steps, sessions, the run ---------------- *)
Lemma keeps_mids_fold (f : sim -> Z -> sim) l s : (forall s x, keeps s (f s x)) -> keeps s (fold_left f l s).
Proof. intros H. apply keeps_fold. exact H. Qed.

(* ONE STEP = ONE TICK of every market *)
Theorem one_step_clock t s : clock_inv t s -> clock_inv (t + 1) (one_step s).
Proof.
  intros H. assert (W : forall s', keeps s s' -> ok s' = false -> clock_inv (t + 1) s').
  { intros s' K O. destruct (clock_inv_keeps t s s' K H) as [N _]. split; auto. intros C. congruence. }
  unfold one_step. destruct (ok s) eqn:O0; simpl; [|apply W; [apply keeps_refl|exact O0]].
  set (s1 := fold_left step_begin (mids s) s).
  assert (K1 : keeps s s1) by (apply keeps_fold; intros; apply keeps_step_begin).
  destruct (ok s1) eqn:O1; simpl; [|apply W; auto].
  set (s2 := match cur_sess s1 with Some se => if se_place se then update_markets s1 else s1 | None => fail s1 EOther end).
  assert (K2 : keeps s s2).
  { eapply keeps_trans; [exact K1|]. unfold s2. destruct (cur_sess s1) as [se|]; [|apply keeps_fail].
    destruct (se_place se); [apply keeps_update_markets|apply keeps_refl]. }
  destruct (ok s2) eqn:O2; simpl; [|apply W; auto].
  set (s3 := fold_left step_end (mids s2) s2).
  assert (K3 : keeps s s3) by (eapply keeps_trans; [exact K2|]; apply keeps_fold; intros; apply keeps_step_end).
  destruct (ok s3) eqn:O3; simpl; [|apply W; auto].
  apply tick_all_clock. eapply clock_inv_keeps; eauto.
Qed.

Theorem iterate_clock n : forall t s, clock_inv t s -> clock_inv (t + Z.of_nat n) (iterate n s).
Proof.
  induction n as [|k IH]; intros t s H.
  - simpl. replace (t + 0) with t by lia. exact H.
  - cbn [iterate]. replace (t + Z.of_nat (S k)) with ((t + 1) + Z.of_nat k) by lia. apply IH. apply one_step_clock. exact H.
Qed.

(* A SESSION SPANS EXACTLY ITS CONFIGURED NUMBER OF STEPS: entered with every market at t, it is left (unless the run
   failed) with every market at t + iteration_steps *)
Theorem run_session_clock t s se0 : 0 <= se_steps se0 -> clock_inv t s -> clock_inv (t + se_steps se0) (run_session s se0).
Proof.
  intros Hs H. assert (W : forall s', keeps s s' -> ok s' = false -> clock_inv (t + se_steps se0) s').
  { intros s' K O. destruct (clock_inv_keeps t s s' K H) as [N _]. split; auto. intros C. congruence. }
  unfold run_session. destruct (ok s) eqn:O0; simpl; [|apply W; [apply keeps_refl|exact O0]].
  set (sa := s <| s_cur := se_id se0 |>).
  assert (Ka : keeps s sa) by (apply keeps_same; reflexivity).
  set (s1 := fire_simple sa HSession true (se_start se0) (-1) [VZ (se_id se0); VZ (se_start se0)]).
  assert (K1 : keeps s s1) by (eapply keeps_trans; [exact Ka|apply keeps_fire_simple]).
  destruct (ok s1) eqn:O1; simpl; [|apply W; auto].
  set (s2 := begin_iteration (flush (write s1 (EvSessBegin (se_id se0) (clock s1))))).
  assert (K2 : keeps s s2).
  { eapply keeps_trans; [exact K1|]. eapply keeps_trans; [|apply keeps_begin_iteration]. apply keeps_same; reflexivity. }
  pose proof (iterate_clock (Z.to_nat (se_steps se0)) t s2 (clock_inv_keeps _ _ _ K2 H)) as H3.
  rewrite Z2Nat.id in H3 by exact Hs.
  set (s3 := iterate (Z.to_nat (se_steps se0)) s2) in *.
  destruct (ok s3) eqn:O3; simpl; [|exact H3].
  set (s4 := fire_simple s3 HSession false (se_start se0 + se_steps se0 - 1) (-1) [VZ (se_id se0); VZ (se_start se0 + se_steps se0 - 1)]).
  assert (H4 : clock_inv (t + se_steps se0) s4) by (eapply clock_inv_keeps; [apply keeps_fire_simple|exact H3]).
  destruct (ok s4) eqn:O4; simpl; [|exact H4].
  eapply clock_inv_keeps; [|exact H4]. apply keeps_same; reflexivity.
Qed.

(* sessions laid end to end from t *)
Fixpoint chained (t : Z) (ss : list sess) : Prop :=
  match ss with [] => True | se :: r => se_start se = t /\ 0 <= se_steps se /\ chained (t + se_steps se) r end.
Definition total_steps (ss : list sess) : Z := fold_right (fun se a => se_steps se + a) 0 ss.

Lemma mk_sessions_chained l : forall t, Forall (fun c => 0 <= sc_steps c) l -> chained t (mk_sessions l t).
Proof.
  induction l as [|c r IH]; simpl; intros t H; auto. inversion H; subst. repeat split; auto.
Qed.

(* EVERY SESSION STARTS WHERE THE PREVIOUS ONE ENDED: run from a state with every market at the first session's start,
   each session is entered with every market at that session's [se_start] (the time its hooks and triggers were computed
   from) and the run ends with every market at the sum of all iteration_steps *)
Inductive sessions_from : sim -> list sess -> sim -> Prop :=
| SF_nil s : sessions_from s [] s
| SF_cons s se r s' : clock_inv (se_start se) s -> sessions_from (run_session s se) r s' -> sessions_from s (se :: r) s'.

Theorem sessions_clock ss : forall t s, chained t ss -> clock_inv t s ->
  sessions_from s ss (fold_left run_session ss s) /\ clock_inv (t + total_steps ss) (fold_left run_session ss s).
Proof.
  induction ss as [|se r IH]; simpl; intros t s C H.
  - split; [constructor|]. unfold total_steps. simpl. replace (t + 0) with t by lia. exact H.
  - destruct C as [Es [Hs C]]. pose proof (run_session_clock t s se Hs H) as H1.
    destruct (IH _ _ C H1) as [A B]. split.
    + constructor; [rewrite Es; exact H|exact A].
    + unfold total_steps in *. simpl. replace (t + (se_steps se + fold_right (fun se a => se_steps se + a) 0 r))
        with (t + se_steps se + fold_right (fun se a => se_steps se + a) 0 r) by lia. exact B.
Qed.

Lemma init_clock c tape batches funds :
  NoDup (map mc_id (c_markets c)) -> clock_inv (-1) (init_sim c tape batches funds).
Proof.
  intros N. unfold clock_inv, all_at, keys, init_sim. cbn. rewrite !map_map. cbn. split; [exact N|].
  intros _ i v Hin. apply in_map_iff in Hin. destruct Hin as [m [E _]]. unfold key, mtime in E. cbn in E. congruence.
Qed.

(* THE WHOLE RUN, for every configuration with distinct market ids and non-negative session lengths, every tape of runner
   decisions, every agent behaviour and every fundamental path: the setup tick brings every market to time 0, the
   sessions follow one another without gap or overlap, and a run that does not fail ends with every market at the total
   number of configured steps. *)
Theorem run_clock c tape batches funds :
  NoDup (map mc_id (c_markets c)) -> Forall (fun sc => 0 <= sc_steps sc) (c_sessions c) ->
  clock_inv (total_steps (mk_sessions (c_sessions c) 0)) (run c tape batches funds).
Proof.
  intros N Hs. unfold run.
  set (s0 := init_sim c tape batches funds).
  assert (H0 : clock_inv (-1) (flush (write s0 EvSimBegin))).
  { refine (clock_inv_keeps _ _ _ _ (init_clock c tape batches funds N)). apply keeps_same; reflexivity. }
  pose proof (tick_all_clock _ _ H0) as H1. replace (-1 + 1) with 0 in H1 by lia.
  set (s1 := tick_all (flush (write s0 EvSimBegin))) in *.
  assert (Ess : s_sessions s1 = mk_sessions (c_sessions c) 0).
  { unfold s1, tick_all.
    assert (G : forall L s, s_sessions (fold_left tick_market L s) = s_sessions s).
    { induction L as [|x r IH]; simpl; intros s; auto. rewrite IH. unfold tick_market.
      destruct (negb (ok s)); auto. destruct (find_mkt _ _) as [y|]; auto.
      match goal with |- context [match ?fv with Some _ => _ | None => _ end] => destruct fv as [f|] end.
      - destruct (tick (mk_m y) f) as [m' recs]. unfold do_tick.
        destruct (log_events_fields recs (set_market s (m_id (mk_m y)) m')) as [-> _]. reflexivity.
      - destruct (fail_fields s EIndex) as [_ [_ [_ [_ [-> _]]]]]. reflexivity. }
    rewrite !G. reflexivity. }
  rewrite Ess.
  destruct (sessions_clock (mk_sessions (c_sessions c) 0) 0 s1 (mk_sessions_chained _ 0 Hs) H1) as [_ H2].
  simpl in H2. destruct (ok (fold_left run_session (mk_sessions (c_sessions c) 0) s1)) eqn:O; simpl; [|exact H2].
  refine (clock_inv_keeps _ _ _ _ H2). apply keeps_same; reflexivity.
Qed.

Theorem run_sessions_chain c tape batches funds :
  NoDup (map mc_id (c_markets c)) -> Forall (fun sc => 0 <= sc_steps sc) (c_sessions c) ->
  let s1 := tick_all (flush (write (init_sim c tape batches funds) EvSimBegin)) in
  sessions_from s1 (s_sessions s1) (fold_left run_session (s_sessions s1) s1).
Proof.
  intros N Hs s1.
  assert (H1 : clock_inv 0 s1).
  { unfold s1. replace 0 with (-1 + 1) by lia. apply tick_all_clock.
    refine (clock_inv_keeps _ _ _ _ (init_clock c tape batches funds N)). apply keeps_same; reflexivity. }
  assert (Ess : s_sessions s1 = mk_sessions (c_sessions c) 0).
  { unfold s1, tick_all.
    assert (G : forall L s, s_sessions (fold_left tick_market L s) = s_sessions s).
    { induction L as [|x r IH]; simpl; intros s; auto. rewrite IH. unfold tick_market.
      destruct (negb (ok s)); auto. destruct (find_mkt _ _) as [y|]; auto.
      match goal with |- context [match ?fv with Some _ => _ | None => _ end] => destruct fv as [f|] end.
      - destruct (tick (mk_m y) f) as [m' recs]. unfold do_tick.
        destruct (log_events_fields recs (set_market s (m_id (mk_m y)) m')) as [-> _]. reflexivity.
      - destruct (fail_fields s EIndex) as [_ [_ [_ [_ [-> _]]]]]. reflexivity. }
    rewrite !G. reflexivity. }
  rewrite Ess. destruct (sessions_clock _ 0 s1 (mk_sessions_chained _ 0 Hs) H1) as [A _]. exact A.
Qed.

(* non-vacuity: two markets (one an index), two sessions of 2 and 3 steps, nobody trades: the run ends at time 5 *)
Example clock_example :
  let c := mkCfg [mkMC 0 (1#1) (300#1) None 1; mkMC 1 (1#1) (300#1) (Some [0]) 1] []
                 [mkSC 0 2 false false 1 1 (0#1); mkSC 1 3 false false 1 1 (0#1)] [] in
  let funds := flat_map (fun t => [(0, t, 300#1)]) [0;1;2;3;4;5] in
  let s := run c [] [] funds in
  ok s = true /\ map snd (keys s) = [5; 5].
Proof. vm_compute. split; reflexivity. Qed.
