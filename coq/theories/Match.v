(* The matching walk of Market._execution (pams/market.py, the `while True` loop and the price
   choice) over an abstract price type with a decidable strict weak order.  The engine only
   compares and copies prices, so everything proved here holds for exact rationals (the
   instance used by the executable model) and, verbatim, for finite IEEE doubles. *)
From Coq Require Import ZArith List Bool Lia Sorted.
Import ListNotations.
Open Scope Z_scope.

Section Walk.
Variable P : Type.
Variable plt : P -> P -> bool.
Variable peq : P -> P -> bool.
Hypothesis plt_irrefl : forall a, plt a a = false.
Hypothesis plt_trans : forall a b c, plt a b = true -> plt b c = true -> plt a c = true.
Hypothesis peq_spec : forall a b, peq a b = true <-> (plt a b = false /\ plt b a = false).
Hypothesis peq_lt_l : forall a b c, peq a b = true -> plt b c = true -> plt a c = true.
Hypothesis peq_lt_r : forall a b c, peq b c = true -> plt a b = true -> plt a c = true.

Definition ple a b := negb (plt b a).

Record order := mkO { oid: Z; agent: Z; mkt: Z; isbuy: bool; price: option P; vol: Z; placed: Z; ttl: option Z }.

Definition time_lt (a b: order) : bool :=
  if placed a =? placed b then oid a <? oid b else placed a <? placed b.

Definition olt (a b: order) : bool :=
  match price a, price b with
  | None, None => time_lt a b
  | None, Some _ => true
  | Some _, None => false
  | Some pa, Some pb =>
      if peq pa pb then time_lt a b
      else if isbuy a then plt pb pa else plt pa pb
  end.

Inductive fill := Fill (v: Z) (b s: order).
Definition fbuy f := match f with Fill _ b _ => b end.
Definition fsell f := match f with Fill _ _ s => s end.

Definition choose_price (b s: order) (old: option P) : option P :=
  match price b, price s with
  | None, None => old
  | Some pb, None => Some pb
  | None, Some ps => Some ps
  | Some pb, Some ps =>
     if placed b =? placed s then (if oid b <? oid s then Some pb else Some ps)
     else if placed b <? placed s then Some pb else Some ps
  end.

Definition need_pop (c: option (order*Z)) : bool := match c with None => true | Some (_, r) => r =? 0 end.
Definition refill (c: option (order*Z)) (l: list order) : option (order*Z) * list order :=
  if need_pop c then match l with [] => (None, []) | x :: r => (Some (x, vol x), r) end else (c, l).
Definition crossing (b s: order) : bool :=
  match price b, price s with Some pb, Some ps => negb (plt pb ps) | _, _ => true end.

Fixpoint walk (fuel: nat) (cb cs: option (order*Z)) (bs ss: list order)
         (p: option P) (acc: list fill) : option P * list fill :=
  match fuel with
  | O => (p, acc)
  | S f =>
    let '(cb', bs') := refill cb bs in
    match cb' with
    | None => (p, acc)
    | Some (b, bt) =>
      let '(cs', ss') := refill cs ss in
      match cs' with
      | None => (p, acc)
      | Some (s, st) =>
        if crossing b s then
            let v := Z.min bt st in
            walk f (Some (b, bt - v)) (Some (s, st - v)) bs' ss' (choose_price b s p) (acc ++ [Fill v b s])
        else (p, acc)
      end
    end
  end.

(* buy-side "at least as aggressive": None (market) above everything *)
Definition bge (x y: option P) : Prop :=
  match x, y with None, _ => True | Some _, None => False | Some a, Some b => ple b a = true end.
(* sell-side: None below everything *)
Definition sle (x y: option P) : Prop :=
  match x, y with None, _ => True | Some _, None => False | Some a, Some b => ple a b = true end.

Lemma ple_refl a : ple a a = true. Proof. unfold ple; now rewrite plt_irrefl. Qed.
Lemma plt_ple a b : plt a b = true -> ple a b = true.
Proof. unfold ple. intros H. destruct (plt b a) eqn:E; auto. pose proof (plt_trans _ _ _ H E). now rewrite plt_irrefl in H0. Qed.
Lemma ple_trans a b c : ple a b = true -> ple b c = true -> ple a c = true.
Proof.
  unfold ple. intros H1 H2. apply negb_true_iff in H1, H2. apply negb_true_iff.
  destruct (plt c a) eqn:E; auto.
  (* c<a, not b<a, not c<b.  if a<b then c<b contra. else a~b so c<b by peq *)
  destruct (plt a b) eqn:E2.
  - pose proof (plt_trans _ _ _ E E2). congruence.
  - assert (peq a b = true) by (apply peq_spec; auto).
    pose proof (peq_lt_r c a b H E). congruence.
Qed.
Lemma bge_refl x : bge x x. Proof. destruct x; simpl; auto using ple_refl. Qed.
Lemma bge_trans x y z : bge x y -> bge y z -> bge x z.
Proof. destruct x, y, z; simpl; auto; try tauto. intros; eapply ple_trans; eauto. Qed.
Lemma sle_refl x : sle x x. Proof. destruct x; simpl; auto using ple_refl. Qed.
Lemma sle_trans x y z : sle x y -> sle y z -> sle x z.
Proof. destruct x, y, z; simpl; auto; try tauto. intros; eapply ple_trans; eauto. Qed.

Lemma olt_bge a b : isbuy a = true -> olt a b = true -> bge (price a) (price b).
Proof.
  unfold olt, bge. intros Hb. destruct (price a), (price b); auto; try discriminate.
  rewrite Hb. destruct (peq p p0) eqn:E.
  - intros _. apply peq_spec in E. unfold ple. destruct E as [E1 E2]. now rewrite E1.
  - apply plt_ple.
Qed.
Lemma olt_sle a b : isbuy a = false -> olt a b = true -> sle (price a) (price b).
Proof.
  unfold olt, sle. intros Hb. destruct (price a), (price b); auto; try discriminate.
  rewrite Hb. destruct (peq p p0) eqn:E.
  - intros _. apply peq_spec in E. unfold ple. destruct E as [E1 E2]. now rewrite E2.
  - apply plt_ple.
Qed.

(* books: all buys / all sells, head has priority over everything behind (StronglySorted olt) *)
Definition bbook (l: list order) := StronglySorted (fun a b => olt a b = true) l /\ Forall (fun o => isbuy o = true) l.
Definition sbook (l: list order) := StronglySorted (fun a b => olt a b = true) l /\ Forall (fun o => isbuy o = false) l.

(* the price-bound predicate for a final price p *)
Definition within (p: P) (f: fill) : Prop :=
  (forall pb, price (fbuy f) = Some pb -> ple p pb = true) /\
  (forall ps, price (fsell f) = Some ps -> ple ps p = true).

(* Invariant on accumulated fills relative to "current frontier" (xb, xs): every fill so far has
   buy limit bge xb and sell limit sle xs *)
Definition acc_ok (acc: list fill) (xb xs: option P) : Prop :=
  Forall (fun f => bge (price (fbuy f)) xb /\ sle (price (fsell f)) xs) acc.

(* price_ok p xb xs: the running price (if set) lies between frontier sell and frontier buy;
   if it is not set, every fill so far is market/market *)
Definition price_ok (p: option P) (acc: list fill) (xb xs: option P) : Prop :=
  match p with
  | Some q => (forall pb, xb = Some pb -> ple q pb = true) /\ (forall ps, xs = Some ps -> ple ps q = true)
  | None => Forall (fun f => price (fbuy f) = None /\ price (fsell f) = None) acc
  end.

Definition final_ok (res: option P * list fill) : Prop :=
  match fst res with
  | Some q => Forall (within q) (snd res)
  | None => Forall (fun f => price (fbuy f) = None /\ price (fsell f) = None) (snd res)
  end.

Lemma within_from_frontier q f xb xs :
  bge (price (fbuy f)) xb -> sle (price (fsell f)) xs ->
  (forall pb, xb = Some pb -> ple q pb = true) -> (forall ps, xs = Some ps -> ple ps q = true) ->
  (* frontier None on buy side means all fills' buys are market: fine. *)
  within q f.
Proof.
  intros Hb Hs Hq1 Hq2. split.
  - intros pb E. rewrite E in Hb. destruct xb as [xb'|]; simpl in Hb; [|tauto].
    eapply ple_trans; [apply Hq1; reflexivity| exact Hb].
  - intros ps E. rewrite E in Hs. destruct xs as [xs'|]; simpl in Hs; [|tauto].
    eapply ple_trans; [exact Hs | apply Hq2; reflexivity].
Qed.


Definition front (c: option (order*Z)) (l: list order) : list order :=
  match c with Some (b, r) => if r =? 0 then l else b :: l | None => l end.

Definition mm (f: fill) := price (fbuy f) = None /\ price (fsell f) = None.
Definition res_ok (p: option P) (acc: list fill) : Prop :=
  match p with Some q => Forall (within q) acc | None => Forall mm acc end.

Definition mono (acc: list fill) (fb fs: list order) : Prop :=
  Forall (fun f => (forall b', In b' fb -> bge (price (fbuy f)) (price b')) /\
                   (forall s', In s' fs -> sle (price (fsell f)) (price s'))) acc.

Lemma refill_front c l c' l' : refill c l = (c', l') ->
  front c l = match c' with Some (x, _) => x :: l' | None => [] end
  \/ (c' = None /\ front c l = []).
Proof.
  unfold refill, front, need_pop. destruct c as [[b r]|].
  - destruct (r =? 0) eqn:E.
    + destruct l; intros H; inversion H; subst; auto.
    + intros H; inversion H; subst. left. reflexivity.
  - destruct l; intros H; inversion H; subst; auto.
Qed.

Lemma refill_front_some c l x r l' : refill c l = (Some (x, r), l') -> front c l = x :: l'.
Proof. intros H. destruct (refill_front _ _ _ _ H) as [E|[E _]]; [exact E|discriminate]. Qed.

Lemma bbook_head_bge x l b' : bbook (x :: l) -> In b' (x :: l) -> bge (price x) (price b').
Proof.
  intros [Hs Hb] Hin. destruct Hin as [<-|Hin]; [apply bge_refl|].
  inversion Hs; subst. inversion Hb; subst. apply olt_bge; auto.
  rewrite Forall_forall in H2. auto.
Qed.
Lemma sbook_head_sle x l s' : sbook (x :: l) -> In s' (x :: l) -> sle (price x) (price s').
Proof.
  intros [Hs Hb] Hin. destruct Hin as [<-|Hin]; [apply sle_refl|].
  inversion Hs; subst. inversion Hb; subst. apply olt_sle; auto.
  rewrite Forall_forall in H2. auto.
Qed.
Lemma bbook_tail x l : bbook (x :: l) -> bbook l.
Proof. intros [Hs Hb]. inversion Hs; inversion Hb; subst. split; auto. Qed.
Lemma sbook_tail x l : sbook (x :: l) -> sbook l.
Proof. intros [Hs Hb]. inversion Hs; inversion Hb; subst. split; auto. Qed.

Lemma front_after b r l : incl (front (Some (b, r)) l) (b :: l).
Proof. unfold front. destruct (r =? 0); intros x Hx; simpl; auto. Qed.
Lemma bbook_front_after b r l : bbook (b :: l) -> bbook (front (Some (b, r)) l).
Proof. unfold front. destruct (r =? 0); auto. apply bbook_tail. Qed.
Lemma sbook_front_after b r l : sbook (b :: l) -> sbook (front (Some (b, r)) l).
Proof. unfold front. destruct (r =? 0); auto. apply sbook_tail. Qed.

Lemma choose_price_between b s p q :
  crossing b s = true -> choose_price b s p = Some q ->
  (price b = None /\ price s = None /\ p = Some q) \/
  ((forall pb, price b = Some pb -> ple q pb = true) /\ (forall ps, price s = Some ps -> ple ps q = true)
   /\ (price b <> None \/ price s <> None)).
Proof.
  unfold crossing, choose_price. destruct (price b) as [pb|], (price s) as [ps|]; intros Hc Hq.
  - right. assert (Hle: ple ps pb = true) by exact Hc.
    assert (q = pb \/ q = ps) as [->| ->].
    { destruct (placed b =? placed s); [destruct (oid b <? oid s)|destruct (placed b <? placed s)]; inversion Hq; auto. }
    + repeat split; try (intros ? E; inversion E; subst; auto using ple_refl). left; discriminate.
    + repeat split; try (intros ? E; inversion E; subst; auto using ple_refl). left; discriminate.
  - right. inversion Hq; subst. repeat split; try (intros ? E; inversion E; subst; auto using ple_refl). left; discriminate.
  - right. inversion Hq; subst. repeat split; try (intros ? E; inversion E; subst; auto using ple_refl). right; discriminate.
  - left. auto.
Qed.

Lemma walk_ok fuel : forall cb cs bs ss p acc,
  bbook (front cb bs) -> sbook (front cs ss) ->
  mono acc (front cb bs) (front cs ss) -> res_ok p acc ->
  let r := walk fuel cb cs bs ss p acc in res_ok (fst r) (snd r).
Proof.
  induction fuel as [|f IH]; intros cb cs bs ss p acc HB HS HM HR; simpl; [exact HR|].
  destruct (refill cb bs) as [cb' bs'] eqn:Eb.
  destruct cb' as [[b bt]|]; [|exact HR].
  destruct (refill cs ss) as [cs' ss'] eqn:Es.
  destruct cs' as [[s st]|]; [|exact HR].
  destruct (crossing b s) eqn:Ec; [|exact HR].
  pose proof (refill_front_some _ _ _ _ _ Eb) as Fb.
  pose proof (refill_front_some _ _ _ _ _ Es) as Fs.
  rewrite Fb in HB, HM. rewrite Fs in HS, HM.
  apply IH.
  - now apply bbook_front_after.
  - now apply sbook_front_after.
  - unfold mono. apply Forall_app. split.
    + unfold mono in HM. eapply Forall_impl; [|exact HM]. intros x [H1 H2]. split; intros y Hy.
      * apply H1. eapply front_after; eauto.
      * apply H2. eapply front_after; eauto.
    + constructor; [|constructor]. simpl. split; intros y Hy.
      * eapply bbook_head_bge; eauto. eapply front_after; eauto.
      * eapply sbook_head_sle; eauto. eapply front_after; eauto.
  - (* result predicate re-established *)
    unfold res_ok. destruct (choose_price b s p) as [q|] eqn:Eq.
    + destruct (choose_price_between _ _ _ _ Ec Eq) as [[Nb [Ns Ep]]|[Hq1 [Hq2 _]]].
      * subst p. simpl in HR. apply Forall_app; split; auto. constructor; auto.
        split; simpl; intros ? E; congruence.
      * apply Forall_app; split.
        -- unfold mono in HM. eapply Forall_impl; [|exact HM]. intros x [H1 H2].
           eapply within_from_frontier with (xb := price b) (xs := price s); auto.
           ++ apply H1. left; auto.
           ++ apply H2. left; auto.
        -- constructor; auto. split; simpl; auto.
    + (* price stays None: b, s both market and p = None *)
      unfold choose_price in Eq. destruct (price b) eqn:Pb, (price s) eqn:Ps; try discriminate.
      * destruct (placed b =? placed s); [destruct (oid b <? oid s)|destruct (placed b <? placed s)]; discriminate.
      * subst p. simpl in HR. apply Forall_app; split; auto. constructor; auto. split; simpl; auto.
Qed.

Theorem walk_price_within_limits fuel bs ss :
  bbook bs -> sbook ss ->
  let r := walk fuel None None bs ss None [] in
  match fst r with
  | Some q => Forall (within q) (snd r)
  | None => Forall mm (snd r)
  end.
Proof.
  intros HB HS. apply (walk_ok fuel None None bs ss None []); simpl; auto; constructor.
Qed.

End Walk.



Arguments mkO {P} _ _ _ _ _ _ _ _.
Arguments oid {P} _.
Arguments agent {P} _.
Arguments mkt {P} _.
Arguments isbuy {P} _.
Arguments price {P} _.
Arguments vol {P} _.
Arguments placed {P} _.
Arguments ttl {P} _.
Arguments Fill {P} _ _ _.
Arguments fbuy {P} _.
Arguments fsell {P} _.
Arguments time_lt {P} _ _.
Arguments choose_price {P} _ _ _.
Arguments need_pop {P} _.
Arguments refill {P} _ _.
