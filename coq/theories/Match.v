(* The matching walk of Market._execution (pams/market.py, the `while True` loop and the price
   choice) over an abstract price type with a decidable strict weak order.  The engine only
   compares and copies prices, so everything proved here holds for exact rationals (the
   instance used by the executable model) and, verbatim, for finite IEEE doubles. *)
From Coq Require Import ZArith List Bool Lia Sorted.
Import ListNotations.
Open Scope Z_scope.

Section Walk.
Variable P : Type.
Variable plt : P -> P -> bool.
Variable peq : P -> P -> bool.
Hypothesis plt_irrefl : forall a, plt a a = false.
Hypothesis plt_trans : forall a b c, plt a b = true -> plt b c = true -> plt a c = true.
Hypothesis peq_spec : forall a b, peq a b = true <-> (plt a b = false /\ plt b a = false).
Hypothesis peq_lt_l : forall a b c, peq a b = true -> plt b c = true -> plt a c = true.
Hypothesis peq_lt_r : forall a b c, peq b c = true -> plt a b = true -> plt a c = true.

Definition ple a b := negb (plt b a).

Record order := mkO { oid: Z; agent: Z; mkt: Z; isbuy: bool; price: option P; vol: Z; placed: Z; ttl: option Z }.

Definition time_lt (a b: order) : bool :=
  if placed a =? placed b then oid a <? oid b else placed a <? placed b.

Definition olt (a b: order) : bool :=
  match price a, price b with
  | None, None => time_lt a b
  | None, Some _ => true
  | Some _, None => false
  | Some pa, Some pb =>
      if peq pa pb then time_lt a b
      else if isbuy a then plt pb pa else plt pa pb
  end.

Inductive fill := Fill (v: Z) (b s: order).
Definition fbuy f := match f with Fill _ b _ => b end.
Definition fsell f := match f with Fill _ _ s => s end.

Definition choose_price (b s: order) (old: option P) : option P :=
  match price b, price s with
  | None, None => old
  | Some pb, None => Some pb
  | None, Some ps => Some ps
  | Some pb, Some ps =>
     if placed b =? placed s then (if oid b <? oid s then Some pb else Some ps)
     else if placed b <? placed s then Some pb else Some ps
  end.

Definition need_pop (c: option (order*Z)) : bool := match c with None => true | Some (_, r) => r =? 0 end.
Definition refill (c: option (order*Z)) (l: list order) : option (order*Z) * list order :=
  if need_pop c then match l with [] => (None, []) | x :: r => (Some (x, vol x), r) end else (c, l).
Definition crossing (b s: order) : bool :=
  match price b, price s with Some pb, Some ps => negb (plt pb ps) | _, _ => true end.

Fixpoint walk (fuel: nat) (cb cs: option (order*Z)) (bs ss: list order)
         (p: option P) (acc: list fill) : option P * list fill :=
  match fuel with
  | O => (p, acc)
  | S f =>
    let '(cb', bs') := refill cb bs in
    match cb' with
    | None => (p, acc)
    | Some (b, bt) =>
      let '(cs', ss') := refill cs ss in
      match cs' with
      | None => (p, acc)
      | Some (s, st) =>
        if crossing b s then
            let v := Z.min bt st in
            walk f (Some (b, bt - v)) (Some (s, st - v)) bs' ss' (choose_price b s p) (acc ++ [Fill v b s])
        else (p, acc)
      end
    end
  end.

(* buy-side "at least as aggressive": None (market) above everything *)
Definition bge (x y: option P) : Prop :=
  match x, y with None, _ => True | Some _, None => False | Some a, Some b => ple b a = true end.
(* sell-side: None below everything *)
Definition sle (x y: option P) : Prop :=
  match x, y with None, _ => True | Some _, None => False | Some a, Some b => ple a b = true end.

Lemma ple_refl a : ple a a = true. Proof. unfold ple; now rewrite plt_irrefl. Qed.
Lemma plt_ple a b : plt a b = true -> ple a b = true.
Proof. unfold ple. intros H. destruct (plt b a) eqn:E; auto. pose proof (plt_trans _ _ _ H E). now rewrite plt_irrefl in H0. Qed.
Lemma ple_trans a b c : ple a b = true -> ple b c = true -> ple a c = true.
Proof.
  unfold ple. intros H1 H2. apply negb_true_iff in H1, H2. apply negb_true_iff.
  destruct (plt c a) eqn:E; auto.
  (* c<a, not b<a, not c<b.  if a<b then c<b contra. else a~b so c<b by peq *)
  destruct (plt a b) eqn:E2.
  - pose proof (plt_trans _ _ _ E E2). congruence.
  - assert (peq a b = true) by (apply peq_spec; auto).
    pose proof (peq_lt_r c a b H E). congruence.
Qed.
Lemma bge_refl x : bge x x. Proof. destruct x; simpl; auto using ple_refl. Qed.
Lemma bge_trans x y z : bge x y -> bge y z -> bge x z.
Proof. destruct x, y, z; simpl; auto; try tauto. intros; eapply ple_trans; eauto. Qed.
Lemma sle_refl x : sle x x. Proof. destruct x; simpl; auto using ple_refl. Qed.
Lemma sle_trans x y z : sle x y -> sle y z -> sle x z.
Proof. destruct x, y, z; simpl; auto; try tauto. intros; eapply ple_trans; eauto. Qed.

Lemma olt_bge a b : isbuy a = true -> olt a b = true -> bge (price a) (price b).
Proof.
  unfold olt, bge. intros Hb. destruct (price a), (price b); auto; try discriminate.
  rewrite Hb. destruct (peq p p0) eqn:E.
  - intros _. apply peq_spec in E. unfold ple. destruct E as [E1 E2]. now rewrite E1.
  - apply plt_ple.
Qed.
Lemma olt_sle a b : isbuy a = false -> olt a b = true -> sle (price a) (price b).
Proof.
  unfold olt, sle. intros Hb. destruct (price a), (price b); auto; try discriminate.
  rewrite Hb. destruct (peq p p0) eqn:E.
  - intros _. apply peq_spec in E. unfold ple. destruct E as [E1 E2]. now rewrite E2.
  - apply plt_ple.
Qed.

(* books: all buys / all sells, head has priority over everything behind (StronglySorted olt) *)
Definition bbook (l: list order) := StronglySorted (fun a b => olt a b = true) l /\ Forall (fun o => isbuy o = true) l.
Definition sbook (l: list order) := StronglySorted (fun a b => olt a b = true) l /\ Forall (fun o => isbuy o = false) l.

(* the price-bound predicate for a final price p *)
Definition within (p: P) (f: fill) : Prop :=
  (forall pb, price (fbuy f) = Some pb -> ple p pb = true) /\
  (forall ps, price (fsell f) = Some ps -> ple ps p = true).

(* Invariant on accumulated fills relative to "current frontier" (xb, xs): every fill so far has
   buy limit bge xb and sell limit sle xs *)
Definition acc_ok (acc: list fill) (xb xs: option P) : Prop :=
  Forall (fun f => bge (price (fbuy f)) xb /\ sle (price (fsell f)) xs) acc.

(* price_ok p xb xs: the running price (if set) lies between frontier sell and frontier buy;
   if it is not set, every fill so far is market/market *)
Definition price_ok (p: option P) (acc: list fill) (xb xs: option P) : Prop :=
  match p with
  | Some q => (forall pb, xb = Some pb -> ple q pb = true) /\ (forall ps, xs = Some ps -> ple ps q = true)
  | None => Forall (fun f => price (fbuy f) = None /\ price (fsell f) = None) acc
  end.

Definition final_ok (res: option P * list fill) : Prop :=
  match fst res with
  | Some q => Forall (within q) (snd res)
  | None => Forall (fun f => price (fbuy f) = None /\ price (fsell f) = None) (snd res)
  end.

Lemma within_from_frontier q f xb xs :
  bge (price (fbuy f)) xb -> sle (price (fsell f)) xs ->
  (forall pb, xb = Some pb -> ple q pb = true) -> (forall ps, xs = Some ps -> ple ps q = true) ->
  (* frontier None on buy side means all fills' buys are market: fine. *)
  within q f.
Proof.
  intros Hb Hs Hq1 Hq2. split.
  - intros pb E. rewrite E in Hb. destruct xb as [xb'|]; simpl in Hb; [|tauto].
    eapply ple_trans; [apply Hq1; reflexivity| exact Hb].
  - intros ps E. rewrite E in Hs. destruct xs as [xs'|]; simpl in Hs; [|tauto].
    eapply ple_trans; [exact Hs | apply Hq2; reflexivity].
Qed.


Definition front (c: option (order*Z)) (l: list order) : list order :=
  match c with Some (b, r) => if r =? 0 then l else b :: l | None => l end.

Definition mm (f: fill) := price (fbuy f) = None /\ price (fsell f) = None.
Definition res_ok (p: option P) (acc: list fill) : Prop :=
  match p with Some q => Forall (within q) acc | None => Forall mm acc end.

Definition mono (acc: list fill) (fb fs: list order) : Prop :=
  Forall (fun f => (forall b', In b' fb -> bge (price (fbuy f)) (price b')) /\
                   (forall s', In s' fs -> sle (price (fsell f)) (price s'))) acc.

Lemma refill_front c l c' l' : refill c l = (c', l') ->
  front c l = match c' with Some (x, _) => x :: l' | None => [] end
  \/ (c' = None /\ front c l = []).
Proof.
  unfold refill, front, need_pop. destruct c as [[b r]|].
  - destruct (r =? 0) eqn:E.
    + destruct l; intros H; inversion H; subst; auto.
    + intros H; inversion H; subst. left. reflexivity.
  - destruct l; intros H; inversion H; subst; auto.
Qed.

Lemma refill_front_some c l x r l' : refill c l = (Some (x, r), l') -> front c l = x :: l'.
Proof. intros H. destruct (refill_front _ _ _ _ H) as [E|[E _]]; [exact E|discriminate]. Qed.

Lemma bbook_head_bge x l b' : bbook (x :: l) -> In b' (x :: l) -> bge (price x) (price b').
Proof.
  intros [Hs Hb] Hin. destruct Hin as [<-|Hin]; [apply bge_refl|].
  inversion Hs; subst. inversion Hb; subst. apply olt_bge; auto.
  rewrite Forall_forall in H2. auto.
Qed.
Lemma sbook_head_sle x l s' : sbook (x :: l) -> In s' (x :: l) -> sle (price x) (price s').
Proof.
  intros [Hs Hb] Hin. destruct Hin as [<-|Hin]; [apply sle_refl|].
  inversion Hs; subst. inversion Hb; subst. apply olt_sle; auto.
  rewrite Forall_forall in H2. auto.
Qed.
Lemma bbook_tail x l : bbook (x :: l) -> bbook l.
Proof. intros [Hs Hb]. inversion Hs; inversion Hb; subst. split; auto. Qed.
Lemma sbook_tail x l : sbook (x :: l) -> sbook l.
Proof. intros [Hs Hb]. inversion Hs; inversion Hb; subst. split; auto. Qed.

Lemma front_after b r l : incl (front (Some (b, r)) l) (b :: l).
Proof. unfold front. destruct (r =? 0); intros x Hx; simpl; auto. Qed.
Lemma bbook_front_after b r l : bbook (b :: l) -> bbook (front (Some (b, r)) l).
Proof. unfold front. destruct (r =? 0); auto. apply bbook_tail. Qed.
Lemma sbook_front_after b r l : sbook (b :: l) -> sbook (front (Some (b, r)) l).
Proof. unfold front. destruct (r =? 0); auto. apply sbook_tail. Qed.

Lemma choose_price_between b s p q :
  crossing b s = true -> choose_price b s p = Some q ->
  (price b = None /\ price s = None /\ p = Some q) \/
  ((forall pb, price b = Some pb -> ple q pb = true) /\ (forall ps, price s = Some ps -> ple ps q = true)
   /\ (price b <> None \/ price s <> None)).
Proof.
  unfold crossing, choose_price. destruct (price b) as [pb|], (price s) as [ps|]; intros Hc Hq.
  - right. assert (Hle: ple ps pb = true) by exact Hc.
    assert (q = pb \/ q = ps) as [->| ->].
    { destruct (placed b =? placed s); [destruct (oid b <? oid s)|destruct (placed b <? placed s)]; inversion Hq; auto. }
    + repeat split; try (intros ? E; inversion E; subst; auto using ple_refl). left; discriminate.
    + repeat split; try (intros ? E; inversion E; subst; auto using ple_refl). left; discriminate.
  - right. inversion Hq; subst. repeat split; try (intros ? E; inversion E; subst; auto using ple_refl). left; discriminate.
  - right. inversion Hq; subst. repeat split; try (intros ? E; inversion E; subst; auto using ple_refl). right; discriminate.
  - left. auto.
Qed.

Lemma walk_ok fuel : forall cb cs bs ss p acc,
  bbook (front cb bs) -> sbook (front cs ss) ->
  mono acc (front cb bs) (front cs ss) -> res_ok p acc ->
  let r := walk fuel cb cs bs ss p acc in res_ok (fst r) (snd r).
Proof.
  induction fuel as [|f IH]; intros cb cs bs ss p acc HB HS HM HR; simpl; [exact HR|].
  destruct (refill cb bs) as [cb' bs'] eqn:Eb.
  destruct cb' as [[b bt]|]; [|exact HR].
  destruct (refill cs ss) as [cs' ss'] eqn:Es.
  destruct cs' as [[s st]|]; [|exact HR].
  destruct (crossing b s) eqn:Ec; [|exact HR].
  pose proof (refill_front_some _ _ _ _ _ Eb) as Fb.
  pose proof (refill_front_some _ _ _ _ _ Es) as Fs.
  rewrite Fb in HB, HM. rewrite Fs in HS, HM.
  apply IH.
  - now apply bbook_front_after.
  - now apply sbook_front_after.
  - unfold mono. apply Forall_app. split.
    + unfold mono in HM. eapply Forall_impl; [|exact HM]. intros x [H1 H2]. split; intros y Hy.
      * apply H1. eapply front_after; eauto.
      * apply H2. eapply front_after; eauto.
    + constructor; [|constructor]. simpl. split; intros y Hy.
      * eapply bbook_head_bge; eauto. eapply front_after; eauto.
      * eapply sbook_head_sle; eauto. eapply front_after; eauto.
  - (* result predicate re-established *)
    unfold res_ok. destruct (choose_price b s p) as [q|] eqn:Eq.
    + destruct (choose_price_between _ _ _ _ Ec Eq) as [[Nb [Ns Ep]]|[Hq1 [Hq2 _]]].
      * subst p. simpl in HR. apply Forall_app; split; auto. constructor; auto.
        split; simpl; intros ? E; congruence.
      * apply Forall_app; split.
        -- unfold mono in HM. eapply Forall_impl; [|exact HM]. intros x [H1 H2].
           eapply within_from_frontier with (xb := price b) (xs := price s); auto.
           ++ apply H1. left; auto.
           ++ apply H2. left; auto.
        -- constructor; auto. split; simpl; auto.
    + (* price stays None: b, s both market and p = None *)
      unfold choose_price in Eq. destruct (price b) eqn:Pb, (price s) eqn:Ps; try discriminate.
      * destruct (placed b =? placed s); [destruct (oid b <? oid s)|destruct (placed b <? placed s)]; discriminate.
      * subst p. simpl in HR. apply Forall_app; split; auto. constructor; auto. split; simpl; auto.
Qed.

Theorem walk_price_within_limits fuel bs ss :
  bbook bs -> sbook ss ->
  let r := walk fuel None None bs ss None [] in
  match fst r with
  | Some q => Forall (within q) (snd r)
  | None => Forall mm (snd r)
  end.
Proof.
  intros HB HS. apply (walk_ok fuel None None bs ss None []); simpl; auto; constructor.
Qed.

(* ------------------------------------------------------------------------------------------
   The comparison is a strict total order on accepted orders of one side (C02) *)

Lemma peq_refl a : peq a a = true.
Proof. apply peq_spec. split; apply plt_irrefl. Qed.
Lemma peq_sym a b : peq a b = true -> peq b a = true.
Proof. intros H. apply peq_spec in H. apply peq_spec. tauto. Qed.
Lemma plt_asym a b : plt a b = true -> plt b a = false.
Proof.
  intros H. destruct (plt b a) eqn:E; auto.
  pose proof (plt_trans _ _ _ H E) as C. now rewrite plt_irrefl in C.
Qed.
Lemma peq_trans a b c : peq a b = true -> peq b c = true -> peq a c = true.
Proof.
  intros H1 H2. apply peq_spec. split.
  - destruct (plt a c) eqn:E; auto.
    (* a<c, a~b => b<c, contradiction with b~c *)
    pose proof (peq_lt_l b a c (peq_sym _ _ H1) E) as C. apply peq_spec in H2. destruct H2; congruence.
  - destruct (plt c a) eqn:E; auto.
    pose proof (peq_lt_r c a b H1 E) as C. apply peq_spec in H2. destruct H2; congruence.
Qed.
Lemma peq_false_total a b : peq a b = false -> plt a b = true \/ plt b a = true.
Proof.
  intros H. destruct (plt a b) eqn:E1; auto. destruct (plt b a) eqn:E2; auto.
  assert (peq a b = true) by (apply peq_spec; auto). congruence.
Qed.

Lemma time_lt_irrefl a : time_lt a a = false.
Proof. unfold time_lt. rewrite Z.eqb_refl. apply Z.ltb_irrefl. Qed.
Lemma time_lt_trans a b c : time_lt a b = true -> time_lt b c = true -> time_lt a c = true.
Proof.
  unfold time_lt. intros H1 H2.
  destruct (placed a =? placed b) eqn:E1, (placed b =? placed c) eqn:E2, (placed a =? placed c) eqn:E3;
    rewrite ?Z.eqb_eq, ?Z.eqb_neq, ?Z.ltb_lt in *; lia.
Qed.
Lemma time_lt_total a b : oid a <> oid b -> time_lt a b = true \/ time_lt b a = true.
Proof.
  unfold time_lt. intros H. rewrite (Z.eqb_sym (placed b)).
  destruct (placed a =? placed b) eqn:E; rewrite ?Z.eqb_eq, ?Z.eqb_neq, ?Z.ltb_lt in *; lia.
Qed.
Lemma time_lt_asym a b : time_lt a b = true -> time_lt b a = false.
Proof.
  unfold time_lt. rewrite (Z.eqb_sym (placed b)).
  destruct (placed a =? placed b) eqn:E; rewrite ?Z.eqb_eq, ?Z.eqb_neq, ?Z.ltb_lt, ?Z.ltb_ge in *; lia.
Qed.

Theorem olt_irrefl a : olt a a = false.
Proof.
  unfold olt. destruct (price a) as [p|]; [rewrite peq_refl|]; apply time_lt_irrefl.
Qed.

Theorem olt_asym a b : isbuy a = isbuy b -> olt a b = true -> olt b a = false.
Proof.
  unfold olt. intros Hs. rewrite <- Hs.
  destruct (price a) as [pa|], (price b) as [pb|]; auto; try discriminate.
  - destruct (peq pa pb) eqn:E.
    + rewrite (peq_sym _ _ E). apply time_lt_asym.
    + assert (E' : peq pb pa = false).
      { destruct (peq pb pa) eqn:X; auto. apply peq_sym in X. congruence. }
      rewrite E'. destruct (isbuy a); apply plt_asym.
  - apply time_lt_asym.
Qed.

Theorem olt_trans a b c : isbuy a = isbuy b -> isbuy b = isbuy c ->
  olt a b = true -> olt b c = true -> olt a c = true.
Proof.
  unfold olt. intros S1 _. rewrite <- S1.
  destruct (price a) as [pa|], (price b) as [pb|], (price c) as [pc|]; auto; try discriminate.
  - destruct (peq pa pb) eqn:E1, (peq pb pc) eqn:E2.
    + rewrite (peq_trans _ _ _ E1 E2). apply time_lt_trans.
    + intros _ H. assert (E3 : peq pa pc = false).
      { destruct (peq pa pc) eqn:X; auto. pose proof (peq_trans _ _ _ (peq_sym _ _ E1) X). congruence. }
      rewrite E3. destruct (isbuy a).
      * eapply peq_lt_r; [apply peq_sym; exact E1 | exact H].
      * eapply peq_lt_l; eauto.
    + intros H _. assert (E3 : peq pa pc = false).
      { destruct (peq pa pc) eqn:X; auto. pose proof (peq_trans _ _ _ X (peq_sym _ _ E2)). congruence. }
      rewrite E3. destruct (isbuy a).
      * eapply peq_lt_l; [apply peq_sym; exact E2 | exact H].
      * eapply peq_lt_r; eauto.
    + intros H1 H2. assert (E3 : peq pa pc = false).
      { destruct (peq pa pc) eqn:X; auto. apply peq_spec in X. destruct X as [X1 X2].
        destruct (isbuy a).
        - pose proof (plt_trans _ _ _ H2 H1). congruence.
        - pose proof (plt_trans _ _ _ H1 H2). congruence. }
      rewrite E3. destruct (isbuy a); eapply plt_trans; eauto.
  - apply time_lt_trans.
Qed.

Theorem olt_total a b : oid a <> oid b -> isbuy a = isbuy b -> olt a b = true \/ olt b a = true.
Proof.
  unfold olt. intros Hi Hs. rewrite <- Hs.
  destruct (price a) as [pa|], (price b) as [pb|]; auto.
  - destruct (peq pa pb) eqn:E.
    + rewrite (peq_sym _ _ E). apply time_lt_total; auto.
    + assert (E' : peq pb pa = false).
      { destruct (peq pb pa) eqn:X; auto. apply peq_sym in X. congruence. }
      rewrite E'. destruct (peq_false_total _ _ E); destruct (isbuy a); auto.
  - apply time_lt_total; auto.
Qed.

(* the ranking the property states: market orders first, then better price, then earlier
   acceptance time, then lower id *)
Theorem olt_ranking a b :
  olt a b = true <->
  match price a, price b with
  | None, Some _ => True
  | Some _, None => False
  | None, None => placed a < placed b \/ (placed a = placed b /\ oid a < oid b)
  | Some pa, Some pb =>
      (if isbuy a then plt pb pa = true else plt pa pb = true) \/
      (peq pa pb = true /\ (placed a < placed b \/ (placed a = placed b /\ oid a < oid b)))
  end.
Proof.
  assert (T : time_lt a b = true <-> placed a < placed b \/ (placed a = placed b /\ oid a < oid b)).
  { unfold time_lt. destruct (placed a =? placed b) eqn:E; rewrite ?Z.eqb_eq, ?Z.eqb_neq, ?Z.ltb_lt in *; lia. }
  unfold olt. destruct (price a) as [pa|], (price b) as [pb|]; try tauto.
  - destruct (peq pa pb) eqn:E.
    + rewrite T. split; [intros H; right; auto|].
      intros [H|[_ H]]; auto. apply peq_spec in E. destruct E. destruct (isbuy a); congruence.
    + split; [intros H; left; destruct (isbuy a); auto|]. intros [H|[H _]]; [destruct (isbuy a); auto|discriminate].
  - split; [discriminate|tauto].
Qed.

(* ------------------------------------------------------------------------------------------
   Where the fills come from, in which order, and how the round's price is chosen (C01) *)

Definition fvol (f : fill) : Z := match f with Fill v _ _ => v end.
Definition cur_list (c : option (order*Z)) (l : list order) : list order :=
  match c with Some (b, _) => b :: l | None => l end.

Lemma refill_cur c l c' l' : refill c l = (c', l') -> incl (cur_list c' l') (cur_list c l).
Proof.
  unfold refill, need_pop, cur_list. destruct c as [[b r]|].
  - destruct (r =? 0).
    + destruct l; intros H; inversion H; subst; intros x Hx; simpl in *; auto.
    + intros H; inversion H; subst. apply incl_refl.
  - destruct l; intros H; inversion H; subst; apply incl_refl.
Qed.

Lemma walk_fills_from fuel : forall cb cs bs ss p acc (B S : list order),
  incl (cur_list cb bs) B -> incl (cur_list cs ss) S ->
  Forall (fun f => In (fbuy f) B /\ In (fsell f) S) acc ->
  Forall (fun f => In (fbuy f) B /\ In (fsell f) S) (snd (walk fuel cb cs bs ss p acc)).
Proof.
  induction fuel as [|f IH]; intros cb cs bs ss p acc B S HB HS HA; simpl; [exact HA|].
  destruct (refill cb bs) as [cb' bs'] eqn:Eb.
  destruct cb' as [[b bt]|]; [|exact HA].
  destruct (refill cs ss) as [cs' ss'] eqn:Es.
  destruct cs' as [[s st]|]; [|exact HA].
  destruct (crossing b s); [|exact HA].
  pose proof (refill_cur _ _ _ _ Eb) as Ib. pose proof (refill_cur _ _ _ _ Es) as Is.
  apply IH.
  - simpl in *. eapply incl_tran; eauto.
  - simpl in *. eapply incl_tran; eauto.
  - apply Forall_app. split; auto. constructor; auto. simpl. split.
    + apply HB. apply Ib. left; auto.
    + apply HS. apply Is. left; auto.
Qed.

Definition cp_fold (fs : list fill) (p : option P) : option P :=
  fold_left (fun p f => choose_price (fbuy f) (fsell f) p) fs p.

Lemma walk_price_fold fuel : forall cb cs bs ss p acc,
  exists new, snd (walk fuel cb cs bs ss p acc) = acc ++ new /\
              fst (walk fuel cb cs bs ss p acc) = cp_fold new p.
Proof.
  induction fuel as [|f IH]; intros cb cs bs ss p acc; simpl.
  - exists []. rewrite app_nil_r. auto.
  - destruct (refill cb bs) as [cb' bs'].
    destruct cb' as [[b bt]|]; [|exists []; rewrite app_nil_r; auto].
    destruct (refill cs ss) as [cs' ss'].
    destruct cs' as [[s st]|]; [|exists []; rewrite app_nil_r; auto].
    destruct (crossing b s); [|exists []; rewrite app_nil_r; auto].
    destruct (IH (Some (b, bt - Z.min bt st)) (Some (s, st - Z.min bt st)) bs' ss' (choose_price b s p)
                 (acc ++ [Fill (Z.min bt st) b s])) as [new [H1 H2]].
    exists (Fill (Z.min bt st) b s :: new). rewrite H1, H2. rewrite <- app_assoc. simpl. auto.
Qed.

(* the rule itself, as the property words it *)
Definition rule_price (b s : order) : option P :=
  match price b, price s with
  | Some pb, Some ps =>
      if (placed b <? placed s) || ((placed b =? placed s) && (oid b <? oid s)) then Some pb else Some ps
  | Some pb, None => Some pb
  | None, Some ps => Some ps
  | None, None => None
  end.

Lemma choose_price_rule b s old :
  (price b <> None \/ price s <> None) -> choose_price b s old = rule_price b s.
Proof.
  unfold choose_price, rule_price. destruct (price b), (price s); intros H; auto.
  - destruct (placed b =? placed s) eqn:E.
    + apply Z.eqb_eq in E. rewrite E, Z.ltb_irrefl. simpl. reflexivity.
    + rewrite andb_false_l, orb_false_r. reflexivity.
  - destruct H; congruence.
Qed.

Lemma cp_fold_mm fs : Forall mm fs -> cp_fold fs None = None.
Proof.
  unfold cp_fold. induction fs as [|f r IH]; simpl; auto. intros H. inversion H as [|? ? [Hb Hs] Hr]; subst.
  unfold choose_price at 2. rewrite Hb, Hs. auto.
Qed.

Lemma cp_fold_last fs f p : cp_fold (fs ++ [f]) p = choose_price (fbuy f) (fsell f) (cp_fold fs p).
Proof. unfold cp_fold. rewrite fold_left_app. reflexivity. Qed.

(* fills are produced in priority order on both sides *)
Definition fills_ordered (fs : list fill) : Prop :=
  ForallOrdPairs (fun f g => bge (price (fbuy f)) (price (fbuy g)) /\ sle (price (fsell f)) (price (fsell g))) fs.

Lemma fop_app {A} (R : A -> A -> Prop) l x :
  ForallOrdPairs R l -> Forall (fun y => R y x) l -> ForallOrdPairs R (l ++ [x]).
Proof.
  induction l as [|y r IH]; simpl; intros H1 H2.
  - constructor; constructor.
  - inversion H1; subst. inversion H2; subst. constructor.
    + apply Forall_app. split; auto.
    + apply IH; auto.
Qed.

Lemma walk_ordered fuel : forall cb cs bs ss p acc,
  bbook (front cb bs) -> sbook (front cs ss) ->
  mono acc (front cb bs) (front cs ss) -> fills_ordered acc ->
  fills_ordered (snd (walk fuel cb cs bs ss p acc)).
Proof.
  induction fuel as [|f IH]; intros cb cs bs ss p acc HB HS HM HO; simpl; [exact HO|].
  destruct (refill cb bs) as [cb' bs'] eqn:Eb.
  destruct cb' as [[b bt]|]; [|exact HO].
  destruct (refill cs ss) as [cs' ss'] eqn:Es.
  destruct cs' as [[s st]|]; [|exact HO].
  destruct (crossing b s) eqn:Ec; [|exact HO].
  pose proof (refill_front_some _ _ _ _ _ Eb) as Fb.
  pose proof (refill_front_some _ _ _ _ _ Es) as Fs.
  rewrite Fb in HB, HM. rewrite Fs in HS, HM.
  apply IH.
  - now apply bbook_front_after.
  - now apply sbook_front_after.
  - unfold mono. apply Forall_app. split.
    + unfold mono in HM. eapply Forall_impl; [|exact HM]. intros x [H1 H2]. split; intros y Hy.
      * apply H1. eapply front_after; eauto.
      * apply H2. eapply front_after; eauto.
    + constructor; [|constructor]. simpl. split; intros y Hy.
      * eapply bbook_head_bge; eauto. eapply front_after; eauto.
      * eapply sbook_head_sle; eauto. eapply front_after; eauto.
  - apply fop_app; auto. unfold mono in HM. eapply Forall_impl; [|exact HM].
    intros x [H1 H2]. simpl. split; [apply H1|apply H2]; left; auto.
Qed.

Lemma ordered_last_mm fs f : fills_ordered (fs ++ [f]) -> mm f -> Forall mm (fs ++ [f]).
Proof.
  intros HO [Hb Hs]. apply Forall_app. split; [|constructor; [split; auto|constructor]].
  induction fs as [|g r IH]; [constructor|]. simpl in HO. inversion HO as [|? ? Hg Hr]; subst.
  constructor; auto. apply Forall_app in Hg. destruct Hg as [_ Hg]. inversion Hg as [|? ? [G1 G2] _]; subst.
  rewrite Hb in G1. rewrite Hs in G2. unfold bge, sle in *. split.
  - destruct (price (fbuy g)); tauto.
  - destruct (price (fsell g)); tauto.
Qed.

(* C01, third sentence: the round's price is the limit of the earlier-accepted order of the last
   matched pair (the limit order's price if its counterpart is a market order). *)
Theorem walk_price_rule fuel bs ss q fs f :
  bbook bs -> sbook ss ->
  walk fuel None None bs ss None [] = (Some q, fs ++ [f]) ->
  rule_price (fbuy f) (fsell f) = Some q /\ (price (fbuy f) <> None \/ price (fsell f) <> None).
Proof.
  intros HB HS HW.
  destruct (walk_price_fold fuel None None bs ss None []) as [new [H1 H2]].
  rewrite HW in H1, H2. simpl in H1, H2. subst new.
  assert (HO : fills_ordered (fs ++ [f])).
  { pose proof (walk_ordered fuel None None bs ss None [] HB HS) as X. rewrite HW in X. simpl in X.
    apply X; constructor. }
  assert (NM : price (fbuy f) <> None \/ price (fsell f) <> None).
  { destruct (price (fbuy f)) eqn:Eb; [left; discriminate|]. destruct (price (fsell f)) eqn:Es; [right; discriminate|].
    exfalso. assert (M : Forall mm (fs ++ [f])) by (apply ordered_last_mm; auto; split; auto).
    rewrite (cp_fold_mm _ M) in H2. discriminate. }
  split; auto. rewrite cp_fold_last in H2. rewrite choose_price_rule in H2; auto.
Qed.

(* ------------------------------------------------------------------------------------------
   Price-time priority of the fills (C02): each side of the book is consumed as a prefix.
   At any point of the walk the book splits into [done ++ current ++ rest]: every order of
   [done] is filled completely, the (at most one) current order partially, [rest] not at all. *)

Definition filled_of (sel : fill -> order) (fs : list fill) (i : Z) : Z :=
  fold_right (fun f a => if oid (sel f) =? i then fvol f + a else a) 0 fs.

Lemma filled_of_app sel fs f i :
  filled_of sel (fs ++ [f]) i = filled_of sel fs i + (if oid (sel f) =? i then fvol f else 0).
Proof.
  unfold filled_of. induction fs as [|g r IH]; simpl.
  - destruct (oid (sel f) =? i); lia.
  - rewrite IH. destruct (oid (sel g) =? i); lia.
Qed.

Definition consumed (sel : fill -> order) (B : list order) (c : option (order*Z)) (l : list order)
           (acc : list fill) : Prop :=
  exists done, B = done ++ cur_list c l /\
    Forall (fun x => filled_of sel acc (oid x) = vol x) done /\
    match c with Some (b, r) => filled_of sel acc (oid b) = vol b - r | None => True end /\
    Forall (fun x => filled_of sel acc (oid x) = 0) l.

Lemma consumed_refill sel B c l acc c' l' :
  consumed sel B c l acc -> refill c l = (c', l') -> consumed sel B c' l' acc.
Proof.
  intros [done [HB [Hd [Hc Hl]]]]. unfold refill, need_pop. destruct c as [[b r]|].
  - destruct (r =? 0) eqn:E.
    + apply Z.eqb_eq in E. subst r. destruct l as [|x l0]; intros H; inversion H; subst; clear H.
      * exists (done ++ [b]). simpl in *. rewrite app_nil_r. split; [auto|]. split; [|split; auto].
        apply Forall_app. split; auto. constructor; auto. lia.
      * exists (done ++ [b]). simpl in *. rewrite <- app_assoc. simpl. split; [auto|].
        inversion Hl; subst. split; [|split; auto; lia].
        apply Forall_app. split; auto. constructor; auto. lia.
    + intros H; inversion H; subst. exists done. auto.
  - destruct l as [|x l0]; intros H; inversion H; subst; clear H.
    + exists done. auto.
    + exists done. simpl in *. inversion Hl; subst. split; [auto|]. split; [auto|]. split; [lia|auto].
Qed.

Lemma NoDup_app_head_notin (d : list order) b l :
  NoDup (map (@oid) (d ++ b :: l)) ->
  Forall (fun x => oid x <> oid b) d /\ Forall (fun x => oid x <> oid b) l.
Proof.
  rewrite map_app. simpl. intros H. apply NoDup_remove in H. destruct H as [H1 H2].
  split; rewrite Forall_forall; intros x Hx E; apply H2; apply in_or_app; [left|right];
    apply in_map_iff; exists x; auto.
Qed.

Lemma consumed_fill sel B b bt l acc f :
  NoDup (map (@oid) B) -> sel f = b ->
  consumed sel B (Some (b, bt)) l acc ->
  consumed sel B (Some (b, bt - fvol f)) l (acc ++ [f]).
Proof.
  intros ND Hs [done [HB [Hd [Hc Hl]]]]. exists done. simpl in *. split; auto.
  rewrite HB in ND. destruct (NoDup_app_head_notin _ _ _ ND) as [N1 N2].
  split; [|split].
  - rewrite Forall_forall in *. intros x Hx. rewrite filled_of_app, Hs.
    destruct (oid b =? oid x) eqn:E; [apply Z.eqb_eq in E; exfalso; apply (N1 x Hx); auto|]. rewrite Hd; auto. lia.
  - rewrite filled_of_app, Hs, Z.eqb_refl. lia.
  - rewrite Forall_forall in *. intros x Hx. rewrite filled_of_app, Hs.
    destruct (oid b =? oid x) eqn:E; [apply Z.eqb_eq in E; exfalso; apply (N2 x Hx); auto|]. rewrite Hl; auto.
Qed.

Lemma consumed_other sel B c l acc f :
  (forall x, In x B -> oid (sel f) <> oid x) -> consumed sel B c l acc -> consumed sel B c l (acc ++ [f]).
Proof.
  intros Hn [done [HB [Hd [Hc Hl]]]]. exists done. split; auto.
  assert (K : forall x, In x B -> filled_of sel (acc ++ [f]) (oid x) = filled_of sel acc (oid x)).
  { intros x Hx. rewrite filled_of_app. destruct (oid (sel f) =? oid x) eqn:E; [|lia].
    apply Z.eqb_eq in E. exfalso. eapply Hn; eauto. }
  split; [|split].
  - rewrite Forall_forall in *. intros x Hx. rewrite K; auto. rewrite HB. apply in_or_app; auto.
  - destruct c as [[b r]|]; auto. rewrite K; auto. rewrite HB. apply in_or_app. right. left. auto.
  - rewrite Forall_forall in *. intros x Hx. rewrite K; auto. rewrite HB. apply in_or_app. right.
    destruct c as [[b r]|]; simpl; auto.
Qed.

Lemma walk_consumed fuel : forall B S cb cs bs ss p acc,
  NoDup (map (@oid) B) -> NoDup (map (@oid) S) ->
  consumed fbuy B cb bs acc -> consumed fsell S cs ss acc ->
  exists cb' bs' cs' ss',
    consumed fbuy B cb' bs' (snd (walk fuel cb cs bs ss p acc)) /\
    consumed fsell S cs' ss' (snd (walk fuel cb cs bs ss p acc)).
Proof.
  induction fuel as [|f IH]; intros B S cb cs bs ss p acc NB NS HB HS; simpl.
  - exists cb, bs, cs, ss. auto.
  - destruct (refill cb bs) as [cb' bs'] eqn:Eb.
    pose proof (consumed_refill _ _ _ _ _ _ _ HB Eb) as HB'.
    destruct cb' as [[b bt]|]; [|exists None, bs', cs, ss; auto].
    destruct (refill cs ss) as [cs' ss'] eqn:Es.
    pose proof (consumed_refill _ _ _ _ _ _ _ HS Es) as HS'.
    destruct cs' as [[s st]|]; [|exists (Some (b, bt)), bs', None, ss'; auto].
    destruct (crossing b s); [|exists (Some (b, bt)), bs', (Some (s, st)), ss'; auto].
    apply IH; auto.
    + apply (consumed_fill fbuy B b bt bs' acc (Fill (Z.min bt st) b s)); auto.
    + apply (consumed_fill fsell S s st ss' acc (Fill (Z.min bt st) b s)); auto.
Qed.

(* C02: the fills of a round consume each side of the book as a prefix in priority order. *)
Theorem walk_respects_priority fuel B S :
  NoDup (map (@oid) B) -> NoDup (map (@oid) S) ->
  let fs := snd (walk fuel None None B S None []) in
  (exists done cur rest, B = done ++ cur ++ rest /\ (length cur <= 1)%nat /\
     Forall (fun x => filled_of fbuy fs (oid x) = vol x) done /\
     Forall (fun x => filled_of fbuy fs (oid x) = 0) rest) /\
  (exists done cur rest, S = done ++ cur ++ rest /\ (length cur <= 1)%nat /\
     Forall (fun x => filled_of fsell fs (oid x) = vol x) done /\
     Forall (fun x => filled_of fsell fs (oid x) = 0) rest).
Proof.
  intros NB NS fs.
  destruct (walk_consumed fuel B S None None B S None [] NB NS) as [cb [bs [cs [ss [HB HS]]]]].
  - exists []. simpl. split; auto. split; [constructor|]. split; auto.
    rewrite Forall_forall. intros; reflexivity.
  - exists []. simpl. split; auto. split; [constructor|]. split; auto.
    rewrite Forall_forall. intros; reflexivity.
  - fold fs in HB, HS. split.
    + destruct HB as [done [E [Hd [_ Hl]]]]. exists done.
      destruct cb as [[b r]|]; [exists [b], bs | exists [], bs]; simpl in *; auto.
    + destruct HS as [done [E [Hd [_ Hl]]]]. exists done.
      destruct cs as [[s r]|]; [exists [s], ss | exists [], ss]; simpl in *; auto.
Qed.

End Walk.



Arguments mkO {P} _ _ _ _ _ _ _ _.
Arguments oid {P} _.
Arguments agent {P} _.
Arguments mkt {P} _.
Arguments isbuy {P} _.
Arguments price {P} _.
Arguments vol {P} _.
Arguments placed {P} _.
Arguments ttl {P} _.
Arguments Fill {P} _ _ _.
Arguments fbuy {P} _.
Arguments fsell {P} _.
Arguments fvol {P} _.
Arguments filled_of {P} _ _ _.
Arguments rule_price {P} _ _.
Arguments time_lt {P} _ _.
Arguments choose_price {P} _ _ _.
Arguments need_pop {P} _.
Arguments refill {P} _ _.
