(* Reachable-state invariant of the Level-M model and its preservation by every operation. *)
Require Import Pams.Prelude Pams.Tick Pams.Match Pams.Market Pams.MatchQ.
From Coq Require Import Sorted.
From RecordUpdate Require Import RecordSet.
Import RecordSetNotations.
Open Scope Z_scope.

(* ---------------- book invariant ---------------- *)
Definition elem_ok (side : bool) (next time id : Z) (o : O) : Prop :=
  isbuy o = side /\ oid o < next /\ 0 < vol o /\ mkt o = id /\ placed o <= time.

Record side_ok (side : bool) (next time id : Z) (l : list O) : Prop := {
  so_sorted : sortedq l;
  so_elems : Forall (elem_ok side next time id) l;
  so_nodup : NoDup (map (@oid Q) l)
}.

Definition book_ok (m : market) : Prop :=
  side_ok true (m_next m) (m_time m) (m_id m) (m_buys m) /\
  side_ok false (m_next m) (m_time m) (m_id m) (m_sells m).

Lemma side_ok_nil side n t i : side_ok side n t i [].
Proof. split; simpl; constructor. Qed.

Lemma book_ok_init id tk mp0 : book_ok (init_market id tk mp0).
Proof. split; apply side_ok_nil. Qed.

(* ---------------- list lemmas ---------------- *)
Lemma oltq_with_vol_l a v b : oltq (with_vol a v) b = oltq a b.
Proof. reflexivity. Qed.
Lemma oltq_with_vol_r a v b : oltq a (with_vol b v) = oltq a b.
Proof. reflexivity. Qed.

Lemma In_insert o x l : In x (insert o l) <-> x = o \/ In x l.
Proof.
  induction l as [|y r IH]; simpl.
  - intuition.
  - destruct (oltq o y); simpl; rewrite ?IH; intuition.
Qed.

Lemma insert_sorted o l side :
  sortedq l -> Forall (fun x : O => isbuy x = side) l -> isbuy o = side ->
  Forall (fun x : O => oid x <> oid o) l ->
  sortedq (insert o l).
Proof.
  unfold sortedq. intros Hs Hside Ho Hid. subst side.
  induction l as [|y r IH]; simpl.
  - constructor; constructor.
  - inversion Hs as [|? ? Hs' Hy]; subst. inversion Hside as [|? ? Sy Sr]; subst.
    inversion Hid as [|? ? Iy Ir]; subst.
    destruct (oltq o y) eqn:E.
    + constructor; [constructor; auto|]. constructor; auto.
      rewrite Forall_forall in *. intros z Hz.
      apply (oltq_trans o y z); auto; rewrite ?Sy, ?(Sr z Hz); reflexivity.
    + constructor; [apply IH; auto|].
      rewrite Forall_forall. intros z Hz. apply In_insert in Hz. destruct Hz as [->|Hz].
      * destruct (oltq_total y o) as [H|H]; auto; congruence.
      * rewrite Forall_forall in Hy. auto.
Qed.

Lemma In_remove_id i x l : In x (remove_id i l) -> In x l.
Proof.
  induction l as [|y r IH]; simpl; auto. destruct (oid y =? i); simpl; intuition.
Qed.
Lemma remove_id_sorted i l : sortedq l -> sortedq (remove_id i l).
Proof.
  unfold sortedq. induction l as [|y r IH]; simpl; intros Hs; auto.
  inversion Hs as [|? ? Hs' Hy]; subst. destruct (oid y =? i); auto.
  constructor; auto. rewrite Forall_forall in *. intros z Hz. apply Hy. eapply In_remove_id; eauto.
Qed.
Lemma remove_id_Forall (P : O -> Prop) i l : Forall P l -> Forall P (remove_id i l).
Proof. rewrite !Forall_forall. intros H x Hx. apply H. eapply In_remove_id; eauto. Qed.

Lemma filter_sorted (f : O -> bool) l : sortedq l -> sortedq (filter f l).
Proof.
  unfold sortedq. induction l as [|y r IH]; simpl; intros Hs; auto.
  inversion Hs as [|? ? Hs' Hy]; subst. destruct (f y); auto.
  constructor; auto. rewrite Forall_forall in *. intros z Hz. apply Hy. apply filter_In in Hz. tauto.
Qed.
Lemma filter_Forall {A} (P : A -> Prop) f l : Forall P l -> Forall P (filter f l).
Proof. rewrite !Forall_forall. intros H x Hx. apply H. apply filter_In in Hx. tauto. Qed.

Lemma set_vol_map i v l : map (@oid Q) (set_vol i v l) = map (@oid Q) l.
Proof. induction l as [|y r IH]; simpl; auto. destruct (oid y =? i); simpl; congruence. Qed.

Lemma In_set_vol i v x l : In x (set_vol i v l) -> exists y, In y l /\ (x = y \/ x = with_vol y v).
Proof.
  induction l as [|y r IH]; simpl; [tauto|]. destruct (oid y =? i); simpl.
  - intros [Hx|H]; [exists y; auto|exists x; auto].
  - intros [Hx|H]; [exists y; auto|]. destruct (IH H) as [z [Hz Hx]]. exists z; auto.
Qed.

Lemma set_vol_sorted i v l : sortedq l -> sortedq (set_vol i v l).
Proof.
  unfold sortedq. induction l as [|y r IH]; simpl; intros Hs; auto.
  inversion Hs as [|? ? Hs' Hy]; subst. destruct (oid y =? i).
  - constructor; auto.
  - constructor; auto. rewrite Forall_forall in *. intros z Hz.
    destruct (In_set_vol _ _ _ _ Hz) as [w [Hw [->| ->]]]; [|rewrite oltq_with_vol_r]; auto.
Qed.

Lemma set_vol_Forall (P : O -> Prop) i v l :
  Forall P l -> (forall y, P y -> P (with_vol y v)) -> Forall P (set_vol i v l).
Proof.
  rewrite !Forall_forall. intros H Hw x Hx.
  destruct (In_set_vol _ _ _ _ Hx) as [w [Hin [->| ->]]]; auto.
Qed.

Lemma NoDup_map_sub {A} (f : A -> Z) (l l' : list A) :
  NoDup (map f l) -> (exists g, l' = filter g l) -> NoDup (map f l').
Proof.
  intros H [g ->]. induction l as [|y r IH]; simpl; auto.
  inversion H as [|? ? Hn Hr]; subst. destruct (g y); simpl; auto.
  constructor; auto. intro C. apply Hn. apply in_map_iff in C. destruct C as [z [Hz Hin]].
  apply in_map_iff. exists z. split; auto. apply filter_In in Hin. tauto.
Qed.

Lemma remove_id_NoDup i l : NoDup (map (@oid Q) l) -> NoDup (map (@oid Q) (remove_id i l)).
Proof.
  induction l as [|y r IH]; simpl; intros H; auto. inversion H as [|? ? Hn Hr]; subst.
  destruct (oid y =? i); simpl; auto. constructor; auto.
  intro C. apply Hn. apply in_map_iff in C. destruct C as [z [Hz Hin]].
  apply in_map_iff. exists z. split; auto. eapply In_remove_id; eauto.
Qed.

Lemma find_id_In i l o : find_id i l = Some o -> In o l /\ oid o = i.
Proof.
  induction l as [|y r IH]; simpl; [discriminate|]. destruct (oid y =? i) eqn:E.
  - intros H; inversion H; subst. apply Z.eqb_eq in E. auto.
  - intros H. destruct (IH H). auto.
Qed.
Lemma find_id_None i l : find_id i l = None -> Forall (fun o : O => oid o <> i) l.
Proof.
  induction l as [|y r IH]; simpl; intros H; [constructor|].
  destruct (oid y =? i) eqn:E; [discriminate|]. apply Z.eqb_neq in E. constructor; auto.
Qed.


Lemma insert_NoDup o l : NoDup (map (@oid Q) l) -> ~ In (oid o) (map (@oid Q) l) -> NoDup (map (@oid Q) (insert o l)).
Proof.
  induction l as [|y r IH]; simpl; intros Hn Hni.
  - constructor; auto.
  - destruct (oltq o y); simpl.
    + constructor; auto.
    + inversion Hn as [|? ? Hy Hr]; subst. constructor.
      * intro C. apply in_map_iff in C. destruct C as [z [Hz Hin]]. apply In_insert in Hin.
        destruct Hin as [->|Hin]; [apply Hni; left; auto|]. apply Hy. apply in_map_iff. exists z; auto.
      * apply IH; auto.
Qed.

Lemma side_ok_side side n t i l : side_ok side n t i l -> Forall (fun x : O => isbuy x = side) l.
Proof. intros [_ H _]. eapply Forall_impl; [|exact H]. intros a Ha. apply Ha. Qed.

Lemma side_ok_weaken side n t i n' t' l :
  n <= n' -> t <= t' -> side_ok side n t i l -> side_ok side n' t' i l.
Proof.
  intros Hn Ht [H1 H2 H3]. split; auto. eapply Forall_impl; [|exact H2].
  unfold elem_ok. intros a Ha. intuition lia.
Qed.

Lemma side_ok_insert side n t i l o :
  side_ok side n t i l -> elem_ok side (n + 1) t i o -> oid o = n -> side_ok side (n + 1) t i (insert o l).
Proof.
  intros H Ho Hid. assert (H' := side_ok_weaken side n t i (n + 1) t l ltac:(lia) ltac:(lia) H).
  destruct H as [H1 H2 H3].
  assert (Hfresh : Forall (fun x : O => oid x <> oid o) l).
  { eapply Forall_impl; [|exact H2]. unfold elem_ok. intros a Ha. intuition lia. }
  split.
  - apply (insert_sorted o l side); auto.
    + exact (side_ok_side _ _ _ _ _ H').
    + apply Ho.
  - rewrite Forall_forall. intros x Hx. apply In_insert in Hx. destruct Hx as [->|Hx]; auto.
    destruct H' as [_ H2' _]. rewrite Forall_forall in H2'. auto.
  - apply insert_NoDup; auto. intro C. apply in_map_iff in C. destruct C as [z [Hz Hin]].
    rewrite Forall_forall in Hfresh. apply (Hfresh z Hin). auto.
Qed.

Lemma side_ok_remove side n t i l k : side_ok side n t i l -> side_ok side n t i (remove_id k l).
Proof.
  intros [H1 H2 H3]. split.
  - apply remove_id_sorted; auto.
  - apply remove_id_Forall; auto.
  - apply remove_id_NoDup; auto.
Qed.

Lemma filter_NoDup (f : O -> bool) l : NoDup (map (@oid Q) l) -> NoDup (map (@oid Q) (filter f l)).
Proof. intros H. eapply NoDup_map_sub; eauto. Qed.

Lemma side_ok_filter side n t i l f : side_ok side n t i l -> side_ok side n t i (filter f l).
Proof.
  intros [H1 H2 H3]. split.
  - apply filter_sorted; auto.
  - apply filter_Forall; auto.
  - apply filter_NoDup; auto.
Qed.

Lemma side_ok_set_vol side n t i l k v : 0 < v -> side_ok side n t i l -> side_ok side n t i (set_vol k v l).
Proof.
  intros Hv [H1 H2 H3]. split.
  - apply set_vol_sorted; auto.
  - apply set_vol_Forall; auto. unfold elem_ok. simpl. intros y Hy. intuition.
  - rewrite set_vol_map. auto.
Qed.
(* ---------------- frames: which fields an operation touches ---------------- *)
Ltac break_match :=
  repeat match goal with
         | |- context [match ?x with _ => _ end] => destruct x eqn:?
         | |- context [if ?x then _ else _] => destruct x eqn:?
         end.
Ltac ump_tac := unfold update_market_price; cbn; break_match; cbn; try reflexivity; try assumption.

Lemma ump_buys m : m_buys (update_market_price m) = m_buys m. Proof. ump_tac. Qed.
Lemma ump_sells m : m_sells (update_market_price m) = m_sells m. Proof. ump_tac. Qed.
Lemma ump_next m : m_next (update_market_price m) = m_next m. Proof. ump_tac. Qed.
Lemma ump_id m : m_id (update_market_price m) = m_id m. Proof. ump_tac. Qed.
Lemma ump_time m : m_time (update_market_price m) = m_time m. Proof. ump_tac. Qed.
Lemma ump_running m : m_running (update_market_price m) = m_running m. Proof. ump_tac. Qed.
Lemma ump_gone m : m_gone (update_market_price m) = m_gone m. Proof. ump_tac. Qed.
Lemma ump_tick m : m_tick (update_market_price m) = m_tick m. Proof. ump_tac. Qed.
Lemma ump_last m : m_last (update_market_price m) = m_last m. Proof. ump_tac. Qed.
Lemma ump_fund m : m_fund (update_market_price m) = m_fund m. Proof. ump_tac. Qed.
Lemma ump_vol m : m_vol (update_market_price m) = m_vol m. Proof. ump_tac. Qed.
Lemma ump_turn m : m_turn (update_market_price m) = m_turn m. Proof. ump_tac. Qed.
Lemma ump_nbuy m : m_nbuy (update_market_price m) = m_nbuy m. Proof. ump_tac. Qed.
Lemma ump_nsell m : m_nsell (update_market_price m) = m_nsell m. Proof. ump_tac. Qed.

Lemma book_ok_ext m m' :
  m_buys m' = m_buys m -> m_sells m' = m_sells m -> m_next m' = m_next m -> m_id m' = m_id m ->
  m_time m' = m_time m -> book_ok m -> book_ok m'.
Proof. unfold book_ok. intros -> -> -> -> ->. auto. Qed.

Lemma book_ok_ump m : book_ok m -> book_ok (update_market_price m).
Proof. apply book_ok_ext; auto using ump_buys, ump_sells, ump_next, ump_id, ump_time. Qed.

(* ---------------- add_order ---------------- *)
Lemma add_order_ok m ag mk buy p v ttlv m' r :
  book_ok m -> 0 < v -> add_order m ag mk buy p v ttlv = Ok (m', r) -> book_ok m'.
Proof.
  intros [HB HS] Hv. unfold add_order.
  destruct (m_time m <? 0); [discriminate|]. destruct (mk =? m_id m) eqn:Emk; simpl; [|discriminate].
  apply Z.eqb_eq in Emk. subst mk. intros H. inversion H; subst; clear H.
  destruct buy; unfold book_ok; simpl; rewrite ?ump_buys, ?ump_sells, ?ump_next, ?ump_id, ?ump_time; simpl; split.
  - apply side_ok_insert; auto. unfold elem_ok; simpl. intuition lia.
  - eapply side_ok_weaken; [| |exact HS]; lia.
  - eapply side_ok_weaken; [| |exact HB]; lia.
  - apply side_ok_insert; auto. unfold elem_ok; simpl. intuition lia.
Qed.

(* ---------------- cancel_order ---------------- *)
Lemma cancel_order_ok m i m' r : book_ok m -> cancel_order m i = Ok (m', r) -> book_ok m'.
Proof.
  intros [HB HS]. unfold cancel_order. destruct (m_time m <? 0); [discriminate|].
  destruct (find_id i (m_buys m)); [|destruct (find_id i (m_sells m)); [|destruct (find_id i (m_gone m)); [|discriminate]]];
    intros H; inversion H; subst; clear H;
    unfold book_ok; rewrite ?ump_buys, ?ump_sells, ?ump_next, ?ump_id, ?ump_time; simpl; split; auto using side_ok_remove.
Qed.

(* ---------------- tick ---------------- *)
Lemma tick_buys m f : m_buys (fst (tick m f)) = filter (fun o => negb (expired (m_time m + 1) o)) (m_buys m).
Proof. unfold tick, fill_until. cbn. break_match; cbn; reflexivity. Qed.
Lemma tick_sells m f : m_sells (fst (tick m f)) = filter (fun o => negb (expired (m_time m + 1) o)) (m_sells m).
Proof. unfold tick, fill_until. cbn. break_match; cbn; reflexivity. Qed.
Lemma tick_next m f : m_next (fst (tick m f)) = m_next m.
Proof. unfold tick, fill_until. cbn. break_match; cbn; reflexivity. Qed.
Lemma tick_id m f : m_id (fst (tick m f)) = m_id m.
Proof. unfold tick, fill_until. cbn. break_match; cbn; reflexivity. Qed.
Lemma tick_time m f : m_time (fst (tick m f)) = m_time m + 1.
Proof. unfold tick, fill_until. cbn. break_match; cbn; reflexivity. Qed.
Lemma tick_running m f : m_running (fst (tick m f)) = m_running m.
Proof. unfold tick, fill_until. cbn. break_match; cbn; reflexivity. Qed.

Lemma tick_ok m f : book_ok m -> book_ok (fst (tick m f)).
Proof.
  intros [HB HS]. unfold book_ok. rewrite tick_buys, tick_sells, tick_next, tick_id, tick_time.
  split; apply side_ok_filter; eapply side_ok_weaken; eauto; lia.
Qed.

(* ---------------- apply_fill / execution ---------------- *)
Lemma dec_vol_ok side n t id i v l g l' g' :
  side_ok side n t id l -> dec_vol i v l g = Ok (l', g') -> side_ok side n t id l'.
Proof.
  intros H. unfold dec_vol. destruct (find_id i l) as [o|]; [|discriminate].
  destruct (vol o - v =? 0) eqn:E0.
  - intros X; inversion X; subst. apply side_ok_remove; auto.
  - destruct (vol o - v <? 0) eqn:E1; [discriminate|]. intros X; inversion X; subst.
    apply side_ok_set_vol; auto. apply Z.eqb_neq in E0. apply Z.ltb_ge in E1. lia.
Qed.

Lemma apply_fill_frame p m f m' r : apply_fill p m f = Ok (m', r) ->
  m_next m' = m_next m /\ m_id m' = m_id m /\ m_time m' = m_time m /\ m_running m' = m_running m /\ m_tick m' = m_tick m.
Proof.
  unfold apply_fill. destruct f as [v b s]. destruct (negb (m_running m)); [discriminate|].
  destruct (v <=? 0); [discriminate|].
  destruct (dec_vol (oid b) v (m_buys m) (m_gone m)) as [[bs g1]|]; [|discriminate]. simpl.
  destruct (dec_vol (oid s) v (m_sells m) g1) as [[ss g2]|]; [|discriminate]. simpl.
  intros H; inversion H; subst. rewrite ump_next, ump_id, ump_time, ump_running, ump_tick. simpl. auto.
Qed.

Lemma apply_fill_ok p m f m' r : book_ok m -> apply_fill p m f = Ok (m', r) -> book_ok m'.
Proof.
  intros [HB HS]. unfold apply_fill. destruct f as [v b s]. destruct (negb (m_running m)); [discriminate|].
  destruct (v <=? 0); [discriminate|].
  destruct (dec_vol (oid b) v (m_buys m) (m_gone m)) as [[bs g1]|] eqn:E1; [|discriminate]. simpl.
  destruct (dec_vol (oid s) v (m_sells m) g1) as [[ss g2]|] eqn:E2; [|discriminate]. simpl.
  intros H; inversion H; subst. unfold book_ok.
  rewrite ump_buys, ump_sells, ump_next, ump_id, ump_time. simpl. split; eapply dec_vol_ok; eauto.
Qed.

Lemma apply_fills_ok p fs : forall m m' rs, book_ok m -> apply_fills p m fs = Ok (m', rs) -> book_ok m'.
Proof.
  induction fs as [|f r IH]; simpl; intros m m' rs Hm H.
  - inversion H; subst; auto.
  - destruct (apply_fill p m f) as [[m1 x]|] eqn:E1; [|discriminate]. simpl in H.
    destruct (apply_fills p m1 r) as [[m2 xs]|] eqn:E2; [|discriminate]. simpl in H. inversion H; subst.
    eapply IH; [|exact E2]. eapply apply_fill_ok; eauto.
Qed.

Lemma execution_ok m m' rs : book_ok m -> execution m = Ok (m', rs) -> book_ok m'.
Proof.
  intros Hm. unfold execution. destruct (negb (executable m)).
  - intros H; inversion H; subst; auto.
  - destruct (run_walk m) as [[p|] fs]; [|discriminate].
    destruct (apply_fills p m fs) as [[m1 logs]|] eqn:E; [|discriminate]. simpl.
    destruct (executable m1); [discriminate|]. intros H; inversion H; subst. eapply apply_fills_ok; eauto.
Qed.

(* ---------------- every operation ---------------- *)
(* what Order.__init__ guarantees about a submitted order: positive volume, positive time-to-live *)
Definition valid_op (o : op) : Prop :=
  match o with
  | OAdd _ _ _ _ v ttlv => 0 < v /\ match ttlv with Some k => 0 < k | None => True end
  | _ => True
  end.

Theorem step_rec_ok m o m' rs : book_ok m -> valid_op o -> step_rec m o = Ok (m', rs) -> book_ok m'.
Proof.
  intros Hm Hv. destruct o; cbn [step_rec]; try discriminate.
  - destruct (add_order m ag mk buy p v ttlv) as [[m1 r]|] eqn:E; [|discriminate]. simpl.
    intros H; inversion H; subst. eapply add_order_ok; eauto. apply Hv.
  - destruct (cancel_order m i) as [[m1 r]|] eqn:E; [|discriminate]. simpl.
    intros H; inversion H; subst. eapply cancel_order_ok; eauto.
  - intros H. eapply execution_ok; eauto.
  - pose proof (tick_ok m f Hm) as Ht. revert Ht. destruct (tick m f) as [m1 rs1]. cbn [fst].
    intros Ht H. inversion H; subst. exact Ht.
  - intros H; inversion H; subst. exact Hm.
  - intros H; inversion H; subst; auto.
  - intros H; inversion H; subst; auto.
  - intros H; inversion H; subst; auto.
  - intros H; inversion H; subst; auto.
Qed.

Lemma step_inv m o m' x : step m o = Ok (m', x) -> exists rs, step_rec m o = Ok (m', rs).
Proof.
  unfold step. destruct (step_rec m o) as [[m1 rs]|]; [|discriminate]. simpl.
  intros H; inversion H; subst. eauto.
Qed.

Theorem step_ok m o m' x : book_ok m -> valid_op o -> step m o = Ok (m', x) -> book_ok m'.
Proof. intros Hm Hv H. destruct (step_inv _ _ _ _ H) as [rs E]. eapply step_rec_ok; eauto. Qed.

Theorem reachable_ok ops : forall m, book_ok m -> Forall valid_op ops -> book_ok (final_state m ops).
Proof.
  induction ops as [|o r IH]; simpl; intros m Hm Hv; auto.
  inversion Hv; subst. destruct (step m o) as [[m' x]|] eqn:E; auto.
  apply IH; auto. eapply step_ok; eauto.
Qed.
