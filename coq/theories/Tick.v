(* Tick rounding of Market._add_order (pams/market.py):
     if order.price % tick_size != 0:
         order.price = (floor|ceil)(order.price / tick_size) * tick_size
   in exact rational arithmetic. *)
Require Import Pams.Prelude.
From Coq Require Import Lqa.
Open Scope Q_scope.

Definition on_grid (tick p : Q) : bool :=
  Qeq_bool (inject_Z (Qfloor (p / tick)) * tick) p.

Definition tick_level (tick : Q) (is_buy : bool) (p : Q) : Z :=
  if is_buy then Qfloor (p / tick) else Qceiling (p / tick).

Definition round_price (tick : Q) (is_buy : bool) (p : Q) : Q :=
  if on_grid tick p then p else qmul (inject_Z (tick_level tick is_buy p)) tick.

(* ---------------- lemmas ---------------- *)

Lemma div_mul_tick tick p : 0 < tick -> (p / tick) * tick == p.
Proof. intros H. field. intro E. rewrite E in H. apply (Qlt_irrefl 0 H). Qed.

Lemma on_grid_spec tick p : 0 < tick ->
  (on_grid tick p = true <-> exists k : Z, p == inject_Z k * tick).
Proof.
  intros Ht. unfold on_grid. rewrite Qeq_bool_iff. split.
  - intros H. exists (Qfloor (p / tick)). symmetry. exact H.
  - intros [k Hk].
    assert (E : p / tick == inject_Z k).
    { rewrite Hk. field. intro E. rewrite E in Ht. apply (Qlt_irrefl 0 Ht). }
    rewrite E. rewrite Qfloor_Z. symmetry. exact Hk.
Qed.

Lemma on_grid_unchanged tick b p : on_grid tick p = true -> round_price tick b p = p.
Proof. unfold round_price. intros ->. reflexivity. Qed.

Lemma floor_mul_le tick p : 0 < tick -> inject_Z (Qfloor (p / tick)) * tick <= p.
Proof.
  intros Ht. pose proof (Qfloor_le (p / tick)) as H.
  pose proof (div_mul_tick tick p Ht) as E.
  rewrite <- E at 2. apply Qmult_le_compat_r; auto. apply Qlt_le_weak; auto.
Qed.

Lemma floor_mul_gt tick p : 0 < tick -> p - tick < inject_Z (Qfloor (p / tick)) * tick.
Proof.
  intros Ht. pose proof (Qlt_floor (p / tick)) as H.
  pose proof (div_mul_tick tick p Ht) as E.
  rewrite inject_Z_plus in H. simpl (inject_Z 1) in H.
  assert (H2 : (p / tick) * tick < (inject_Z (Qfloor (p / tick)) + 1) * tick).
  { apply Qmult_lt_compat_r; auto. }
  rewrite E in H2. lra.
Qed.

Lemma ceil_mul_ge tick p : 0 < tick -> p <= inject_Z (Qceiling (p / tick)) * tick.
Proof.
  intros Ht. pose proof (Qle_ceiling (p / tick)) as H.
  pose proof (div_mul_tick tick p Ht) as E.
  rewrite <- E at 1. apply Qmult_le_compat_r; auto. apply Qlt_le_weak; auto.
Qed.

Lemma ceil_mul_lt tick p : 0 < tick -> inject_Z (Qceiling (p / tick)) * tick < p + tick.
Proof.
  intros Ht. pose proof (Qceiling_lt (p / tick)) as H.
  pose proof (div_mul_tick tick p Ht) as E.
  unfold Z.sub in H. rewrite inject_Z_plus, inject_Z_opp in H. simpl (inject_Z 1) in H.
  assert (H2 : (inject_Z (Qceiling (p / tick)) + - 1) * tick < (p / tick) * tick).
  { apply Qmult_lt_compat_r; auto. }
  rewrite E in H2. lra.
Qed.

Lemma round_on_grid tick b p : 0 < tick -> exists k : Z, round_price tick b p == inject_Z k * tick.
Proof.
  intros Ht. unfold round_price. destruct (on_grid tick p) eqn:E.
  - apply on_grid_spec in E; auto.
  - exists (tick_level tick b p). apply qmul_eq.
Qed.

Lemma buy_rounds_down tick p : 0 < tick ->
  round_price tick true p <= p /\ p - tick < round_price tick true p.
Proof.
  intros Ht. unfold round_price. destruct (on_grid tick p).
  - split; lra.
  - unfold tick_level. rewrite qmul_eq. split; [apply floor_mul_le | apply floor_mul_gt]; auto.
Qed.

Lemma sell_rounds_up tick p : 0 < tick ->
  p <= round_price tick false p /\ round_price tick false p < p + tick.
Proof.
  intros Ht. unfold round_price. destruct (on_grid tick p).
  - split; lra.
  - unfold tick_level. rewrite qmul_eq. split; [apply ceil_mul_ge | apply ceil_mul_lt]; auto.
Qed.

(* off the grid the move is strict: the accepted price differs from the submitted one *)
Lemma off_grid_moves tick b p : 0 < tick -> on_grid tick p = false -> ~ round_price tick b p == p.
Proof.
  intros Ht E C. assert (G : on_grid tick p = true).
  { apply on_grid_spec; auto. destruct (round_on_grid tick b p Ht) as [k Hk]. exists k. rewrite <- C. exact Hk. }
  congruence.
Qed.

(* rounding is idempotent: an accepted price is on the grid and would be accepted unchanged *)
Lemma round_idempotent tick b b' p : 0 < tick ->
  round_price tick b' (round_price tick b p) = round_price tick b p.
Proof.
  intros Ht. apply on_grid_unchanged. apply on_grid_spec; auto. apply round_on_grid; auto.
Qed.
