(* Local (per-occurrence) laws of the Level-S model: hook dispatch (C13), price-limit clipping (C15),
   index value (C17), shocks (C14), and corollaries of the run-level invariants (C09/C16). *)
Require Import Pams.Prelude Pams.Tick Pams.Match Pams.Market Pams.MatchQ Pams.MarketInv Pams.MarketExec Pams.MarketPost
               Pams.Sim Pams.SimLift Pams.SimInv.
From RecordUpdate Require Import RecordSet.
Import RecordSetNotations.
From Coq Require Import Lqa Permutation.
Open Scope Z_scope.

(* ---------------- C09 / C16 corollaries ---------------- *)
Lemma tagged_fill_has_round tr : tagged tr -> forall r x, In (EvTruth r x) tr -> is_fill r = true ->
  exists mk sid, In (EvRound mk true sid) tr /\ fill_on mk r.
Proof.
  induction 1 as [|e tr He Ht IH|logs mk run sid tr Hf Hl Ht IH]; intros r x Hin Hr.
  - destruct Hin.
  - destruct Hin as [E|Hin].
    + subst e. rewrite (He r x eq_refl) in Hr. discriminate.
    + destruct (IH _ _ Hin Hr) as [mk [sid [I F]]]. exists mk, sid. split; auto. right; auto.
  - apply in_app_iff in Hin. destruct Hin as [Hin|[Hin|Hin]].
    + apply in_rev in Hin. apply in_map_iff in Hin. destruct Hin as [r0 [E I0]]. inversion E; subst.
      destruct Hl as [E0|E0]; [subst logs; destruct I0|subst run]. exists mk, sid. split.
      * apply in_app_iff. right. left. reflexivity.
      * rewrite Forall_forall in Hf. auto.
    + discriminate.
    + destruct (IH _ _ Hin Hr) as [mk' [sid' [I F]]]. exists mk', sid'. split; auto. apply in_app_iff. right. right. auto.
Qed.

(* Every fill of every run lies in a matching round on its own market, that market was running when the round
   began, and the round took place in a session configured WITH order execution - for every configuration
   (any set of events, trading halt rules included), every runner tape, every agent behaviour. *)
Theorem every_fill_in_a_round_of_an_executing_session c tape batches funds :
  NoDup (map sc_id (c_sessions c)) ->
  let s := run c tape batches funds in
  forall r x, In (EvTruth r x) (events_of s) -> is_fill r = true ->
  exists mk sid se, In (EvRound mk true sid) (events_of s) /\ fill_on mk r /\
                    In se (s_sessions s) /\ se_id se = sid /\ se_cfg_exec se = true.
Proof.
  intros Hnd s r x Hin Hr. destruct (switch_inv_run c tape batches funds Hnd) as [_ [_ [_ [C [_ T]]]]].
  unfold events_of in *. apply in_rev in Hin.
  destruct (tagged_fill_has_round _ T r x Hin Hr) as [mk [sid [I F]]].
  destruct (C _ _ _ I) as [se [I1 [E1 C1]]]. exists mk, sid, se. repeat split; auto. apply -> in_rev. exact I.
Qed.

(* the configured flag of a session never changes *)
Lemma mk_sessions_cfg l : forall start x, In x (mk_sessions l start) -> exists c, In c l /\ sc_id c = se_id x /\ sc_exec c = se_cfg_exec x.
Proof.
  induction l as [|c r IH]; simpl; intros start x H; [destruct H|]. destruct H as [<-|H].
  - exists c. auto.
  - destruct (IH _ _ H) as [c' [I [E1 E2]]]. exists c'. auto.
Qed.

(* ---------------- C13: dispatch ---------------- *)
Definition time_ok (t : Z) (h : hook) : bool :=
  match h_times h with None => true | Some l => memz t l end.

Lemma filter_split_perm {A} (p q : A -> bool) (l : list A) :
  (forall x, p x && q x = false) ->
  Permutation (filter p l ++ filter q l) (filter (fun x => p x || q x) l).
Proof.
  intros D. induction l as [|x r IH]; simpl; [constructor|].
  pose proof (D x) as Dx. destruct (p x) eqn:Px, (q x) eqn:Qx; simpl in *; try discriminate.
  - constructor. exact IH.
  - eapply Permutation_trans; [apply Permutation_sym; apply Permutation_middle|]. constructor. exact IH.
  - exact IH.
Qed.

(* For every occurrence (kind, before/after, time) the hooks invoked are - as a multiset - exactly the registered hooks of
   that kind and phase whose time list is absent or contains the occurrence's time: none is missed, none is invoked more
   often than it is registered. *)
Theorem dispatch_exact s k before t :
  Permutation (hooks_for s k before t) (filter (fun h => hook_matches k before h && time_ok t h) (s_hooks s)).
Proof.
  unfold hooks_for. eapply Permutation_trans; [apply filter_split_perm|].
  - intros h. destruct (hook_matches k before h); simpl; auto. destruct (h_times h); simpl; auto.
  - erewrite filter_ext; [apply Permutation_refl|]. intros h. unfold time_ok.
    destruct (hook_matches k before h); simpl; auto. destruct (h_times h) as [l|]; simpl; auto.
Qed.

(* the always-hooks are dispatched before the timed ones, each group in registration order *)
Theorem dispatch_order s k before t :
  hooks_for s k before t =
  filter (fun h => hook_matches k before h && match h_times h with None => true | Some _ => false end) (s_hooks s) ++
  filter (fun h => hook_matches k before h && match h_times h with None => false | Some l => memz t l end) (s_hooks s).
Proof. reflexivity. Qed.

Lemma memz_In x l : memz x l = true <-> In x l.
Proof.
  unfold memz. rewrite existsb_exists. split.
  - intros [y [Hy E]]. apply Z.eqb_eq in E. subst. auto.
  - intros H. exists x. split; auto. apply Z.eqb_refl.
Qed.

Lemma dedup_times_In x l : In x (dedup_times l) <-> In x l.
Proof.
  unfold dedup_times.
  assert (G : forall l acc, In x (fold_left (fun acc t => if memz t acc then acc else acc ++ [t]) l acc) <-> In x acc \/ In x l).
  { clear. induction l as [|y r IH]; simpl; intros acc; [tauto|]. rewrite IH.
    destruct (memz y acc) eqn:E.
    - apply memz_In in E. split; [tauto|]. intros [H|[->|H]]; auto.
    - rewrite in_app_iff. simpl. tauto. }
  rewrite G. simpl. tauto.
Qed.

(* a time list with repeated entries registers the hook once per distinct time: it fires exactly when a hook with the
   duplicate-free list would *)
Theorem repeated_times_do_not_duplicate h t : time_ok t (norm_hook h) = time_ok t h.
Proof.
  unfold time_ok, norm_hook. simpl. destruct (h_times h) as [l|]; auto.
  destruct (memz t l) eqn:E.
  - apply memz_In. apply dedup_times_In. apply memz_In. exact E.
  - destruct (memz t (dedup_times l)) eqn:E2; auto. apply (proj1 (memz_In _ _)) in E2. apply (proj1 (dedup_times_In _ _)) in E2.
    apply (proj2 (memz_In _ _)) in E2. congruence.
Qed.

(* the hook table is fixed at setup: nothing that happens during a run registers, removes or reorders hooks *)
Lemma log_events_hooks l : forall s0, s_hooks (fold_left (fun s r => log_event s r []) l s0) = s_hooks s0.
Proof. induction l as [|r rest IH]; simpl; intros; auto. rewrite IH. reflexivity. Qed.
Lemma fail_hooks s e : s_hooks (fail s e) = s_hooks s.
Proof. unfold fail. destruct (s_err s); reflexivity. Qed.

Theorem hook_table_fixed c tape batches funds :
  s_hooks (run c tape batches funds) = s_hooks (init_sim c tape batches funds).
Proof.
  set (h0 := s_hooks (init_sim c tape batches funds)).
  apply (run_pres (fun s => s_hooks s = h0)).
  - intros s e H. rewrite fail_hooks. exact H.
  - intros s e _ H. exact H.
  - apply callback_from_emit; [intros s e H; rewrite fail_hooks; exact H|intros s a kind r hold sw run H; exact H].
  - intros s kind mkid x _ H. exact H.
  - intros s e _ H. exact H.
  - intros s mkid x ag mk buy p v ttlv m' rc tag _ _ H. exact H.
  - intros s mkid x i m' rc _ _ H. exact H.
  - intros s mkid x _ _ H. exact H.
  - intros s mkid x m' logs _ _ _ _ H. unfold do_fills. cbn. rewrite log_events_hooks. exact H.
  - apply tick_all_pres.
    + intros s e H. rewrite fail_hooks. exact H.
    + intros s x f m' recs _ _ H. unfold do_tick. rewrite log_events_hooks. exact H.
  - intros s H. unfold pop_perm. destruct (s_tape s) as [|[l|q] r]; simpl; rewrite ?fail_hooks; auto.
  - intros s H. unfold pop_draw. destruct (s_tape s) as [|[l|q] r]; simpl; rewrite ?fail_hooks; auto.
  - intros s aid H. unfold consult. destruct (s_batches s) as [|[a b] r]; simpl; rewrite ?fail_hooks; auto.
    destruct (a =? aid); simpl; rewrite ?fail_hooks; auto.
  - intros s eid H. exact H.
  - intros s e mkid _ _ H. unfold halt_after_execution. destruct (es_kind e); auto.
    destruct (find_mkt mkid (s_markets s)) as [m|]; [|rewrite fail_hooks; auto].
    destruct (mprice_at m 0); [|rewrite fail_hooks; auto].
    destruct (mprice_at m (mtime m)); [|rewrite fail_hooks; auto].
    destruct (negb _); auto. destruct (_ && _); auto.
  - intros s e x _ _ H. unfold halt_before_step. destruct (es_kind e); auto. destruct (_ && _); auto.
    destruct (es_halted e) as [[hm hs]|]; auto. destruct (negb _); auto. destruct (hs =? s_cur s); auto.
  - intros s e x _ H. unfold shock_before_step. destruct (es_kind e); auto.
    destruct (negb _); [rewrite fail_hooks; auto|].
    destruct (negb _); [rewrite fail_hooks; auto|].
    destruct (geto _ _); auto. rewrite fail_hooks; auto.
  - intros s sid H. exact H.
  - intros s H. exact H.
  - reflexivity.
Qed.

(* ---------------- C15: the price limit band ---------------- *)
Open Scope Q_scope.
Lemma qmin_spec a b : (qmin a b == a /\ a <= b) \/ (qmin a b == b /\ b < a).
Proof.
  unfold qmin. destruct (qltb b a) eqn:E.
  - right. apply qltb_lt in E. split; auto. reflexivity.
  - left. apply qltb_ge in E. split; auto. reflexivity.
Qed.
Lemma qmax_spec a b : (qmax a b == a /\ b <= a) \/ (qmax a b == b /\ a < b).
Proof.
  unfold qmax. destruct (qltb a b) eqn:E.
  - right. apply qltb_lt in E. split; auto. reflexivity.
  - left. apply qltb_ge in E. split; auto. reflexivity.
Qed.

(* whatever the submitted price, the price after the rule lies in [p0 (1 - r), p0 (1 + r)] *)
Theorem limited_price_in_band ref rate p : 0 <= ref -> 0 <= rate ->
  ref * (1 - rate) <= limited_price ref rate p /\ limited_price ref rate p <= ref * (1 + rate).
Proof.
  intros Href Hrate. unfold limited_price, one_plus.
  assert (Hrr : 0 <= ref * rate) by (apply Qmult_le_0_compat; auto).
  set (lo := qmul ref (qsub (1#1) rate)). set (hi := qmul ref (qadd (1#1) rate)).
  assert (Hlo : lo == ref - ref * rate) by (unfold lo; rewrite qmul_eq, qsub_eq; ring).
  assert (Hhi : hi == ref + ref * rate) by (unfold hi; rewrite qmul_eq, qadd_eq; ring).
  assert (L1 : ref * (1 - rate) == ref - ref * rate) by ring.
  assert (L2 : ref * (1 + rate) == ref + ref * rate) by ring.
  rewrite L1, L2.
  destruct (qleb (qabs (qmul ref rate)) (qabs (qsub p ref))) eqn:E.
  - destruct (qmin_spec (qmax p lo) hi) as [[E1 H1]|[E1 H1]]; destruct (qmax_spec p lo) as [[E2 H2]|[E2 H2]];
      rewrite E1; rewrite ?E2 in *; split; lra.
  - assert (L : ~ qabs (qmul ref rate) <= qabs (qsub p ref)).
    { intro C. apply qleb_le in C. congruence. }
    apply Qnot_le_lt in L. unfold qabs in L. rewrite qmul_eq, qsub_eq in L.
    rewrite (Qabs_pos (ref * rate)) in L by auto. apply Qabs_Qlt_condition in L. split; lra.
Qed.

(* prices strictly inside the band are not touched *)
Theorem limited_price_inside_unchanged ref rate p : 0 <= ref -> 0 <= rate ->
  ref * (1 - rate) < p -> p < ref * (1 + rate) -> limited_price ref rate p = p.
Proof.
  intros Href Hrate H1 H2. unfold limited_price.
  assert (Hrr : 0 <= ref * rate) by (apply Qmult_le_0_compat; auto).
  assert (L1 : ref * (1 - rate) == ref - ref * rate) by ring.
  assert (L2 : ref * (1 + rate) == ref + ref * rate) by ring.
  rewrite L1 in H1. rewrite L2 in H2.
  destruct (qleb (qabs (qmul ref rate)) (qabs (qsub p ref))) eqn:E; auto.
  exfalso. apply qleb_le in E. unfold qabs in E. rewrite qmul_eq, qsub_eq in E.
  rewrite (Qabs_pos (ref * rate)) in E by auto.
  assert (L : Qabs (p - ref) < ref * rate) by (apply Qabs_Qlt_condition; split; lra). lra.
Qed.
Open Scope Z_scope.

(* an order for a market that is not a target passes the rule unchanged, and the rule never fails on it *)
Theorem price_limit_ignores_non_targets s h e targets rate tag ag mk buy p v ttlv :
  find_event (h_ev h) (s_events s) = Some e -> es_kind e = KPriceLimit targets rate -> memz mk targets = false ->
  before_order_effect s h (RNew tag ag mk buy p v ttlv) = (s, RNew tag ag mk buy p v ttlv).
Proof. intros Fe K Hm. unfold before_order_effect. rewrite Fe, K, Hm. reflexivity. Qed.

(* a market order passes unchanged; a limit order on a target gets the clipped price and nothing else changes *)
Theorem price_limit_on_target s h e targets rate tag ag mk buy p v ttlv x ref :
  find_event (h_ev h) (s_events s) = Some e -> es_kind e = KPriceLimit targets rate -> memz mk targets = true ->
  find_mkt mk (s_markets s) = Some x -> mprice_at x 0 = Some ref ->
  before_order_effect s h (RNew tag ag mk buy p v ttlv) =
  (s, RNew tag ag mk buy (match p with Some pr => Some (limited_price ref rate pr) | None => None end) v ttlv).
Proof. intros Fe K Hm Fx Hp. unfold before_order_effect. rewrite Fe, K, Hm, Fx, Hp. destruct p; reflexivity. Qed.

(* ---------------- C14: the order-mistake shock ---------------- *)
Theorem mistake_only_first_order_of_target s h e target off rate vol ttl' tag ag mk buy p v ttlv :
  find_event (h_ev h) (s_events s) = Some e -> es_kind e = KMistake target off rate vol ttl' ->
  (mk <> target \/ es_spent e = true) ->
  before_order_effect s h (RNew tag ag mk buy p v ttlv) = (s, RNew tag ag mk buy p v ttlv).
Proof.
  intros Fe K H. unfold before_order_effect. rewrite Fe, K. destruct (mk =? target) eqn:E; simpl; auto.
  apply Z.eqb_eq in E. destruct H as [H|H]; [contradiction|]. rewrite H. reflexivity.
Qed.

Theorem mistake_rewrites_order s h e target off rate vol ttl' tag ag buy p v ttlv x base :
  find_event (h_ev h) (s_events s) = Some e -> es_kind e = KMistake target off rate vol ttl' -> es_spent e = false ->
  find_mkt target (s_markets s) = Some x -> mprice_at x (mtime x) = Some base ->
  snd (before_order_effect s h (RNew tag ag target buy p v ttlv)) =
    RNew tag ag target (qltb (0#1) rate) (Some (qmul base (one_plus rate))) vol (Some ttl') /\
  exists e', find_event (es_id e) (s_events (fst (before_order_effect s h (RNew tag ag target buy p v ttlv)))) = Some e' /\ es_spent e' = true.
Proof.
  intros Fe K Sp Fx Hb. unfold before_order_effect. rewrite Fe, K, Z.eqb_refl, Sp, Fx, Hb. simpl. split; auto.
  clear - Fe. revert Fe. generalize (h_ev h). intros i. induction (s_events s) as [|y r IH]; simpl; [discriminate|].
  destruct (es_id y =? i) eqn:E.
  - intros H; injection H as ->. rewrite Z.eqb_refl. simpl. rewrite Z.eqb_refl. eexists. split; reflexivity.
  - intros H. destruct (es_id y =? es_id e) eqn:E2.
    + simpl. rewrite E2. eexists. split; reflexivity.
    + simpl. rewrite E2. apply IH. exact H.
Qed.

(* ---------------- C17: the index value ---------------- *)
Fixpoint sum_q (l : list Q) : Q := match l with [] => 0#1 | x :: r => (x + sum_q r)%Q end.
Fixpoint sum_z (l : list Z) : Z := match l with [] => 0 | x :: r => x + sum_z r end.

(* the value computed for an index market is the average of its components' values weighted by their
   outstanding shares: (sum_i p_i * s_i) / (sum_i s_i) *)
Theorem index_is_share_weighted_average s comps get x : wavg s comps get = Some x ->
  exists l : list (Q * Z),
    Forall2 (fun i pz => exists c, find_mkt i (s_markets s) = Some c /\ get c = Some (fst pz) /\ mk_shares c = snd pz) comps l /\
    sum_z (map snd l) <> 0 /\
    (x == sum_q (map (fun pz => fst pz * inject_Z (snd pz)) l) / inject_Z (sum_z (map snd l)))%Q.
Proof.
  unfold wavg.
  set (step := fun (acc : option (Q * Z)) (i : Z) =>
    match acc, find_mkt i (s_markets s) with
    | Some (tv, ts), Some c => match get c with
                               | Some p => Some (qadd tv (qmul p (qofz (mk_shares c))), ts + mk_shares c)
                               | None => None
                               end
    | _, _ => None
    end).
  assert (Hnone : forall l, fold_left step l None = None).
  { induction l as [|i r IH]; simpl; auto. }
  assert (G : forall comps tv ts tv' ts', fold_left step comps (Some (tv, ts)) = Some (tv', ts') ->
    exists l : list (Q * Z),
      Forall2 (fun i pz => exists c, find_mkt i (s_markets s) = Some c /\ get c = Some (fst pz) /\ mk_shares c = snd pz) comps l /\
      ts' = ts + sum_z (map snd l) /\
      (tv' == tv + sum_q (map (fun pz => fst pz * inject_Z (snd pz)) l))%Q).
  { clear x. induction comps0 as [|i r IH]; simpl; intros tv ts tv' ts' H.
    - inversion H; subst. exists []. split; [apply Forall2_nil|]. split; [simpl; lia|simpl; ring].
    - destruct (find_mkt i (s_markets s)) as [c|] eqn:Fc; [|rewrite Hnone in H; discriminate].
      destruct (get c) as [p|] eqn:Gc; [|rewrite Hnone in H; discriminate].
      destruct (IH _ _ _ _ H) as [l [F [Ez Eq]]]. exists ((p, mk_shares c) :: l). split; [|split].
      + apply Forall2_cons; auto. exists c. auto.
      + simpl. lia.
      + simpl. rewrite Eq, qadd_eq, qmul_eq. unfold qofz. ring. }
  destruct (fold_left step comps (Some (0#1, 0))) as [[tv ts]|] eqn:E; [|discriminate].
  destruct (ts =? 0) eqn:Ez; [discriminate|]. apply Z.eqb_neq in Ez. intros H. inversion H; subst.
  destruct (G _ _ _ _ _ E) as [l [F [Hz Hq]]]. exists l. split; auto. simpl in Hz. subst ts. split; auto.
  rewrite qdiv_eq, Hq. unfold qofz. simpl. field. intro C.
  unfold Qeq in C. simpl in C. lia.
Qed.

(* ---------------- C05: one fill conserves cash and shares ---------------- *)
Definition total_cash (l : list agent) : Q := sum_q (map a_cash l).
Definition asset_of (mk : Z) (a : agent) : Z := match assoc mk (a_assets a) with Some v => v | None => 0 end.
Definition total_asset (mk : Z) (l : list agent) : Z := sum_z (map (asset_of mk) l).

Lemma total_cash_upd i f l a :
  NoDup (map a_id l) -> find_agent i l = Some a ->
  (total_cash (upd_agent i f l) == total_cash l + (a_cash (f a) - a_cash a))%Q.
Proof.
  unfold total_cash, upd_agent. induction l as [|y r IH]; simpl; intros Hn Hf; [discriminate|].
  inversion Hn as [|? ? Hni Hnr]; subst. destruct (a_id y =? i) eqn:E.
  - injection Hf as ->. apply Z.eqb_eq in E.
    assert (R : map a_cash (map (fun x => if a_id x =? i then f x else x) r) = map a_cash r).
    { rewrite map_map. apply map_ext_in. intros z Hz. destruct (a_id z =? i) eqn:Ez; auto.
      apply Z.eqb_eq in Ez. exfalso. apply Hni. rewrite E, <- Ez. apply in_map. auto. }
    rewrite R. ring.
  - rewrite (IH Hnr Hf). ring.
Qed.

Lemma upd_agent_ids i f l : (forall a, a_id (f a) = a_id a) -> map a_id (upd_agent i f l) = map a_id l.
Proof. intros Hf. unfold upd_agent. rewrite map_map. apply map_ext. intros a. destruct (a_id a =? i); auto. Qed.

Lemma find_agent_upd i j f l : (forall a, a_id (f a) = a_id a) ->
  find_agent j (upd_agent i f l) = option_map (fun a => if a_id a =? i then f a else a) (find_agent j l).
Proof.
  intros Hf. unfold upd_agent. induction l as [|y r IH]; simpl; auto.
  destruct (a_id y =? i) eqn:E.
  - rewrite Hf. destruct (a_id y =? j); simpl; [rewrite E; reflexivity|exact IH].
  - destruct (a_id y =? j); simpl; [rewrite E; reflexivity|exact IH].
Qed.

Lemma total_asset_upd mk i f l a :
  NoDup (map a_id l) -> find_agent i l = Some a ->
  total_asset mk (upd_agent i f l) = total_asset mk l + (asset_of mk (f a) - asset_of mk a).
Proof.
  unfold total_asset, upd_agent. induction l as [|y r IH]; simpl; intros Hn Hf; [discriminate|].
  inversion Hn as [|? ? Hni Hnr]; subst. destruct (a_id y =? i) eqn:E.
  - injection Hf as ->. apply Z.eqb_eq in E.
    assert (R : map (asset_of mk) (map (fun x => if a_id x =? i then f x else x) r) = map (asset_of mk) r).
    { rewrite map_map. apply map_ext_in. intros z Hz. destruct (a_id z =? i) eqn:Ez; auto.
      apply Z.eqb_eq in Ez. exfalso. apply Hni. rewrite E, <- Ez. apply in_map. auto. }
    rewrite R. lia.
  - rewrite (IH Hnr Hf). lia.
Qed.

Lemma assoc_add_asset mk mk' v l :
  assoc mk (add_asset mk' v l) = match assoc mk l with Some w => Some (if mk =? mk' then w + v else w) | None => None end.
Proof.
  unfold add_asset. induction l as [|[k w] r IH]; simpl; auto.
  destruct (k =? mk') eqn:E1; simpl; destruct (k =? mk) eqn:E2; auto; destruct (mk =? mk') eqn:E3; auto; exfalso;
    rewrite ?Z.eqb_eq, ?Z.eqb_neq in *; lia.
Qed.

Definition holds (mk : Z) (a : agent) : Prop := assoc mk (a_assets a) <> None.

Lemma asset_of_add m mk v a : holds mk a ->
  asset_of m (a <| a_assets := add_asset mk v (a_assets a) |>) = asset_of m a + (if m =? mk then v else 0) /\
  holds mk (a <| a_assets := add_asset mk v (a_assets a) |>).
Proof.
  unfold holds, asset_of. cbn. intros H. rewrite !assoc_add_asset. split.
  - destruct (assoc m (a_assets a)) eqn:E; destruct (m =? mk) eqn:E2; try lia.
    apply Z.eqb_eq in E2. subst. congruence.
  - destruct (assoc mk (a_assets a)); [discriminate|congruence].
Qed.

Lemma cash_only_assets (f : agent -> agent) :
  (forall a, a_assets (f a) = a_assets a) -> forall m a, asset_of m (f a) = asset_of m a.
Proof. intros H m a. unfold asset_of. rewrite H. reflexivity. Qed.

(* One fill between two agents who both hold an account for the fill's market moves price x volume of cash from the buyer
   to the seller and volume shares from the seller to the buyer: total cash and the total number of shares of every
   market are unchanged (also for a self-trade), and nobody else's holdings are touched. *)
Theorem fill_conserves_cash_and_shares ags mk t ba sa bi si p v b s :
  NoDup (map a_id ags) -> find_agent ba ags = Some b -> find_agent sa ags = Some s -> holds mk b -> holds mk s ->
  let ags' := apply_fill_holdings ags (RExec mk t ba sa bi si p v) in
  (total_cash ags' == total_cash ags)%Q /\ (forall m, total_asset m ags' = total_asset m ags) /\
  map a_id ags' = map a_id ags.
Proof.
  intros Hn Fb Fs Hb Hs. cbv zeta. unfold apply_fill_holdings.
  set (amt := qmul p (qofz v)).
  set (f1 := fun a : agent => a <| a_cash := qsub (a_cash a) amt |>).
  set (f2 := fun a : agent => a <| a_cash := qadd (a_cash a) amt |>).
  set (f3 := fun a : agent => a <| a_assets := add_asset mk v (a_assets a) |>).
  set (f4 := fun a : agent => a <| a_assets := add_asset mk (- v) (a_assets a) |>).
  assert (I1 : forall a, a_id (f1 a) = a_id a) by reflexivity.
  assert (I2 : forall a, a_id (f2 a) = a_id a) by reflexivity.
  assert (I3 : forall a, a_id (f3 a) = a_id a) by reflexivity.
  assert (I4 : forall a, a_id (f4 a) = a_id a) by reflexivity.
  set (l1 := upd_agent ba f1 ags). set (l2 := upd_agent sa f2 l1). set (l3 := upd_agent ba f3 l2). set (l4 := upd_agent sa f4 l3).
  assert (N1 : NoDup (map a_id l1)) by (unfold l1; rewrite upd_agent_ids; auto).
  assert (N2 : NoDup (map a_id l2)) by (unfold l2; rewrite upd_agent_ids; auto).
  assert (N3 : NoDup (map a_id l3)) by (unfold l3; rewrite upd_agent_ids; auto).
  (* the accounts found at each stage keep their asset tables up to the share transfer *)
  destruct (find_agent sa l1) as [s1|] eqn:F1; [|unfold l1 in F1; rewrite find_agent_upd, Fs in F1 by auto; discriminate].
  assert (A1 : a_assets s1 = a_assets s).
  { unfold l1 in F1. rewrite find_agent_upd, Fs in F1 by auto. simpl in F1. injection F1 as <-. destruct (a_id s =? ba); reflexivity. }
  destruct (find_agent ba l2) as [b2|] eqn:F2;
    [|unfold l2, l1 in F2; rewrite !find_agent_upd, Fb in F2 by auto; discriminate].
  assert (A2 : a_assets b2 = a_assets b).
  { unfold l2, l1 in F2. rewrite !find_agent_upd, Fb in F2 by auto. simpl in F2. injection F2 as <-.
    destruct (a_id b =? ba); destruct (a_id _ =? sa); reflexivity. }
  destruct (find_agent sa l3) as [s3|] eqn:F3;
    [|unfold l3, l2, l1 in F3; rewrite !find_agent_upd, Fs in F3 by auto; discriminate].
  assert (A3 : holds mk s3).
  { unfold l3, l2, l1 in F3. rewrite !find_agent_upd, Fs in F3 by auto. simpl in F3. injection F3 as <-.
    assert (Hadd : holds mk (f3 s)) by (destruct (asset_of_add mk mk v s Hs) as [_ X]; exact X).
    unfold holds in *.
    repeat match goal with |- context [if ?c then _ else _] => destruct c end; simpl; auto. }
  assert (Hb2 : holds mk b2) by (unfold holds; rewrite A2; exact Hb).
  split; [|split].
  - unfold l4. rewrite (total_cash_upd sa f4 l3 s3 N3 F3). unfold l3. rewrite (total_cash_upd ba f3 l2 b2 N2 F2).
    unfold l2. rewrite (total_cash_upd sa f2 l1 s1 N1 F1). unfold l1. rewrite (total_cash_upd ba f1 ags b Hn Fb).
    assert (D1 : (a_cash (f1 b) - a_cash b == - amt)%Q).
    { unfold f1. change (a_cash (b <| a_cash := qsub (a_cash b) amt |>)) with (qsub (a_cash b) amt). rewrite qsub_eq. ring. }
    assert (D2 : (a_cash (f2 s1) - a_cash s1 == amt)%Q).
    { unfold f2. change (a_cash (s1 <| a_cash := qadd (a_cash s1) amt |>)) with (qadd (a_cash s1) amt). rewrite qadd_eq. ring. }
    assert (D3 : (a_cash (f3 b2) - a_cash b2 == 0)%Q) by (unfold f3; change (a_cash (b2 <| a_assets := add_asset mk v (a_assets b2) |>)) with (a_cash b2); ring).
    assert (D4 : (a_cash (f4 s3) - a_cash s3 == 0)%Q) by (unfold f4; change (a_cash (s3 <| a_assets := add_asset mk (- v) (a_assets s3) |>)) with (a_cash s3); ring).
    rewrite D1, D2, D3, D4. ring.
  - intros m. unfold l4. rewrite (total_asset_upd m sa f4 l3 s3 N3 F3). unfold l3. rewrite (total_asset_upd m ba f3 l2 b2 N2 F2).
    unfold l2. rewrite (total_asset_upd m sa f2 l1 s1 N1 F1). unfold l1. rewrite (total_asset_upd m ba f1 ags b Hn Fb).
    destruct (asset_of_add m mk (- v) s3 A3) as [E4 _]. destruct (asset_of_add m mk v b2 Hb2) as [E3 _].
    unfold f4, f3. rewrite E4, E3.
    rewrite (cash_only_assets f2 (fun a => eq_refl) m s1), (cash_only_assets f1 (fun a => eq_refl) m b).
    destruct (m =? mk); lia.
  - unfold l4, l3, l2, l1. rewrite !upd_agent_ids; auto.
Qed.

(* ---------------- C11: notifications of a round ---------------- *)
Lemma log_events_agents l : forall s0, s_agents (fold_left (fun s r => log_event s r []) l s0) = s_agents s0.
Proof. induction l as [|r rest IH]; simpl; intros; auto. rewrite IH. reflexivity. Qed.

Lemma fail_agents s e : s_agents (fail s e) = s_agents s.
Proof. unfold fail. destruct (s_err s); reflexivity. Qed.

Lemma callback_agents s a k r m : s_agents (callback s a k r m) = s_agents s.
Proof.
  unfold callback. destruct (find_agent a (s_agents s)); [|apply fail_agents].
  destruct (find_mkt m (s_markets s)); [reflexivity|apply fail_agents].
Qed.

Lemma halt_after_agents s e mkid : s_agents (halt_after_execution s e mkid) = s_agents s.
Proof. destruct (halt_after_fields s e mkid) as [_ [_ A]]. exact A. Qed.

Lemma fire_exec_after_agents s t mkid extra : s_agents (fire_exec_after s t mkid extra) = s_agents s.
Proof.
  unfold fire_exec_after. generalize (hooks_for s HExec false t). intros l. revert s.
  induction l as [|h r IH]; simpl; intros s; auto. rewrite IH.
  destruct (negb (ok s)); auto. destruct (find_event (h_ev h) (s_events s)) as [e|]; auto.
  destruct (es_kind e); auto. apply halt_after_agents.
Qed.

Lemma notify_fill_agents s mkid r : s_agents (notify_fill s mkid r) = s_agents s.
Proof.
  unfold notify_fill. destruct r; auto. unfold guard.
  repeat match goal with |- context [if ok ?x then _ else _] => destruct (ok x) end;
    rewrite ?fire_exec_after_agents, ?callback_agents; reflexivity.
Qed.

(* Holdings are updated for the WHOLE round before anybody is notified: at every notification of the round the agents'
   holdings are the pre-round holdings folded with all of the round's fills, and notifying changes no holdings. *)
Theorem round_updates_holdings_before_notifying s mkid x m' logs :
  find_mkt mkid (s_markets s) = Some x -> cur_switch s = true -> execution (mk_m x) = Ok (m', logs) ->
  forall pre post, logs = pre ++ post ->
  s_agents (fold_left (fun s r => notify_fill s mkid r) pre (do_fills (emit s (EvRound mkid (m_running (mk_m x)) (s_cur s))) mkid m' logs))
  = fold_left apply_fill_holdings logs (s_agents s).
Proof.
  intros Fx Sw Ex pre post Hl.
  assert (G : forall l s0, s_agents (fold_left (fun s r => notify_fill s mkid r) l s0) = s_agents s0).
  { induction l as [|r rest IH]; simpl; intros; auto. rewrite IH. apply notify_fill_agents. }
  rewrite G. unfold do_fills. cbn. rewrite log_events_agents. reflexivity.
Qed.

(* what one notification emits: the buyer's callback, then the seller's (twice to the same agent for a self-trade),
   each carrying the fill's record and the agent's holdings at that moment *)
Theorem notify_fill_emits s mkid mk t ba sa bi si p v b sl x :
  ok s = true -> find_agent ba (s_agents s) = Some b -> find_agent sa (s_agents s) = Some sl ->
  find_mkt mkid (s_markets s) = Some x ->
  let r := RExec mk t ba sa bi si p v in
  exists s2, notify_fill s mkid r = guard s2 (fun s => fire_exec_after s t mkid [VZ bi; VZ si]) /\
    s_trace s2 = EvCallback (a_id sl) 3 r (holdings_ov sl) (cur_switch s) (m_running (mk_m x)) ::
                 EvCallback (a_id b) 3 r (holdings_ov b) (cur_switch s) (m_running (mk_m x)) :: s_trace s /\
    s_agents s2 = s_agents s /\ s_err s2 = s_err s.
Proof.
  intros Hok Fb Fs Fx. cbv zeta. unfold notify_fill.
  set (r := RExec mk t ba sa bi si p v).
  assert (E1 : guard s (fun s => callback s ba 3 r mkid) =
               emit s (EvCallback (a_id b) 3 r (holdings_ov b) (cur_switch s) (m_running (mk_m x)))).
  { unfold guard, callback. rewrite Hok, Fb, Fx. reflexivity. }
  rewrite E1. set (s1 := emit s _).
  assert (E2 : guard s1 (fun s => callback s sa 3 r mkid) =
               emit s1 (EvCallback (a_id sl) 3 r (holdings_ov sl) (cur_switch s) (m_running (mk_m x)))).
  { unfold guard, callback. change (ok s1) with (ok s). change (s_agents s1) with (s_agents s).
    change (s_markets s1) with (s_markets s). rewrite Hok, Fs, Fx. reflexivity. }
  rewrite E2. eexists. split; [reflexivity|]. repeat split.
Qed.

(* ---------------- C09: rounds and consultations ---------------- *)
Lemma notify_fill_trace_grows mkid : forall l s0, round_ctx mkid s0 ->
  exists tr, s_trace (fold_left (fun s r => notify_fill s mkid r) l s0) = tr ++ s_trace s0.
Proof.
  induction l as [|r rest IH]; simpl; intros s0 C0; [exists []; reflexivity|].
  destruct (IH (notify_fill s0 mkid r) (round_ctx_notify _ _ _ C0)) as [tr Htr]. rewrite Htr.
  assert (N : exists tr1, s_trace (notify_fill s0 mkid r) = tr1 ++ s_trace s0).
  { apply (notify_fill_pres (fun s1 => exists tr1, s_trace s1 = tr1 ++ s_trace s0)); auto.
    - intros s1 e _ [t1 H1]. exists (e :: t1). cbn. rewrite H1. reflexivity.
    - apply callback_from_emit.
      + intros s1 e [t1 H1]. exists t1. unfold fail. destruct (s_err s1); auto.
      + intros s1 a kind r1 hold sw run [t1 H1]. eexists (_ :: t1). cbn. rewrite H1. reflexivity.
    - intros s1 e mk _ _ [t1 H1]. exists t1. destruct (halt_after_fields s1 e mk) as [T _]. rewrite T. auto.
    - exists []. reflexivity. }
  destruct N as [tr1 Htr1]. rewrite Htr1. exists (tr ++ tr1). rewrite app_assoc. reflexivity.
Qed.

(* a matching round follows an accepted request exactly when the session's execution switch is on *)
Theorem round_iff_switch_on s mkid :
  (cur_switch s = false -> run_round s mkid = s) /\
  (cur_switch s = true -> forall x, find_mkt mkid (s_markets s) = Some x ->
     exists tr, s_trace (run_round s mkid) = tr ++ EvRound mkid (m_running (mk_m x)) (s_cur s) :: s_trace s).
Proof.
  split.
  - intros H. unfold run_round. rewrite H. reflexivity.
  - intros H x Fx. unfold run_round. rewrite H, Fx. simpl.
    destruct (execution (mk_m x)) as [[m' logs]|e].
    + destruct (notify_fill_trace_grows mkid logs (do_fills (emit s (EvRound mkid (m_running (mk_m x)) (s_cur s))) mkid m' logs))
        as [tr Htr]; [apply round_ctx_do_fills; exact H|].
      rewrite Htr. unfold do_fills. cbn.
      destruct (log_events_trace logs (set_market (emit s (EvRound mkid (m_running (mk_m x)) (s_cur s))) mkid m')) as [T _].
      cbv zeta in T. rewrite T. cbn. eexists. rewrite app_assoc. reflexivity.
    + exists []. unfold fail. destruct (s_err _); reflexivity.
Qed.

(* in a session without order placement the step consults nobody: the order phase is skipped altogether *)
Theorem no_placement_no_order_phase s se :
  ok s = true -> cur_sess (fold_left step_begin (mids s) s) = Some se -> se_place se = false ->
  one_step s = (let s1 := fold_left step_begin (mids s) s in
                if negb (ok s1) then s1 else
                let s2 := fold_left step_end (mids s1) s1 in if negb (ok s2) then s2 else tick_all s2).
Proof.
  intros Hok Hc Hp. unfold one_step. rewrite Hok. simpl. cbv zeta. rewrite Hc, Hp.
  destruct (negb (ok (fold_left step_begin (mids s) s))); reflexivity.
Qed.

(* normal agents: [collect] walks the permuted agent list once and never returns more than cap batches *)
Theorem collect_respects_cap : forall ags s cap n acc,
  Z.of_nat (length acc) <= n ->
  Z.of_nat (length (snd (collect s ags cap n acc))) <= Z.max n cap.
Proof.
  induction ags as [|a rest IH]; simpl; intros s cap n acc Hl; [lia|].
  destruct (negb (ok s)); simpl; [lia|]. destruct (n >=? cap) eqn:E; simpl; [lia|].
  rewrite Z.geb_leb in E. apply Z.leb_gt in E.
  destruct (consult s (a_id a)) as [s1 b]. destruct (negb (ok s1)); simpl; [lia|].
  destruct b as [|r0 b']; [eapply Z.le_trans; [apply IH; auto|lia]|].
  destruct (spoofed (a_id a) (r0 :: b')); simpl; [lia|].
  eapply Z.le_trans; [apply IH; rewrite app_length; simpl; lia|lia].
Qed.

(* every batch that [collect] keeps is non-empty and is its own agent's (no spoofed owner) *)
Theorem collect_batches_wellformed : forall ags s cap n acc,
  Forall (fun b => b <> []) acc -> Forall (fun b => b <> []) (snd (collect s ags cap n acc)).
Proof.
  induction ags as [|a rest IH]; simpl; intros s cap n acc Ha; auto.
  destruct (negb (ok s)); simpl; auto. destruct (n >=? cap); simpl; auto.
  destruct (consult s (a_id a)) as [s1 b]. destruct (negb (ok s1)); simpl; auto.
  destruct b as [|r0 b']; [apply IH; auto|].
  destruct (spoofed (a_id a) (r0 :: b')); simpl; auto. apply IH. apply Forall_app. split; auto. constructor; auto. discriminate.
Qed.


(* ---------------- C14: registration and effect of the shocks ---------------- *)
Theorem shock_hooks e trigger :
  (ec_enabled e = false -> hooks_of_event e trigger = []) /\
  (forall target off rate vol ttl', ec_enabled e = true -> ec_kind e = KMistake target off rate vol ttl' ->
     hooks_of_event e trigger = [mkH (ec_id e) HOrder true (Some [trigger]) None false]) /\
  (forall target off len rate, ec_enabled e = true -> ec_kind e = KFundShock target off len rate ->
     hooks_of_event e trigger =
       [mkH (ec_id e) HMarket true (Some (map (fun i => trigger + Z.of_nat i) (seq 0 (Z.to_nat len)))) (Some target) false]).
Proof.
  unfold hooks_of_event. repeat split.
  - intros ->. reflexivity.
  - intros target off rate vol ttl' -> ->. reflexivity.
  - intros target off len rate -> ->. reflexivity.
Qed.

Fixpoint starts_from (l : list sconf) (acc : Z) : list Z :=
  match l with [] => [] | c :: r => acc :: starts_from r (acc + sc_steps c) end.
Theorem session_starts_accumulate l : forall start, map se_start (mk_sessions l start) = starts_from l start.
Proof. induction l as [|c r IH]; simpl; intros; auto. f_equal. apply IH. Qed.

Theorem fund_shock_effect s e x target off len rate f :
  es_kind e = KFundShock target off len rate -> m_id (mk_m x) = target ->
  es_trigger e <= mtime x < es_trigger e + len -> geto (m_fund (mk_m x)) (mtime x) = Some f ->
  shock_before_step s e x =
  set_market s target ((mk_m x) <| m_fund := upd (m_fund (mk_m x)) (zi (mtime x)) (Some (qmul f (one_plus rate))) |>).
Proof.
  intros K Hid Hw Hf. unfold shock_before_step. rewrite K.
  assert (W : (es_trigger e <=? mtime x) && (mtime x <? es_trigger e + len) = true).
  { apply andb_true_intro. split; [apply Z.leb_le|apply Z.ltb_lt]; lia. }
  rewrite W, Hid, Z.eqb_refl, Hf. reflexivity.
Qed.

(* the trigger time of an event = start of ITS session + configured offset *)
Theorem trigger_counts_from_session_start ss e x :
  find_sess (ec_session e) ss = Some x -> ev_trigger ss e = se_start x + ev_offset (ec_kind e).
Proof. intros H. unfold ev_trigger. rewrite H. reflexivity. Qed.

(* ---------------- C15 + C19: band after tick rounding ---------------- *)
Theorem band_after_rounding ref rate p tick buy :
  (0 <= ref)%Q -> (0 <= rate)%Q -> (0 < tick)%Q ->
  (ref * (1 - rate) - tick < round_price tick buy (limited_price ref rate p) /\
   round_price tick buy (limited_price ref rate p) < ref * (1 + rate) + tick)%Q.
Proof.
  intros Href Hrate Htick. destruct (limited_price_in_band ref rate p Href Hrate) as [L H].
  destruct buy.
  - destruct (buy_rounds_down tick (limited_price ref rate p) Htick) as [A B]. split; lra.
  - destruct (sell_rounds_up tick (limited_price ref rate p) Htick) as [A B]. split; lra.
Qed.

(* ---------------- C16: the trading halt rule ---------------- *)
(* the halt decision after a fill on a running target market whose price deviates from its time-0 price by at least
   rate x (halts so far + 1): the market stops at once, the session's execution switch goes off, the halt is counted and
   remembered with its market, time and session *)
Theorem halt_trigger s e mkid targets rate len x ref now :
  es_kind e = KHalt targets rate len -> find_mkt mkid (s_markets s) = Some x ->
  mprice_at x 0 = Some ref -> mprice_at x (mtime x) = Some now -> m_running (mk_m x) = true -> memz mkid targets = true ->
  (Qabs (qmul (qmul ref rate) (qofz (es_count e + 1))) <= Qabs (qsub ref now))%Q ->
  halt_after_execution s e mkid =
    (let s1 := set_market s mkid ((mk_m x) <| m_running := false |>) in
     let s2 := s1 <| s_sessions := upd_sess (s_cur s1) (fun z => z <| se_exec := false |>) (s_sessions s1) |> in
     s2 <| s_events := upd_event (es_id e)
              (fun e => e <| es_started := mtime x |> <| es_count := es_count e + 1 |> <| es_halted := Some (mkid, s_cur s2) |>)
              (s_events s2) |>).
Proof.
  intros K Fx H0 Hn Hr Ht Hd. unfold halt_after_execution. rewrite K, Fx, H0, Hn, Hr. cbn [negb].
  assert (Q1 : qleb (qabs (qmul (qmul ref rate) (qofz (es_count e + 1)))) (qabs (qsub ref now)) = true) by (apply qleb_le; exact Hd).
  rewrite Q1, Ht. reflexivity.
Qed.

(* below the line, on a stopped market, or on a market that is not a target: nothing happens *)
Theorem halt_no_trigger s e mkid targets rate len x ref now :
  es_kind e = KHalt targets rate len -> find_mkt mkid (s_markets s) = Some x ->
  mprice_at x 0 = Some ref -> mprice_at x (mtime x) = Some now ->
  (m_running (mk_m x) = false \/ memz mkid targets = false \/
   (Qabs (qsub ref now) < Qabs (qmul (qmul ref rate) (qofz (es_count e + 1))))%Q) ->
  halt_after_execution s e mkid = s.
Proof.
  intros K Fx H0 Hn H. unfold halt_after_execution. rewrite K, Fx, H0, Hn.
  destruct (m_running (mk_m x)) eqn:R; cbn [negb]; auto.
  destruct H as [H|[H|H]]; [discriminate| |].
  - rewrite H, andb_false_r. reflexivity.
  - assert (Q1 : qleb (qabs (qmul (qmul ref rate) (qofz (es_count e + 1)))) (qabs (qsub ref now)) = false).
    { destruct (qleb _ _) eqn:E; auto. apply qleb_le in E. unfold qabs in E. exfalso. eapply Qlt_not_le; eauto. }
    rewrite Q1. reflexivity.
Qed.

(* resumption test at the step begin of the halted market: once the clock has passed halt time + length, the market runs
   again and the execution switch is restored - if the session in which it was halted is still the current one; otherwise
   the halt is just forgotten (the new session has already set the running flags from its own configuration) *)
Theorem halt_resume s e x targets rate len hs :
  es_kind e = KHalt targets rate len -> memz (m_id (mk_m x)) targets = true ->
  mtime x > es_started e + len -> es_halted e = Some (m_id (mk_m x), hs) ->
  halt_before_step s e x =
    (let s1 := if hs =? s_cur s then
                 (set_market s (m_id (mk_m x)) ((mk_m x) <| m_running := true |>))
                   <| s_sessions := upd_sess (s_cur s) (fun z => z <| se_exec := true |>) (s_sessions s) |>
               else s in
     s1 <| s_events := upd_event (es_id e) (fun e => e <| es_halted := None |> <| es_started := 0 |>) (s_events s1) |>).
Proof.
  intros K Ht Hl Hh. unfold halt_before_step. rewrite K, Ht, Hh.
  assert (G : mtime x >? es_started e + len = true) by (apply Z.gtb_lt; lia). rewrite G, Z.eqb_refl. cbn [andb negb].
  destruct (hs =? s_cur s); reflexivity.
Qed.

(* during the halt (and at any other time) nothing changes before the clock has passed halt time + length *)
Theorem halt_holds s e x targets rate len :
  es_kind e = KHalt targets rate len -> mtime x <= es_started e + len -> halt_before_step s e x = s.
Proof.
  intros K Hl. unfold halt_before_step. rewrite K.
  assert (G : mtime x >? es_started e + len = false) by (rewrite Z.gtb_ltb; apply Z.ltb_ge; lia). rewrite G. reflexivity.
Qed.

(* orders can still be placed while a market is stopped: acceptance does not look at the running flag *)
Theorem orders_accepted_while_stopped m ag buy p v ttlv :
  0 <= m_time m -> exists m' r, add_order m ag (m_id m) buy p v ttlv = Ok (m', r).
Proof.
  intros Ht. unfold add_order. destruct (m_time m <? 0) eqn:E; [apply Z.ltb_lt in E; lia|].
  rewrite Z.eqb_refl. simpl. eauto.
Qed.
