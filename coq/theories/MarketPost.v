(* C03: what holds after a matching round of the Level-M model. *)
Require Import Pams.Prelude Pams.Tick Pams.Match Pams.Market Pams.MatchQ Pams.MarketInv.
Open Scope Z_scope.

(* a round that returns leaves no executable pair (the model evaluates the code's own
   post-condition and maps its failure to Err EAssertPost) *)
Lemma execution_post m m' logs : execution m = Ok (m', logs) -> executable m' = false.
Proof.
  unfold execution. destruct (executable m) eqn:E; simpl.
  - destruct (run_walk m) as [[p|] fs]; [|discriminate].
    destruct (apply_fills p m fs) as [[m1 lg]|]; [|discriminate]. simpl.
    destruct (executable m1) eqn:E1; [discriminate|]. intros H; inversion H; subst; auto.
  - intros H; inversion H; subst; auto.
Qed.

(* "not executable", when both sides are non-empty and at least one best order is a limit order,
   means: both best orders are limit orders and best bid < best ask (strictly) *)
Lemma not_executable_uncrossed m b bs s ss :
  executable m = false -> m_buys m = b :: bs -> m_sells m = s :: ss ->
  (price b <> None \/ price s <> None) ->
  exists pb ps, price b = Some pb /\ price s = Some ps /\ (pb < ps)%Q.
Proof.
  unfold executable, executable_b. intros H Hb Hs Hl. rewrite Hb, Hs in H.
  destruct (price s) as [ps|] eqn:Es, (price b) as [pb|] eqn:Eb; try discriminate.
  - exists pb, ps. repeat split; auto. unfold qleb in H.
    apply Qnot_le_lt. intro C. apply Qle_bool_iff in C. congruence.
  - destruct Hl; congruence.
Qed.

Theorem round_clears_book m m' logs b bs s ss :
  execution m = Ok (m', logs) -> m_buys m' = b :: bs -> m_sells m' = s :: ss ->
  (price b <> None \/ price s <> None) ->
  exists pb ps, price b = Some pb /\ price s = Some ps /\ (pb < ps)%Q.
Proof. intros H. apply not_executable_uncrossed. eapply execution_post; eauto. Qed.

(* the only refusals of a round on a stopped market: the state is left as it was (step maps Err to
   "state unchanged") and the refusal is the documented one *)
Lemma execution_not_running_refused m :
  m_running m = false -> executable m = true -> (exists p fs f, run_walk m = (Some p, f :: fs)) ->
  execution m = Err EAssertNotRunning.
Proof.
  intros Hr He [p [fs [f Hw]]]. unfold execution. rewrite He, Hw. simpl.
  unfold apply_fill. destruct f. rewrite Hr. reflexivity.
Qed.

(* no fill is ever produced by a market that is not running *)
Lemma apply_fills_running p fs : forall m m' rs,
  apply_fills p m fs = Ok (m', rs) -> rs <> [] -> m_running m = true.
Proof.
  destruct fs as [|f r]; simpl; intros m m' rs H Hne.
  - inversion H; subst; congruence.
  - unfold apply_fill in H. destruct f. destruct (m_running m); auto. simpl in H. discriminate.
Qed.

Theorem no_fill_when_not_running m m' logs :
  execution m = Ok (m', logs) -> logs <> [] -> m_running m = true.
Proof.
  unfold execution. destruct (negb (executable m)).
  - intros H; inversion H; subst; congruence.
  - destruct (run_walk m) as [[p|] fs]; [|discriminate].
    destruct (apply_fills p m fs) as [[m1 lg]|] eqn:E; [|discriminate]. simpl.
    destruct (executable m1); [discriminate|]. intros H; inversion H; subst.
    eapply apply_fills_running; eauto.
Qed.
