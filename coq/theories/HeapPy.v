(* Static prelude of the eighteenth translator (harness/py2coq_book.py): the queue of an OrderBook as heapq uses it - a list together with
   the fact whether it currently IS a heap - and the primitives the source calls on it.  The contract of heapq (trusted, Python's
   library): on a list that is a heap, [0] and heappop give the least element for `<` (the orders' own comparison, tied to the model's
   ranking by the first translator) and heappush keeps it a heap; heapify makes any list a heap; list.remove and a list display keep the
   elements but in general not the heap shape - after them nothing is known about [0] until heapify runs. *)
Require Import Pams.Prelude Pams.Match Pams.Market Pams.OrderPy Pams.ExpirePy.
From RecordUpdate Require Import RecordSet.
Import RecordSetNotations.
Open Scope Z_scope.

Record hq := mkHq { items : list O; is_heap : bool }.
Record book := mkBook { b_side : bool; b_time : Z; b_q : hq; b_tbl : xtable }.
Definition bq_set (b : book) (q : hq) : book := mkBook (b_side b) (b_time b) q (b_tbl b).
Definition btbl_set (b : book) (t : xtable) : book := mkBook (b_side b) (b_time b) (b_q b) t.

(* the elements by priority: what the model keeps *)
Definition by_priority (l : list O) : list O := fold_right insert [] l.

Definition hpush (o : O) (h : hq) : hq := mkHq (o :: items h) (is_heap h).
Definition hheapify (h : hq) : hq := mkHq (items h) true.
Definition hassign (l : list O) : hq := mkHq l false.
Definition htop (h : hq) : result O :=
  if is_heap h then match by_priority (items h) with x :: _ => Ok x | [] => Err EIndex end
  else Err EAssertWalk.          (* [0] of a list that is not known to be a heap: unspecified *)
Definition hpop (h : hq) : result (O * hq) :=
  do x <- htop h; Ok (x, mkHq (remove_id (oid x) (items h)) true).
Definition hmem (o : O) (h : hq) : bool := match find_id (oid o) (items h) with Some _ => true | None => false end.
Definition hremove (o : O) (h : hq) : result hq :=      (* list.remove: ValueError when absent *)
  if hmem o h then Ok (mkHq (remove_id (oid o) (items h)) false) else Err EIndex.
Definition hupdate (o : O) (h : hq) : hq := mkHq (set_vol (oid o) (vol o) (items h)) (is_heap h).   (* a field outside the ranking changed in place *)
Definition hlen (h : hq) : Z := Z.of_nat (length (items h)).

(* Order.__eq__ on two accepted orders of one side: same id, price, accept time *)
Definition oeq (a b : O) : bool :=
  (oid a =? oid b) && (match price a, price b with Some x, Some y => qeqb x y | None, None => true | _, _ => false end) && (placed a =? placed b).

Definition with_placed (o : O) (t : Z) : O := mkO (oid o) (agent o) (mkt o) (isbuy o) (price o) (vol o) t (ttl o).

(* the expiry index: dict operations *)
Definition xhas (k : Z) (t : xtable) : bool := existsb (fun kv => fst kv =? k) t.
Definition xset (k : Z) (v : list O) (t : xtable) : xtable :=
  if xhas k t then map (fun kv => if fst kv =? k then (k, v) else kv) t else t ++ [(k, v)].
Definition xappend (k : Z) (o : O) (t : xtable) : result xtable :=      (* d[k].append(o): KeyError when k is absent *)
  if xhas k t then Ok (xset k (xget k t ++ [o]) t) else Err EIndex.
Definition xunfile (k : Z) (o : O) (t : xtable) : result xtable :=     (* d[k].remove(o): KeyError / ValueError when absent *)
  if xhas k t then (if existsb (fun x => oid x =? oid o) (xget k t) then Ok (xset k (remove_id (oid o) (xget k t)) t) else Err EIndex)
  else Err EIndex.

(* ---- the model's view commutes with the primitives ---- *)
Lemma by_priority_push o l : by_priority (o :: l) = insert o (by_priority l).
Proof. reflexivity. Qed.

(* ---- removal commutes with the view by priority (one side, distinct ids) ---- *)
Require Import Pams.MatchQ Pams.MarketInv.
From Coq Require Import Sorted Lia.

Lemma insert_before (x : O) (L : list O) : (forall z, In z L -> oltq x z = true) -> insert x L = x :: L.
Proof. destruct L as [|y r]; intros H; [reflexivity|]. cbn [insert]. rewrite (H y (or_introl eq_refl)). reflexivity. Qed.

Lemma remove_insert_eq (x : O) i (L : list O) : oid x = i -> ~ In i (map (@oid Q) L) -> remove_id i (insert x L) = L.
Proof.
  intros Hx. induction L as [|y r IH]; intros Hn; cbn [insert remove_id].
  - rewrite Hx, Z.eqb_refl. reflexivity.
  - destruct (oltq x y).
    + cbn [remove_id]. rewrite Hx, Z.eqb_refl. reflexivity.
    + cbn [remove_id]. destruct (oid y =? i) eqn:E.
      * apply Z.eqb_eq in E. exfalso. apply Hn. left. exact E.
      * f_equal. apply IH. intros H. apply Hn. right. exact H.
Qed.

Lemma remove_insert_ne side (x : O) i (L : list O) : sortedq L -> Forall (fun z : O => isbuy z = side) L -> isbuy x = side ->
  oid x <> i -> remove_id i (insert x L) = insert x (remove_id i L).
Proof.
  intros Hs Hside Hx Hne. induction L as [|y r IH]; cbn [insert remove_id].
  - destruct (oid x =? i) eqn:E; [apply Z.eqb_eq in E; contradiction|reflexivity].
  - apply StronglySorted_inv in Hs. destruct Hs as [Hs' Hy]. pose proof (Forall_inv Hside) as Sy. pose proof (Forall_inv_tail Hside) as Sr.
    cbn beta in Sy.
    destruct (oltq x y) eqn:E.
    + cbn [remove_id]. destruct (oid x =? i) eqn:E2; [apply Z.eqb_eq in E2; contradiction|].
      symmetry. apply insert_before. intros z Hz.
      assert (Hz' : In z (y :: r)) by (eapply In_remove_id; exact Hz). destruct Hz' as [<-|Hz']; [exact E|].
      rewrite Forall_forall in Hy, Sr. apply (oltq_trans x y z); [rewrite Hx, Sy; reflexivity|rewrite Sy, (Sr z Hz'); reflexivity|exact E|exact (Hy z Hz')].
    + cbn [remove_id]. destruct (oid y =? i) eqn:E2; [reflexivity|]. cbn [insert]. rewrite E. f_equal. apply IH; assumption.
Qed.

Lemma by_priority_In (l : list O) x : In x (by_priority l) <-> In x l.
Proof. induction l as [|y r IH]; [reflexivity|]. cbn [by_priority fold_right]. rewrite In_insert. fold (by_priority r). rewrite IH. cbn. intuition. Qed.

Lemma by_priority_sorted side (l : list O) : Forall (fun z : O => isbuy z = side) l -> NoDup (map (@oid Q) l) -> sortedq (by_priority l).
Proof.
  induction l as [|y r IH]; intros Hside Hnd; [constructor|].
  inversion Hside as [|? ? Sy Sr]; subst. cbn [map] in Hnd. apply NoDup_cons_iff in Hnd. destruct Hnd as [Hn Hnd].
  cbn [by_priority fold_right]. fold (by_priority r). apply (insert_sorted y (by_priority r) (isbuy y)); auto.
  - rewrite Forall_forall in *. intros z Hz. apply Sr. apply by_priority_In. exact Hz.
  - rewrite Forall_forall. intros z Hz E. apply Hn. apply in_map_iff. exists z. split; [exact E|]. apply by_priority_In. exact Hz.
Qed.

(* the model's remove_id on its sorted list is what removal from the queue looks like in the view by priority *)
Theorem by_priority_remove side i (l : list O) : Forall (fun z : O => isbuy z = side) l -> NoDup (map (@oid Q) l) ->
  by_priority (remove_id i l) = remove_id i (by_priority l).
Proof.
  induction l as [|y r IH]; intros Hside Hnd; [reflexivity|].
  inversion Hside as [|? ? Sy Sr]; subst. cbn [map] in Hnd. apply NoDup_cons_iff in Hnd. destruct Hnd as [Hn Hnd].
  cbn [remove_id]. destruct (oid y =? i) eqn:E.
  - apply Z.eqb_eq in E. cbn [by_priority fold_right]. fold (by_priority r). symmetry. apply remove_insert_eq; [exact E|].
    intros H. apply Hn. rewrite E. apply in_map_iff in H. destruct H as [z [Ez Hz]]. apply in_map_iff. exists z. split; [exact Ez|].
    apply by_priority_In. exact Hz.
  - cbn [by_priority fold_right]. fold (by_priority r) (by_priority (remove_id i r)). rewrite (IH Sr Hnd).
    symmetry. apply (remove_insert_ne (isbuy y)); auto.
    + apply (by_priority_sorted (isbuy y)); assumption.
    + rewrite Forall_forall in *. intros z Hz. apply Sr. apply by_priority_In. exact Hz.
    + intros H. rewrite H, Z.eqb_refl in E. discriminate.
Qed.

(* ---- the expiry index: what the dict operations do to its entries ---- *)
Lemma xhas_in (k : Z) (t : xtable) : xhas k t = true <-> exists l, In (k, l) t.
Proof.
  unfold xhas. rewrite existsb_exists. split.
  - intros [[k' l] [Hi E]]. cbn in E. apply Z.eqb_eq in E. subst k'. exists l. exact Hi.
  - intros [l Hi]. exists (k, l). split; [exact Hi|cbn; apply Z.eqb_refl].
Qed.

Lemma xget_entry (k : Z) (t : xtable) x : In x (xget k t) -> exists l, In (k, l) t /\ In x l.
Proof.
  unfold xget. destruct (find (fun kv => fst kv =? k) t) as [[k' l]|] eqn:E; [|intros []].
  apply find_some in E. destruct E as [Hi E]. cbn in E. apply Z.eqb_eq in E. subst k'. cbn [snd]. intros Hx. exists l. auto.
Qed.

Lemma xset_entries (k0 : Z) v (t : xtable) k l : In (k, l) (xset k0 v t) -> (k = k0 /\ l = v) \/ (In (k, l) t /\ k <> k0).
Proof.
  unfold xset. destruct (xhas k0 t) eqn:E.
  - intros H. apply in_map_iff in H. destruct H as [[k' l'] [E2 Hi]]. cbn [fst] in E2. destruct (k' =? k0) eqn:E3.
    + inversion E2; subst. left. auto.
    + inversion E2; subst. right. split; [exact Hi|]. apply Z.eqb_neq. exact E3.
  - intros H. apply in_app_iff in H. destruct H as [H|[H|[]]].
    + right. split; [exact H|]. intros ->. assert (xhas k0 t = true) by (apply xhas_in; exists l; exact H). congruence.
    + inversion H; subst. left. auto.
Qed.

Lemma NoDup_snoc {A} (l : list A) x : NoDup l -> ~ In x l -> NoDup (l ++ [x]).
Proof.
  induction l as [|y r IH]; intros ND Hn; cbn [app]; [constructor; [intros []|constructor]|].
  apply NoDup_cons_iff in ND. destruct ND as [Hy ND]. constructor.
  - intros H. apply in_app_iff in H. destruct H as [H|[H|[]]]; [exact (Hy H)|]. subst. apply Hn. left. reflexivity.
  - apply IH; [exact ND|]. intros H. apply Hn. right. exact H.
Qed.

Lemma xset_keys (k0 : Z) v (t : xtable) : NoDup (map fst t) -> NoDup (map fst (xset k0 v t)).
Proof.
  intros ND. unfold xset. destruct (xhas k0 t) eqn:E.
  - rewrite map_map. erewrite map_ext; [exact ND|]. intros [k l]. cbn [fst]. destruct (k =? k0) eqn:E2; [apply Z.eqb_eq in E2; subst; reflexivity|reflexivity].
  - rewrite map_app. cbn [map fst]. apply NoDup_snoc; [exact ND|]. intros H. apply in_map_iff in H. destruct H as [[k l] [E2 Hi]].
    cbn in E2. subst k. assert (xhas k0 t = true) by (apply xhas_in; exists l; exact Hi). congruence.
Qed.

Lemma xset_has (k0 : Z) v (t : xtable) : In (k0, v) (xset k0 v t).
Proof.
  unfold xset. destruct (xhas k0 t) eqn:E.
  - apply xhas_in in E. destruct E as [l Hi]. apply in_map_iff. exists (k0, l). cbn [fst]. rewrite Z.eqb_refl. auto.
  - apply in_app_iff. right. left. reflexivity.
Qed.
