(* Static prelude of the eighteenth translator (harness/py2coq_book.py): the queue of an OrderBook as heapq uses it - a list together with
   the fact whether it currently IS a heap - and the primitives the source calls on it.  The contract of heapq (trusted, Python's
   library): on a list that is a heap, [0] and heappop give the least element for `<` (the orders' own comparison, tied to the model's
   ranking by the first translator) and heappush keeps it a heap; heapify makes any list a heap; list.remove and a list display keep the
   elements but in general not the heap shape - after them nothing is known about [0] until heapify runs. *)
Require Import Pams.Prelude Pams.Match Pams.Market Pams.OrderPy Pams.ExpirePy.
From RecordUpdate Require Import RecordSet.
Import RecordSetNotations.
Open Scope Z_scope.

Record hq := mkHq { items : list O; is_heap : bool }.
Record book := mkBook { b_side : bool; b_time : Z; b_q : hq; b_tbl : xtable }.
Definition bq_set (b : book) (q : hq) : book := mkBook (b_side b) (b_time b) q (b_tbl b).
Definition btbl_set (b : book) (t : xtable) : book := mkBook (b_side b) (b_time b) (b_q b) t.

(* the elements by priority: what the model keeps *)
Definition by_priority (l : list O) : list O := fold_right insert [] l.

Definition hpush (o : O) (h : hq) : hq := mkHq (o :: items h) (is_heap h).
Definition hheapify (h : hq) : hq := mkHq (items h) true.
Definition hassign (l : list O) : hq := mkHq l false.
Definition htop (h : hq) : result O :=
  if is_heap h then match by_priority (items h) with x :: _ => Ok x | [] => Err EIndex end
  else Err EAssertWalk.          (* [0] of a list that is not known to be a heap: unspecified *)
Definition hpop (h : hq) : result (O * hq) :=
  do x <- htop h; Ok (x, mkHq (remove_id (oid x) (items h)) true).
Definition hmem (o : O) (h : hq) : bool := match find_id (oid o) (items h) with Some _ => true | None => false end.
Definition hremove (o : O) (h : hq) : result hq :=      (* list.remove: ValueError when absent *)
  if hmem o h then Ok (mkHq (remove_id (oid o) (items h)) false) else Err EIndex.
Definition hupdate (o : O) (h : hq) : hq := mkHq (set_vol (oid o) (vol o) (items h)) (is_heap h).   (* a field outside the ranking changed in place *)
Definition hlen (h : hq) : Z := Z.of_nat (length (items h)).

(* Order.__eq__ on two accepted orders of one side: same id, price, accept time *)
Definition oeq (a b : O) : bool :=
  (oid a =? oid b) && (match price a, price b with Some x, Some y => qeqb x y | None, None => true | _, _ => false end) && (placed a =? placed b).

Definition with_placed (o : O) (t : Z) : O := mkO (oid o) (agent o) (mkt o) (isbuy o) (price o) (vol o) t (ttl o).

(* the expiry index: dict operations *)
Definition xhas (k : Z) (t : xtable) : bool := existsb (fun kv => fst kv =? k) t.
Definition xset (k : Z) (v : list O) (t : xtable) : xtable :=
  if xhas k t then map (fun kv => if fst kv =? k then (k, v) else kv) t else t ++ [(k, v)].
Definition xappend (k : Z) (o : O) (t : xtable) : result xtable :=      (* d[k].append(o): KeyError when k is absent *)
  if xhas k t then Ok (xset k (xget k t ++ [o]) t) else Err EIndex.
Definition xunfile (k : Z) (o : O) (t : xtable) : result xtable :=     (* d[k].remove(o): KeyError / ValueError when absent *)
  if xhas k t then (if existsb (fun x => oid x =? oid o) (xget k t) then Ok (xset k (remove_id (oid o) (xget k t)) t) else Err EIndex)
  else Err EIndex.

(* ---- the model's view commutes with the primitives ---- *)
Lemma by_priority_push o l : by_priority (o :: l) = insert o (by_priority l).
Proof. reflexivity. Qed.
