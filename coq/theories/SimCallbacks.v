(* C11 (run level): the stream of agent callbacks of a whole run IS, record by record, what the accepted orders, accepted
   cancels and fills of that run call for: the owner of each accepted order once, the owner of each cancelled order once,
   buyer then seller of each fill once - and nothing else.  For every configuration, every tape of runner decisions,
   every agent behaviour (normal and high-frequency), every delivered fundamental path. *)
Require Import Pams.Prelude Pams.Tick Pams.Match Pams.Market Pams.MatchQ Pams.MarketInv Pams.MarketLife
               Pams.Sim Pams.SimLift Pams.SimInv Pams.SimClock.
From RecordUpdate Require Import RecordSet.
Import RecordSetNotations.
Open Scope Z_scope.

Definition cbt := (Z * Z * record)%type.          (* agent, kind (1 submitted, 2 canceled, 3 executed), the record handed over *)
Definition cb_of (e : event) : list cbt := match e with EvCallback a k r _ _ _ => [(a, k, r)] | _ => [] end.
Definition cbs (l : list event) : list cbt := flat_map cb_of l.
(* what a record calls for *)
Definition expect (r : record) : list cbt :=
  match r with
  | ROrder o => [(Match.agent o, 1, r)]
  | Market.RCancel o _ => [(Match.agent o, 2, r)]
  | RExec _ _ ba sa _ _ _ _ => [(ba, 3, r); (sa, 3, r)]
  | RExpire _ _ => []
  end.
Definition expected (rs : list record) : list cbt := flat_map expect rs.

Local Arguments cbs : simpl never.
Local Arguments expected : simpl never.

Lemma cbs_app a b : cbs (a ++ b) = cbs a ++ cbs b. Proof. apply flat_map_app. Qed.
Lemma expected_app a b : expected (a ++ b) = expected a ++ expected b. Proof. apply flat_map_app. Qed.
Lemma cbs_one e : cbs [e] = cb_of e. Proof. unfold cbs. simpl. apply app_nil_r. Qed.
Lemma expected_one r : expected [r] = expect r. Proof. unfold expected. simpl. apply app_nil_r. Qed.

(* the logger's pending queue never holds a callback or a ground-truth event *)
Definition pend_ok (s : sim) : Prop := cbs (s_pending s) = [] /\ truths (s_pending s) = [].

(* [told owed s]: unless the run has failed, the callbacks made so far followed by the ones still owed are exactly what the
   records born so far call for *)
Definition told (owed : list cbt) (s : sim) : Prop :=
  pend_ok s /\ (ok s = true -> cbs (events_of s) ++ owed = expected (truths (events_of s))).

Lemma ok_of_fail s e : ok (fail s e) = false.
Proof. unfold fail, ok. destruct (s_err s) eqn:E; cbn; rewrite ?E; reflexivity. Qed.

Lemma told_fail owed owed' s e : told owed s -> told owed' (fail s e).
Proof.
  intros [Pd _]. split.
  - unfold pend_ok in *. destruct (fail_fields s e) as [_ [-> _]]. exact Pd.
  - intros C. rewrite ok_of_fail in C. discriminate.
Qed.

Lemma told_same owed s s' : s_trace s' = s_trace s -> s_pending s' = s_pending s -> (ok s' = true -> ok s = true) ->
  told owed s -> told owed s'.
Proof. unfold told, pend_ok, events_of. intros -> -> O [Pd H]. split; auto. Qed.

Lemma told_keeps owed s s' : s_trace s' = s_trace s -> s_pending s' = s_pending s -> keeps s s' -> told owed s -> told owed s'.
Proof. intros T Pd [_ O]. apply told_same; auto. Qed.

Lemma told_emit owed s e : cb_of e = [] -> truth_of e = [] -> told owed s -> told owed (emit s e).
Proof.
  unfold told, pend_ok, events_of, emit, ok. cbn. intros Hc Ht [Pd H]. split; auto. intros C.
  rewrite cbs_app, truths_app, cbs_one, truths_one, Hc, Ht, !app_nil_r. apply H. exact C.
Qed.

Lemma told_log owed s r extra : told owed s -> told (owed ++ expect r) (log_event s r extra).
Proof.
  unfold told, pend_ok, events_of, log_event, write, emit, ok. cbn. intros [[P1 P2] H]. split.
  - rewrite cbs_app, truths_app, P1, P2, cbs_one, truths_one. auto.
  - intros C. rewrite cbs_app, truths_app, cbs_one, truths_one. cbn [cb_of truth_of]. rewrite app_nil_r, expected_app, expected_one.
    rewrite app_assoc. f_equal. apply H. exact C.
Qed.

Lemma told_logs rs : forall owed s, told owed s -> told (owed ++ expected rs) (fold_left (fun s r => log_event s r []) rs s).
Proof.
  induction rs as [|r rest IH]; simpl; intros owed s H.
  - unfold expected. simpl. rewrite app_nil_r. exact H.
  - replace (owed ++ expected (r :: rest)) with ((owed ++ expect r) ++ expected rest).
    + apply IH. apply told_log. exact H.
    + change (r :: rest) with ([r] ++ rest). rewrite expected_app, expected_one, app_assoc. reflexivity.
Qed.

Lemma find_agent_id i l a : find_agent i l = Some a -> a_id a = i.
Proof.
  induction l as [|y r IH]; simpl; [discriminate|]. destruct (a_id y =? i) eqn:E; auto.
  intros H; inversion H; subst. apply Z.eqb_eq. exact E.
Qed.

(* a callback pays the head of what is owed *)
Lemma told_callback owed s aid kind r mkid : told ((aid, kind, r) :: owed) s -> told owed (callback s aid kind r mkid).
Proof.
  intros H. unfold callback. destruct (find_agent aid (s_agents s)) as [a|] eqn:Fa; [|eapply told_fail; eauto].
  destruct (find_mkt mkid (s_markets s)); [|eapply told_fail; eauto].
  rewrite (find_agent_id _ _ _ Fa). destruct H as [Pd H]. split; [exact Pd|].
  unfold events_of, emit, ok in *. cbn. intros C.
  rewrite cbs_app, truths_app, cbs_one, truths_one. cbn [cb_of truth_of]. rewrite app_nil_r, <- app_assoc. simpl. apply H. exact C.
Qed.

(* ---------------- the frame: hooks and bookkeeping neither call back nor give birth to records ---------------- *)
Section Frame.
Variable owed : list cbt.
Let P := told owed.

Lemma T_fail : forall s e, P s -> P (fail s e).
Proof. intros s e H. eapply told_fail; eauto. Qed.
Lemma T_emit : forall s e, obs_event e -> P s -> P (emit s e).
Proof. intros s e He. apply told_emit; destruct e; simpl in He; try contradiction; reflexivity. Qed.
Lemma T_step : forall s kind mkid x, find_mkt mkid (s_markets s) = Some x -> P s -> P (emit s (ev_step s kind x)).
Proof. intros s kind mkid x _. apply told_emit; reflexivity. Qed.
Lemma T_boundary : forall s e, boundary_event e -> P s -> P (flush (write s e)).
Proof.
  intros s e He [[P1 P2] H].
  assert (Ec : cb_of e = [] /\ truth_of e = []) by (destruct e; simpl in He; try contradiction; auto).
  destruct Ec as [Ec Et]. split; [split; reflexivity|].
  unfold events_of, flush, write, ok in *. cbn. intros C.
  rewrite rev_app_distr, !rev_involutive, !cbs_app, !truths_app, P1, P2, cbs_one, truths_one, Ec, Et, !app_nil_r. apply H. exact C.
Qed.
Lemma T_spent : forall s eid, P s -> P (s <| s_events := upd_event eid (fun e => e <| es_spent := true |>) (s_events s) |>).
Proof. intros s eid. apply told_same; auto. Qed.
Lemma T_halt_after : forall s e mkid, In e (s_events s) -> round_ctx mkid s -> P s -> P (halt_after_execution s e mkid).
Proof. intros s e mkid _ _. destruct (halt_after_fields s e mkid) as [T [Pd _]]. apply told_keeps; auto. apply keeps_halt_after. Qed.
Lemma T_halt_before : forall s e x, In e (s_events s) -> find_mkt (m_id (mk_m x)) (s_markets s) = Some x -> P s -> P (halt_before_step s e x).
Proof. intros s e x _ Fx. destruct (halt_before_fields s e x) as [T [Pd _]]. apply told_keeps; auto. apply keeps_halt_before; auto. Qed.
Lemma T_shock : forall s e x, find_mkt (m_id (mk_m x)) (s_markets s) = Some x -> P s -> P (shock_before_step s e x).
Proof. intros s e x Fx. destruct (shock_fields s e x) as [T [Pd _]]. apply told_keeps; auto. apply keeps_shock; auto. Qed.
Lemma T_pop_perm : forall s, P s -> P (fst (pop_perm s)).
Proof. intros s. destruct (pop_perm_fields s) as [T [Pd _]]. apply told_keeps; auto. apply keeps_pop_perm. Qed.
Lemma T_pop_draw : forall s, P s -> P (fst (pop_draw s)).
Proof. intros s. destruct (pop_draw_fields s) as [T [Pd _]]. apply told_keeps; auto. apply keeps_pop_draw. Qed.
Lemma T_consult : forall s aid, P s -> P (fst (consult s aid)).
Proof.
  intros s aid H. unfold consult. destruct (s_batches s) as [|[a b] r]; simpl; [apply T_fail; auto|].
  destruct (a =? aid); simpl; [|apply T_fail; auto].
  apply told_emit; auto.
Qed.
Lemma T_set_cur : forall s sid, P s -> P (s <| s_cur := sid |>).
Proof. intros s sid. apply told_same; auto. Qed.
Lemma T_begin_iteration : forall s, P s -> P (begin_iteration s).
Proof. intros s. apply told_same; auto. Qed.
End Frame.

(* ---------------- one request ---------------- *)
Lemma told_notok owed owed' s : ok s = false -> told owed s -> told owed' s.
Proof. intros O [Pd _]. split; auto. intros C. congruence. Qed.

Lemma told_guard_callback owed s a k r mkid :
  told ((a, k, r) :: owed) s -> told owed (guard s (fun s => callback s a k r mkid)).
Proof.
  intros H. unfold guard. destruct (ok s) eqn:O; [apply told_callback; exact H|]. eapply told_notok; eauto.
Qed.

Lemma told_fire_exec_after owed s t mkid extra : round_ctx mkid s -> told owed s -> told owed (fire_exec_after s t mkid extra).
Proof. apply (fire_exec_after_pres (told owed) (T_emit owed) (T_halt_after owed)). Qed.

Lemma told_fire_simple owed s k before t mkid extra : told owed s -> told owed (fire_simple s k before t mkid extra).
Proof. apply (fire_simple_pres (told owed) (T_emit owed)). Qed.

Lemma told_fire_order_before owed s r t : told owed s -> told owed (fst (fire_order_before s r t)).
Proof. apply (fire_order_before_pres (told owed) (fail_any _ (T_fail owed)) (T_emit owed) (T_spent owed)). Qed.

(* the notification of one fill pays exactly what that fill calls for: buyer, then seller *)
Lemma told_notify rest s mkid r : is_fill r = true -> round_ctx mkid s ->
  told (expect r ++ rest) s -> told rest (notify_fill s mkid r).
Proof.
  intros F C H. destruct r; try discriminate. cbn [expect app] in H. unfold notify_fill.
  set (r := RExec mk time bagent sagent bid sid p v) in *.
  pose proof (told_guard_callback _ _ _ _ _ mkid H) as H1.
  assert (C1 : round_ctx mkid (guard s (fun s => callback s bagent 3 r mkid))).
  { apply round_ctx_guard; auto. intros; apply round_ctx_callback; auto. }
  set (s1 := guard s _) in *.
  pose proof (told_guard_callback _ _ _ _ _ mkid H1) as H2.
  assert (C2 : round_ctx mkid (guard s1 (fun s => callback s sagent 3 r mkid))).
  { apply round_ctx_guard; auto. intros; apply round_ctx_callback; auto. }
  set (s2 := guard s1 _) in *.
  unfold guard at 1. destruct (ok s2); auto. apply told_fire_exec_after; auto.
Qed.

Lemma told_notify_all mkid : forall logs rest s, forallb is_fill logs = true -> round_ctx mkid s ->
  told (expected logs ++ rest) s -> told rest (fold_left (fun s r => notify_fill s mkid r) logs s).
Proof.
  induction logs as [|r more IH]; simpl; intros rest s F C H.
  - exact H.
  - apply andb_true_iff in F. destruct F as [Fr Fm]. apply IH; auto.
    + apply round_ctx_notify. exact C.
    + apply told_notify; auto. change (r :: more) with ([r] ++ more) in H.
      rewrite expected_app, expected_one, <- app_assoc in H. exact H.
Qed.

(* A MATCHING ROUND: all fills are born (and holdings updated), then every fill is told to its buyer and its seller *)
Lemma told_round s mkid : told [] s -> told [] (run_round s mkid).
Proof.
  intros H. unfold run_round. destruct (cur_switch s) eqn:Sw; simpl; auto.
  destruct (find_mkt mkid (s_markets s)) as [x|] eqn:Fx; [|eapply told_fail; eauto].
  assert (H1 : told [] (emit s (EvRound mkid (m_running (mk_m x)) (s_cur s)))) by (apply told_emit; auto).
  destruct (execution (mk_m x)) as [[m' logs]|e] eqn:Ex; [|eapply told_fail; eauto].
  apply told_notify_all.
  - eapply execution_records; eauto.
  - apply round_ctx_do_fills. exact Sw.
  - rewrite app_nil_r. unfold do_fills.
    set (s1 := emit s _) in *.
    assert (H2 : told [] (set_market s1 mkid m')) by (revert H1; apply told_same; auto).
    pose proof (told_logs logs [] _ H2) as H3. simpl in H3.
    revert H3. apply told_same; auto.
Qed.

Lemma told_guard owed s f : (forall s, told owed s -> told owed (f s)) -> told owed s -> told owed (guard s f).
Proof. intros Hf H. unfold guard. destruct (ok s); auto. Qed.

(* ONE REQUEST: an accepted order is told to its owner, an accepted cancel to the owner of the cancelled order, then the
   round's fills to their parties; a rejected request (any exception) ends the run; nothing is owed afterwards *)
Theorem told_request s r : told [] s -> told [] (handle_request s r).
Proof.
  intros H. unfold handle_request. destruct (negb (ok s)); auto.
  destruct (find_mkt (req_market r) (s_markets s)) as [x|] eqn:Fx; [|eapply told_fail; eauto].
  destruct r as [tag ag mk buy p v ttlv|tag ag mk].
  - pose proof (told_fire_order_before [] s (RNew tag ag mk buy p v ttlv) (mtime x) H) as H1.
    destruct (fire_order_before s (RNew tag ag mk buy p v ttlv) (mtime x)) as [s1 r']. simpl in H1.
    destruct (negb (ok s1)); auto.
    destruct r' as [tag' ag' mk' buy' p' v' ttlv'|]; [|eapply told_fail; eauto].
    destruct (find_mkt (req_market (RNew tag ag mk buy p v ttlv)) (s_markets s1)) as [x1|] eqn:Fx1; [|eapply told_fail; eauto].
    destruct (assoc tag' (s_tags s1)); [eapply told_fail; eauto|].
    destruct (add_order (mk_m x1) ag' mk' buy' p' v' ttlv') as [[m' rc]|e] eqn:Ea; [|eapply told_fail; eauto].
    apply told_guard; [intros; apply told_round; auto|].
    apply told_guard; [intros; apply told_fire_simple; auto|].
    apply told_callback.
    destruct (add_order_next _ _ _ _ _ _ _ _ _ Ea) as [_ [_ [o [Er [_ [_ [_ [_ [Eag _]]]]]]]]]. subst rc.
    unfold do_accept_order.
    match goal with |- told _ (log_event ?s0 ?r0 ?ex) => pose proof (told_log [] s0 r0 ex) as G end.
    cbn [expect app] in G. rewrite Eag in G. apply G. revert H1. apply told_same; auto.
  - cbn [req_market] in *.
    pose proof (told_fire_simple [] s HCancel true (mtime x) mk
                  [voz match assoc tag (s_tags s) with Some (_, i) => Some i | None => None end] H) as H1.
    set (s1 := fire_simple s HCancel true (mtime x) mk _) in *.
    destruct (negb (ok s1)); auto.
    destruct (assoc tag (s_tags s)) as [[mm i]|]; [|eapply told_fail; eauto].
    destruct (find_mkt mk (s_markets s1)) as [x1|] eqn:Fx1; [|eapply told_fail; eauto].
    destruct (cancel_order (mk_m x1) i) as [[m' rc]|e] eqn:Ec; [|eapply told_fail; eauto].
    apply told_guard; [intros; apply told_round; auto|].
    apply told_guard; [intros; apply told_fire_simple; auto|].
    apply told_callback.
    destruct (cancel_order_record _ _ _ _ Ec) as [o [ct Er]]. subst rc. cbn [rec_owner].
    unfold do_accept_cancel.
    match goal with |- told _ (log_event ?s0 ?r0 ?ex) => pose proof (told_log [] s0 r0 ex) as G end.
    cbn [expect app] in G. apply G. revert H1. apply told_same; auto.
Qed.

(* ---------------- the clock: expiries are born, nobody is called ---------------- *)
Lemma told_tick_all s : told [] s -> told [] (tick_all s).
Proof.
  apply (tick_all_pres (told [])).
  - apply T_fail.
  - intros s0 x f m' recs _ Et H. unfold do_tick.
    assert (E : expected recs = []).
    { pose proof (tick_records (mk_m x) f) as R. rewrite Et in R. cbn [snd] in R. rewrite R.
      clear. generalize (by_id (filter (expired (m_time (mk_m x) + 1)) (m_buys (mk_m x))) ++
                         by_id (filter (expired (m_time (mk_m x) + 1)) (m_sells (mk_m x)))).
      induction l as [|o r IH]; [reflexivity|]. simpl. change (RExpire o (m_time (mk_m x) + 1) :: ?t) with ([RExpire o (m_time (mk_m x) + 1)] ++ t).
      unfold expected in *. simpl. exact IH. }
    pose proof (told_logs recs [] (set_market s0 (m_id (mk_m x)) m')) as G. rewrite E in G. simpl in G. apply G.
    revert H. apply told_same; auto.
Qed.

(* ---------------- THE WHOLE RUN ---------------- *)
Theorem told_run c tape batches funds : told [] (run c tape batches funds).
Proof.
  apply (run_up (told [])).
  - apply T_fail.
  - apply T_emit.
  - apply T_step.
  - apply T_boundary.
  - apply told_tick_all.
  - apply T_pop_perm.
  - apply T_pop_draw.
  - apply T_consult.
  - apply T_halt_before.
  - apply T_shock.
  - apply T_set_cur.
  - apply T_begin_iteration.
  - apply told_request.
  - split; [split; reflexivity|]. intros _. reflexivity.
Qed.

(* EXACTLY ONCE, TO THE PARTIES, NOTHING ELSE.  In a run that ends without an exception the callback stream is, in order,
   record by record: the owner for each accepted order (submitted_order), the owner of the cancelled order for each accepted
   cancel (canceled_order), buyer then seller for each fill (executed_order; twice to the same agent for a self-trade),
   nothing for expiries. *)
Theorem callbacks_are_exactly_what_the_records_call_for c tape batches funds :
  let s := run c tape batches funds in
  ok s = true -> cbs (events_of s) = expected (truths (events_of s)).
Proof. intros s O. destruct (told_run c tape batches funds) as [_ H]. specialize (H O). rewrite app_nil_r in H. exact H. Qed.

(* no agent is notified about an event it is not a party to *)
Definition party (a : Z) (r : record) : Prop :=
  match r with
  | ROrder o => a = Match.agent o
  | Market.RCancel o _ => a = Match.agent o
  | RExec _ _ ba sa _ _ _ _ => a = ba \/ a = sa
  | RExpire _ _ => False
  end.

Corollary only_parties_are_notified c tape batches funds :
  let s := run c tape batches funds in
  ok s = true -> forall a k r, In (a, k, r) (cbs (events_of s)) -> party a r /\ In r (truths (events_of s)).
Proof.
  intros s O a k r Hin. subst s. rewrite (callbacks_are_exactly_what_the_records_call_for c tape batches funds O) in Hin.
  unfold expected in Hin. apply in_flat_map in Hin. destruct Hin as [r0 [Hr0 Hc]].
  destruct r0; simpl in Hc.
  - destruct Hc as [E|[]]. inversion E; subst. split; [reflexivity|exact Hr0].
  - destruct Hc as [E|[]]. inversion E; subst. split; [reflexivity|exact Hr0].
  - destruct Hc as [E|[E|[]]]; inversion E; subst; (split; [simpl; auto|exact Hr0]).
  - destruct Hc.
Qed.

(* non-vacuity: two agents, two steps.  Step 1: agent 0 sells 5 @100, agent 1 buys 2 @100 (fill of 2).  Step 2: agent 0
   cancels the rest.  The run ends without exception; five callbacks: submitted(0), submitted(1), executed to buyer 1 and
   seller 0, canceled(0). *)
Example callbacks_example :
  let c := mkCfg [mkMC 0 (1#1) (100#1) None 1] [mkAC 0 false (1000#1) [(0, 10)]; mkAC 1 false (1000#1) [(0, 10)]]
                 [mkSC 0 2 true true 2 1 (0#1)] [] in
  let tape := [TPerm [0; 1]; TPerm [0; 1]; TDraw (1#2); TDraw (1#2);
               TPerm [0; 1]; TPerm [0]; TDraw (1#2)]%nat in
  let batches := [(0, [RNew 1 0 0 false (Some (100#1)) 5 None]); (1, [RNew 2 1 0 true (Some (100#1)) 2 None]);
                  (0, [Sim.RCancel 1 0 0]); (1, [])] in
  let funds := [(0, 0, 100#1); (0, 1, 100#1); (0, 2, 100#1)] in
  let s := run c tape batches funds in
  ok s = true /\ map (fun x => (fst (fst x), snd (fst x))) (cbs (events_of s)) = [(0, 1); (1, 1); (1, 3); (0, 3); (0, 2)].
Proof. vm_compute. split; reflexivity. Qed.
