(* Static prelude of the translated per-order block of SequentialRunner._handle_orders (harness/py2coq_runner.py).  Each effect statement
   of the block is one PRIMITIVE below - a function on a context (the simulation state plus what the block's local variables hold: the
   request, the market id, the record just produced, the round's fills); the translator emits the primitives in SOURCE ORDER with the
   source's branching, and sequencing skips everything after an exception ([seqg]).  The primitives are the model's own pieces
   (Sim.v): what this tie adds is that their order and the conditions under which they run are those of the source. *)
Require Import Pams.Prelude Pams.Tick Pams.Match Pams.Market Pams.Sim.
From RecordUpdate Require Import RecordSet.
Import RecordSetNotations.
Open Scope Z_scope.

Record ctx := mkC { cs : sim; creq : request; cmk : Z; crec : option record; ctm : Z; cix : Z; clogs : list record }.
Definition setS (c : ctx) (s : sim) : ctx := mkC s (creq c) (cmk c) (crec c) (ctm c) (cix c) (clogs c).
Definition setSR (c : ctx) (s : sim) (r : request) : ctx := mkC s r (cmk c) (crec c) (ctm c) (cix c) (clogs c).
Definition setAcc (c : ctx) (s : sim) (rc : record) (tm ix : Z) : ctx := mkC s (creq c) (cmk c) (Some rc) tm ix (clogs c).
Definition setLogs (c : ctx) (s : sim) (logs : list record) : ctx := mkC s (creq c) (cmk c) (crec c) (ctm c) (cix c) logs.
Definition setRec (c : ctx) (r : record) : ctx := mkC (cs c) (creq c) (cmk c) (Some r) (ctm c) (cix c) (clogs c).
(* statements in sequence; after an exception nothing more runs *)
Definition seqg (ps : list (ctx -> ctx)) (c : ctx) : ctx := fold_left (fun c p => if ok (cs c) then p c else c) ps c.

(* market = self.simulator.id2market[order.market_id] *)
Definition p_market (c : ctx) : ctx :=
  match find_mkt (cmk c) (s_markets (cs c)) with None => setS c (fail (cs c) EIndex) | Some _ => c end.
(* if isinstance(order, Order): ... elif isinstance(order, Cancel): ... *)
Definition p_case (order_ps cancel_ps : list (ctx -> ctx)) (c : ctx) : ctx :=
  match creq c with RNew _ _ _ _ _ _ _ => seqg order_ps c | RCancel _ _ _ => seqg cancel_ps c end.

(* self.simulator._trigger_event_before_order(order=order) *)
Definition p_before_order (c : ctx) : ctx :=
  match find_mkt (cmk c) (s_markets (cs c)) with
  | None => setS c (fail (cs c) EIndex)
  | Some x => let '(s, r') := fire_order_before (cs c) (creq c) (mtime x) in setSR c s r'
  end.
(* log = market._add_order(order=order) *)
Definition p_add_order (c : ctx) : ctx :=
  let s := cs c in
  match creq c, find_mkt (cmk c) (s_markets s) with
  | RNew tag ag mk buy p v ttlv, Some x =>
      match assoc tag (s_tags s) with
      | Some _ => setS c (fail s EAlreadySubmitted)
      | None => match add_order (mk_m x) ag mk buy p v ttlv with
                | Err e => setS c (fail s e)
                | Ok (m', rc) => setAcc c (do_accept_order s (cmk c) x m' rc tag) rc (m_time m') (cix c)
                end
      end
  | _, _ => setS c (fail s EOther)
  end.
(* agent = self.simulator.id2agent[order.agent_id]; agent.submitted_order(log=log) *)
Definition p_cb_submitted (c : ctx) : ctx :=
  match creq c, crec c with
  | RNew _ ag _ _ _ _ _, Some rc => setS c (callback (cs c) ag 1 rc (cmk c))
  | _, _ => c
  end.
(* self.simulator._trigger_event_after_order(order_log=log) *)
Definition p_after_order (c : ctx) : ctx :=
  match crec c with
  | Some rc => let oid := match rc with ROrder o => Match.oid o | _ => -1 end in
               setS c (fire_simple (cs c) HOrder false (ctm c) (cmk c) [VZ oid])
  | None => c
  end.

(* self.simulator._trigger_event_before_cancel(cancel=order) *)
Definition p_before_cancel (c : ctx) : ctx :=
  match creq c, find_mkt (cmk c) (s_markets (cs c)) with
  | RCancel tag _ _, Some x =>
      let oid := match assoc tag (s_tags (cs c)) with Some (_, i) => Some i | None => None end in
      setS c (fire_simple (cs c) HCancel true (mtime x) (cmk c) [voz oid])
  | _, _ => setS c (fail (cs c) EIndex)
  end.
(* log_ = market._cancel_order(cancel=order) *)
Definition p_cancel_order (c : ctx) : ctx :=
  let s := cs c in
  match creq c with
  | RCancel tag _ _ =>
      match (match assoc tag (s_tags s) with Some (_, i) => Some i | None => None end), find_mkt (cmk c) (s_markets s) with
      | None, _ => setS c (fail s ENotSubmitted)
      | Some i, Some x => match cancel_order (mk_m x) i with
                          | Err e => setS c (fail s e)
                          | Ok (m', rc) => setAcc c (do_accept_cancel s (cmk c) m' rc) rc (m_time m') i
                          end
      | _, None => setS c (fail s EIndex)
      end
  | _ => setS c (fail s EOther)
  end.
(* agent = self.simulator.id2agent[order.order.agent_id]; agent.canceled_order(log=log_) *)
Definition p_cb_canceled (c : ctx) : ctx :=
  match creq c, crec c with
  | RCancel _ ag _, Some rc => setS c (callback (cs c) (rec_owner rc ag) 2 rc (cmk c))
  | _, _ => c
  end.
(* self.simulator._trigger_event_after_cancel(cancel_log=log_) *)
Definition p_after_cancel (c : ctx) : ctx := setS c (fire_simple (cs c) HCancel false (ctm c) (cmk c) [VZ (cix c)]).

(* if session.with_order_execution: ... *)
Definition p_if_exec (body : list (ctx -> ctx)) (c : ctx) : ctx := if cur_switch (cs c) then seqg body c else c.
(* logs = market._execution() *)
Definition p_execution (c : ctx) : ctx :=
  let s := cs c in
  match find_mkt (cmk c) (s_markets s) with
  | None => setS c (fail s EIndex)
  | Some x =>
      let s := emit s (EvRound (cmk c) (m_running (mk_m x)) (s_cur s)) in
      match execution (mk_m x) with
      | Err e => setS c (fail s e)
      | Ok (m', logs) => setLogs c (fold_left (fun s r => log_event s r []) logs (set_market s (cmk c) m')) logs
      end
  end.
(* self.simulator._update_agents_for_execution(execution_logs=logs) *)
Definition p_update_agents (c : ctx) : ctx :=
  setS c ((cs c) <| s_agents := fold_left apply_fill_holdings (clogs c) (s_agents (cs c)) |>).
(* for execution_log in logs: ... *)
Definition p_for_logs (body : list (ctx -> ctx)) (c : ctx) : ctx :=
  fold_left (fun c lg => if ok (cs c) then seqg body (setRec c lg) else c) (clogs c) c.
(* agent = self.simulator.id2agent[execution_log.buy_agent_id]; agent.executed_order(log=execution_log) *)
Definition p_cb_buyer (c : ctx) : ctx :=
  match crec c with Some (RExec _ _ ba _ _ _ _ _ as r) => setS c (callback (cs c) ba 3 r (cmk c)) | _ => c end.
Definition p_cb_seller (c : ctx) : ctx :=
  match crec c with Some (RExec _ _ _ sa _ _ _ _ as r) => setS c (callback (cs c) sa 3 r (cmk c)) | _ => c end.
(* self.simulator._trigger_event_after_execution(execution_log=execution_log) *)
Definition p_after_execution (c : ctx) : ctx :=
  match crec c with Some (RExec _ t _ _ bi si _ _) => setS c (fire_exec_after (cs c) t (cmk c) [VZ bi; VZ si]) | _ => c end.

Definition init_ctx (s : sim) (r : request) : ctx := mkC s r (req_market r) None 0 0 [].

(* if not session.with_order_placement: raise AssertionError("currently order is not accepted") *)
Definition p_assert_placement (c : ctx) : ctx :=
  match cur_sess (cs c) with
  | Some se => if se_place se then c else setS c (fail (cs c) EOther)
  | None => setS c (fail (cs c) EOther)
  end.

(* ---------------- sequencing lemmas ---------------- *)
Lemma seqg_cons p ps c : seqg (p :: ps) c = seqg ps (if ok (cs c) then p c else c).
Proof. reflexivity. Qed.
Lemma seqg_nil c : seqg [] c = c. Proof. reflexivity. Qed.
Lemma seqg_dead ps : forall c, ok (cs c) = false -> seqg ps c = c.
Proof. induction ps as [|p r IH]; intros c H; [reflexivity|]. rewrite seqg_cons, H. apply IH. exact H. Qed.
Lemma ok_fail_false s e : ok s = true -> ok (fail s e) = false.
Proof. unfold ok, fail. destruct (s_err s); [discriminate|]. reflexivity. Qed.
Lemma guard_ok s f : ok s = true -> guard s f = f s. Proof. unfold guard. intros ->. reflexivity. Qed.
Lemma guard_dead s f : ok s = false -> guard s f = s. Proof. unfold guard. intros ->. reflexivity. Qed.

(* the fills of a round, one by one: buyer's callback, seller's callback, after-execution hooks *)
Lemma one_log_is_notify c lg :
  cs (seqg [p_cb_buyer; p_cb_seller; p_after_execution] (setRec c lg)) = notify_fill (cs c) (cmk c) lg /\
  cmk (seqg [p_cb_buyer; p_cb_seller; p_after_execution] (setRec c lg)) = cmk c.
Proof.
  destruct c as [s0 rq mk rc tm ix lgs]. unfold seqg, setRec. cbn [fold_left cs cmk crec creq ctm cix clogs].
  destruct lg; unfold p_cb_buyer, p_cb_seller, p_after_execution, setS, notify_fill, guard;
    cbv beta iota zeta delta [cs cmk crec creq ctm cix clogs];
    repeat match goal with
           | |- context [if ok ?x then _ else _] =>
               let E := fresh "E" in destruct (ok x) eqn:E; cbv beta iota zeta delta [cs cmk crec creq ctm cix clogs]; rewrite ?E; try congruence
           end;
    split; reflexivity.
Qed.

Lemma for_logs_is_notify : forall logs c,
  cs (fold_left (fun c lg => if ok (cs c) then seqg [p_cb_buyer; p_cb_seller; p_after_execution] (setRec c lg) else c) logs c) =
    fold_left (fun s r => notify_fill s (cmk c) r) logs (cs c) /\
  cmk (fold_left (fun c lg => if ok (cs c) then seqg [p_cb_buyer; p_cb_seller; p_after_execution] (setRec c lg) else c) logs c) = cmk c.
Proof.
  induction logs as [|lg r IH]; intros c; [split; reflexivity|]. cbn [fold_left].
  set (c1 := if ok (cs c) then seqg [p_cb_buyer; p_cb_seller; p_after_execution] (setRec c lg) else c).
  assert (H1 : cs c1 = notify_fill (cs c) (cmk c) lg /\ cmk c1 = cmk c).
  { unfold c1. destruct (ok (cs c)) eqn:O; [apply one_log_is_notify|].
    split; [|reflexivity]. unfold notify_fill. destruct lg; try reflexivity. rewrite !(guard_dead _ _ O). reflexivity. }
  destruct H1 as [E1 E2]. destruct (IH c1) as [A B]. rewrite A, B, E1, E2. split; reflexivity.
Qed.
