(* C05 (run level): cash and shares are conserved over a whole run.  For every configuration in which agent ids are distinct and
   every agent holds a position (possibly zero) in every market, every tape, every agent behaviour and fundamental path: a run
   that ends without exception leaves the total cash and, per market, the total number of shares exactly as they were. *)
Require Import Pams.Prelude Pams.Tick Pams.Match Pams.Market Pams.MatchQ Pams.MarketInv Pams.MarketExec
               Pams.Sim Pams.SimLift Pams.SimInv Pams.SimProps Pams.SimClock Pams.SimMarks Pams.SimCallbacks.
From RecordUpdate Require Import RecordSet.
Import RecordSetNotations.
Open Scope Z_scope.

Definition covers (mks : list Z) (ags : list agent) : Prop := forall a mk, In a ags -> In mk mks -> holds mk a.
Definition fill_known (ids mks : list Z) (r : record) : Prop :=
  match r with RExec mk _ ba sa _ _ _ _ => In mk mks /\ In ba ids /\ In sa ids | _ => True end.

Lemma find_agent_in i l : In i (map a_id l) -> exists a, find_agent i l = Some a /\ In a l.
Proof.
  induction l as [|y r IH]; simpl; intros H; [tauto|]. destruct (a_id y =? i) eqn:E; [eauto|].
  apply Z.eqb_neq in E. destruct H as [H|H]; [congruence|]. destruct (IH H) as [a [F Ia]]. eauto.
Qed.

Lemma upd_agent_ids i f l : (forall a, a_id (f a) = a_id a) -> map a_id (upd_agent i f l) = map a_id l.
Proof. intros Hf. unfold upd_agent. rewrite map_map. apply map_ext. intros a. destruct (a_id a =? i); auto. Qed.

Lemma holds_add mk mk' v a : holds mk a -> holds mk (a <| a_assets := add_asset mk' v (a_assets a) |>).
Proof. unfold holds. cbn. intros H. rewrite assoc_add_asset. destruct (assoc mk (a_assets a)); [discriminate|congruence]. Qed.

Lemma covers_upd mks i f ags : (forall a mk, holds mk a -> holds mk (f a)) -> covers mks ags -> covers mks (upd_agent i f ags).
Proof.
  intros Hf C a m Ha Hm. unfold upd_agent in Ha. apply in_map_iff in Ha. destruct Ha as [a0 [<- Ha]].
  destruct (a_id a0 =? i); [apply Hf|]; apply C; auto.
Qed.

Lemma covers_fill mks ags r : covers mks ags -> covers mks (apply_fill_holdings ags r).
Proof.
  intros C. destruct r; auto. unfold apply_fill_holdings.
  repeat apply covers_upd; auto; intros a m H; try exact H; apply holds_add; exact H.
Qed.

Lemma ids_fill ags r : map a_id (apply_fill_holdings ags r) = map a_id ags.
Proof.
  destruct r; auto. unfold apply_fill_holdings. rewrite !upd_agent_ids; auto.
Qed.

(* folding any list of fills among known parties and markets moves cash and shares around but creates or destroys none *)
Lemma fills_conserve mks : forall fs ags, NoDup (map a_id ags) -> covers mks ags ->
  Forall (fill_known (map a_id ags) mks) fs ->
  (total_cash (fold_left apply_fill_holdings fs ags) == total_cash ags)%Q /\
  (forall m, total_asset m (fold_left apply_fill_holdings fs ags) = total_asset m ags).
Proof.
  induction fs as [|r rest IH]; simpl; intros ags N C K; [split; [reflexivity|auto]|].
  inversion K as [|? ? Kr Krest]; subst.
  assert (N1 : NoDup (map a_id (apply_fill_holdings ags r))) by (rewrite ids_fill; exact N).
  assert (C1 : covers mks (apply_fill_holdings ags r)) by (apply covers_fill; exact C).
  assert (K1 : Forall (fill_known (map a_id (apply_fill_holdings ags r)) mks) rest) by (rewrite ids_fill; exact Krest).
  destruct (IH _ N1 C1 K1) as [A B].
  assert (S : (total_cash (apply_fill_holdings ags r) == total_cash ags)%Q /\ (forall m, total_asset m (apply_fill_holdings ags r) = total_asset m ags)).
  { destruct r; try (split; [reflexivity|auto]). destruct Kr as [Km [Kb Ks]].
    destruct (find_agent_in _ _ Kb) as [b [Fb Ib]]. destruct (find_agent_in _ _ Ks) as [s [Fs Is]].
    destruct (fill_conserves_cash_and_shares ags mk time bagent sagent bid sid p v b s N Fb Fs (C _ _ Ib Km) (C _ _ Is Km)) as [X [Y _]].
    split; auto. }
  destruct S as [S1 S2]. split; [rewrite A; exact S1|intros m; rewrite B; apply S2].
Qed.

(* ---------------- the run-level invariant: the parties and markets of everything recorded are known ---------------- *)
Definition known (ids mks : list Z) (e : event) : Prop :=
  match e with
  | EvCallback a _ _ _ _ _ => In a ids
  | EvTruth (RExec mk _ _ _ _ _ _ _) _ => In mk mks
  | _ => True
  end.

Definition cinv (ids mks : list Z) (s : sim) : Prop :=
  map a_id (s_agents s) = ids /\ covers mks (s_agents s) /\ mids s = mks /\
  Forall (known ids mks) (s_trace s) /\ Forall (known ids mks) (s_pending s).

Lemma find_agent_some i l a : find_agent i l = Some a -> In a l.
Proof. induction l as [|y r IH]; simpl; [discriminate|]. destruct (a_id y =? i); [intros H; inversion H; auto|auto]. Qed.

Section ConserveSteps.
Variables ids mks : list Z.
Let P := cinv ids mks.

Lemma cinv_ext s s' : s_trace s' = s_trace s -> s_pending s' = s_pending s -> s_agents s' = s_agents s -> mids s' = mids s -> P s -> P s'.
Proof. unfold P, cinv. intros -> -> -> ->. auto. Qed.

Lemma cinv_keeps s s' : s_trace s' = s_trace s -> s_pending s' = s_pending s -> s_agents s' = s_agents s -> keeps s s' -> P s -> P s'.
Proof. intros A B C K. apply cinv_ext; auto. apply keeps_mids; auto. Qed.

Lemma cinv_emit s e : known ids mks e -> P s -> P (emit s e).
Proof. intros K [A [C [M [T Pd]]]]. unfold P, cinv, emit. cbn. repeat split; auto. Qed.

Lemma cinv_log_event s r : (forall x, known ids mks (EvTruth r x)) -> P s -> P (log_event s r []).
Proof.
  intros K [A [C [M [T Pd]]]]. unfold P, cinv, log_event, write, emit. cbn. repeat split; auto.
  all: try (constructor; solve [auto]).
  all: apply Forall_app; split; auto; constructor; [exact I|constructor].
Qed.

Lemma cinv_log_events rs : (forall r x, In r rs -> known ids mks (EvTruth r x)) -> forall s, P s -> P (fold_left (fun s r => log_event s r []) rs s).
Proof.
  induction rs as [|r rest IH]; cbn [fold_left]; intros K s H; [exact H|]. apply IH; [intros r0 x0 Hr; apply K; right; exact Hr|].
  apply cinv_log_event; [intros x0; apply K; left; reflexivity|exact H].
Qed.

Lemma CI_fail : forall s e, P s -> P (fail s e).
Proof. intros s e H. destruct (fail_fields s e) as [T [Pd [A _]]]. eapply cinv_keeps; eauto. apply keeps_fail. Qed.
Lemma CI_emit : forall s e, obs_event e -> P s -> P (emit s e).
Proof. intros s e He H. apply cinv_emit; auto. destruct e; simpl in *; tauto. Qed.
Lemma CI_callback : forall s aid kind r mkid, P s -> P (callback s aid kind r mkid).
Proof.
  intros s aid kind r mkid H. unfold callback. destruct (find_agent aid (s_agents s)) as [a|] eqn:F; [|apply CI_fail; auto].
  destruct (find_mkt mkid (s_markets s)); [|apply CI_fail; auto]. apply cinv_emit; auto. simpl.
  destruct H as [A _]. rewrite <- A. apply in_map. eapply find_agent_some; eauto.
Qed.
Lemma CI_step : forall s kind mkid x, find_mkt mkid (s_markets s) = Some x -> P s -> P (emit s (ev_step s kind x)).
Proof. intros s kind mkid x _ H. apply cinv_emit; auto. exact I. Qed.
Lemma CI_boundary : forall s e, boundary_event e -> P s -> P (flush (write s e)).
Proof.
  intros s e He [A [C [M [T Pd]]]]. unfold P, cinv, flush, write. cbn. repeat split; auto.
  apply Forall_app. split; auto. apply Forall_rev. apply Forall_app. split; auto. constructor; auto.
  destruct e; simpl in *; tauto.
Qed.
Lemma CI_accept_order : forall s mkid x ag mk buy p v ttlv m' rc tag,
  find_mkt mkid (s_markets s) = Some x -> add_order (mk_m x) ag mk buy p v ttlv = Ok (m', rc) ->
  P s -> P (do_accept_order s mkid x m' rc tag).
Proof.
  intros s mkid x ag mk buy p v ttlv m' rc tag Fx Ha H.
  pose proof (keeps_accept_order s mkid x ag mk buy p v ttlv m' rc tag Fx Ha) as K.
  destruct (add_order_record _ _ _ _ _ _ _ _ _ Ha) as [o ->].
  destruct H as [A [C [M [T Pd]]]]. unfold P, cinv. rewrite (keeps_mids _ _ K).
  unfold do_accept_order, log_event, write, emit, set_market. cbn. repeat split; auto.
  all: try (constructor; [exact I|solve [auto]]).
  all: apply Forall_app; split; auto; constructor; [exact I|constructor].
Qed.
Lemma CI_accept_cancel : forall s mkid x i m' rc,
  find_mkt mkid (s_markets s) = Some x -> cancel_order (mk_m x) i = Ok (m', rc) -> P s -> P (do_accept_cancel s mkid m' rc).
Proof.
  intros s mkid x i m' rc Fx Hc H. pose proof (keeps_accept_cancel s mkid x i m' rc Fx Hc) as K.
  destruct (cancel_order_record _ _ _ _ Hc) as [o [ct ->]].
  destruct H as [A [C [M [T Pd]]]]. unfold P, cinv. rewrite (keeps_mids _ _ K).
  unfold do_accept_cancel, log_event, write, emit, set_market. cbn. repeat split; auto.
  all: try (constructor; [exact I|solve [auto]]).
  all: apply Forall_app; split; auto; constructor; [exact I|constructor].
Qed.
Lemma CI_round : forall s mkid x, find_mkt mkid (s_markets s) = Some x -> cur_switch s = true ->
  P s -> P (emit s (EvRound mkid (m_running (mk_m x)) (s_cur s))).
Proof. intros s mkid x _ _ H. apply cinv_emit; auto. exact I. Qed.

Lemma mids_upd_mkt i f l : (forall x, m_id (mk_m (f x)) = m_id (mk_m x)) ->
  map (fun x => m_id (mk_m x)) (upd_mkt i f l) = map (fun x => m_id (mk_m x)) l.
Proof. intros Hf. induction l as [|y r IH]; simpl; auto. destruct (m_id (mk_m y) =? i); simpl; [rewrite Hf|rewrite IH]; reflexivity. Qed.

Lemma mids_upd_mkt_to i m' l x : find_mkt i l = Some x -> m_id m' = i ->
  map (fun x => m_id (mk_m x)) (upd_mkt i (fun x => x <| mk_m := m' |>) l) = map (fun x => m_id (mk_m x)) l.
Proof.
  intros F E. induction l as [|y r IH]; simpl in *; auto. destruct (m_id (mk_m y) =? i) eqn:Ey; simpl.
  - apply Z.eqb_eq in Ey. cbn. congruence.
  - rewrite IH; auto.
Qed.

Lemma execution_logs_market m m' logs : execution m = Ok (m', logs) ->
  forall r, In r logs -> exists t ba sa bi si p v, r = RExec (m_id m) t ba sa bi si p v.
Proof.
  unfold execution. destruct (negb (executable m)); [intros H; inversion H; simpl; tauto|].
  destruct (run_walk m) as [[p|] fs]; [|discriminate].
  destruct (apply_fills p m fs) as [[m1 lg]|] eqn:E; [|discriminate]. simpl.
  destruct (executable m1); [discriminate|]. intros H; inversion H; subst.
  rewrite (apply_fills_logs _ _ _ _ _ E). intros r Hr. apply in_map_iff in Hr. destruct Hr as [f [<- _]].
  unfold log_of. repeat eexists.
Qed.

Lemma fold_fill_ids rs : forall ags, map a_id (fold_left apply_fill_holdings rs ags) = map a_id ags.
Proof. induction rs as [|r rest IH]; simpl; intros ags; auto. rewrite IH. apply ids_fill. Qed.
Lemma fold_fill_covers rs : forall ags, covers mks ags -> covers mks (fold_left apply_fill_holdings rs ags).
Proof. induction rs as [|r rest IH]; simpl; intros ags C; auto. apply IH. apply covers_fill. exact C. Qed.

Lemma CI_fills : forall s mkid x m' logs,
  find_mkt mkid (s_markets s) = Some x -> execution (mk_m x) = Ok (m', logs) -> cur_switch s = true ->
  (exists tr, s_trace s = EvRound mkid (m_running (mk_m x)) (s_cur s) :: tr) -> P s -> P (do_fills s mkid m' logs).
Proof.
  intros s mkid x m' logs Fx He _ _ H. pose proof (keeps_fills s mkid x m' logs Fx He) as K.
  pose proof (execution_logs_market _ _ _ He) as Hl. pose proof (find_mkt_id _ _ _ Fx) as Ex.
  assert (Hin : In mkid mks).
  { destruct H as [_ [_ [M _]]]. rewrite <- M. unfold mids. rewrite <- Ex. apply (in_map (fun x => m_id (mk_m x))). clear - Fx.
    induction (s_markets s) as [|y r IH]; simpl in *; [discriminate|]. destruct (m_id (mk_m y) =? mkid); [inversion Fx; auto|auto]. }
  assert (H1 : P (fold_left (fun s r => log_event s r []) logs (set_market s mkid m'))).
  { apply cinv_log_events.
    - intros r x0 Hr. destruct (Hl r Hr) as [t [ba [sa [bi [si [p [v ->]]]]]]]. simpl. rewrite Ex. exact Hin.
    - eapply cinv_ext; [| | | |exact H]; try reflexivity.
      unfold mids, set_market. cbn. eapply mids_upd_mkt_to; eauto. rewrite (execution_id _ _ _ He). exact Ex. }
  destruct H1 as [A [C [M [T Pd]]]]. unfold do_fills. unfold P, cinv. cbn. repeat split; auto.
  - rewrite fold_fill_ids. exact A.
  - apply fold_fill_covers. exact C.
Qed.
Lemma CI_tick_all : forall s, P s -> P (tick_all s).
Proof.
  apply tick_all_pres.
  - apply CI_fail.
  - intros s x f m' recs Fx Ht H. unfold do_tick. apply cinv_log_events.
    + intros r x0 Hr. pose proof (tick_records_kind _ _ _ _ Ht) as Hk. rewrite forallb_forall in Hk. specialize (Hk r Hr).
      destruct r; simpl in *; auto; discriminate.
    + eapply cinv_ext; [| | | |exact H]; try reflexivity.
      unfold mids, set_market. cbn. eapply mids_upd_mkt_to; eauto.
      pose proof (tick_id (mk_m x) f) as T. rewrite Ht in T. exact T.
Qed.
Lemma CI_pop_perm : forall s, P s -> P (fst (pop_perm s)).
Proof. intros s H. destruct (pop_perm_fields s) as [T [Pd A]]. eapply cinv_keeps; eauto. apply keeps_pop_perm. Qed.
Lemma CI_pop_draw : forall s, P s -> P (fst (pop_draw s)).
Proof. intros s H. destruct (pop_draw_fields s) as [T [Pd A]]. eapply cinv_keeps; eauto. apply keeps_pop_draw. Qed.
Lemma CI_consult : forall s aid, P s -> P (fst (consult s aid)).
Proof.
  intros s aid H. pose proof (keeps_consult s aid) as K. destruct (consult_fields s aid) as [[T|[n T]] [Pd A]].
  - eapply cinv_keeps; eauto.
  - destruct H as [A0 [C [M [T0 P0]]]]. unfold P, cinv. rewrite (keeps_mids _ _ K), T, Pd, A. repeat split; auto. constructor; [exact I|auto].
Qed.
Lemma CI_spent : forall s eid, P s -> P (s <| s_events := upd_event eid (fun e => e <| es_spent := true |>) (s_events s) |>).
Proof. intros s eid H. eapply cinv_ext; [| | | |exact H]; reflexivity. Qed.
Lemma CI_halt_after : forall s e mkid, In e (s_events s) -> round_ctx mkid s -> P s -> P (halt_after_execution s e mkid).
Proof. intros s e mkid _ _ H. destruct (halt_after_fields s e mkid) as [T [Pd A]]. eapply cinv_keeps; eauto. apply keeps_halt_after. Qed.
Lemma CI_halt_before : forall s e x, In e (s_events s) -> find_mkt (m_id (mk_m x)) (s_markets s) = Some x -> P s -> P (halt_before_step s e x).
Proof. intros s e x _ Fx H. destruct (halt_before_fields s e x) as [T [Pd A]]. eapply cinv_keeps; eauto. apply keeps_halt_before; auto. Qed.
Lemma CI_shock : forall s e x, find_mkt (m_id (mk_m x)) (s_markets s) = Some x -> P s -> P (shock_before_step s e x).
Proof. intros s e x Fx H. destruct (shock_fields s e x) as [T [Pd A]]. eapply cinv_keeps; eauto. apply keeps_shock; auto. Qed.
Lemma CI_set_cur : forall s sid, P s -> P (s <| s_cur := sid |>).
Proof. intros s sid H. eapply cinv_ext; [| | | |exact H]; reflexivity. Qed.
Lemma CI_begin_iteration : forall s, P s -> P (begin_iteration s).
Proof. intros s H. eapply cinv_keeps; [| | | |exact H]; try reflexivity. apply keeps_begin_iteration. Qed.
End ConserveSteps.

Theorem cinv_run c tape batches funds :
  let s0 := init_sim c tape batches funds in
  covers (mids s0) (s_agents s0) ->
  cinv (map a_id (s_agents s0)) (mids s0) (run c tape batches funds).
Proof.
  intros s0 C. set (ids := map a_id (s_agents s0)). set (mks := mids s0).
  apply (run_pres (cinv ids mks) (CI_fail ids mks) (CI_emit ids mks) (CI_callback ids mks) (CI_step ids mks) (CI_boundary ids mks)
           (CI_accept_order ids mks) (CI_accept_cancel ids mks) (CI_round ids mks) (CI_fills ids mks) (CI_tick_all ids mks)
           (CI_pop_perm ids mks) (CI_pop_draw ids mks) (CI_consult ids mks) (CI_spent ids mks) (CI_halt_after ids mks)
           (CI_halt_before ids mks) (CI_shock ids mks) (CI_set_cur ids mks) (CI_begin_iteration ids mks)).
  unfold cinv. fold s0. repeat split; auto; unfold s0, init_sim; cbn; constructor.
Qed.

Lemma cbs_in a k r l : In (a, k, r) (cbs l) -> exists h sw rn, In (EvCallback a k r h sw rn) l.
Proof.
  unfold cbs. intros H. apply in_flat_map in H. destruct H as [e [He Hc]].
  destruct e; simpl in Hc; try tauto. destruct Hc as [Hc|[]]. inversion Hc; subst. eauto.
Qed.

(* in a run that ended without exception every fill names a configured market and two existing agents *)
Lemma fills_known c tape batches funds :
  let s0 := init_sim c tape batches funds in
  let s := run c tape batches funds in
  covers (mids s0) (s_agents s0) -> ok s = true ->
  Forall (fill_known (map a_id (s_agents s0)) (mids s0)) (fills (events_of s)).
Proof.
  intros s0 s C O. destruct (cinv_run c tape batches funds C) as [_ [_ [_ [T _]]]]. fold s in T.
  pose proof (callbacks_are_exactly_what_the_records_call_for c tape batches funds O) as CB. fold s in CB.
  assert (Kn : forall e, In e (events_of s) -> known (map a_id (s_agents s0)) (mids s0) e).
  { intros e He. unfold events_of in He. apply in_rev in He. rewrite Forall_forall in T. apply T; exact He. }
  apply Forall_forall. intros r Hr. unfold fills in Hr. apply filter_In in Hr. destruct Hr as [Hr Hf].
  destruct r; try discriminate. simpl.
  assert (Hp : forall a, In (a, 3, RExec mk time bagent sagent bid sid p v) (expect (RExec mk time bagent sagent bid sid p v)) -> In a (map a_id (s_agents s0))).
  { intros a Ha. assert (Hc : In (a, 3, RExec mk time bagent sagent bid sid p v) (cbs (events_of s))).
    { rewrite CB. unfold expected. apply in_flat_map. eauto. }
    destruct (cbs_in _ _ _ _ Hc) as [h [sw [rn Hin]]]. exact (Kn _ Hin). }
  split; [|split].
  - unfold truths in Hr. apply in_flat_map in Hr. destruct Hr as [e [He Ht]]. destruct e; simpl in Ht; try tauto.
    destruct Ht as [->|[]]. exact (Kn _ He).
  - apply Hp. simpl. auto.
  - apply Hp. simpl. auto.
Qed.

(* C05, conservation over a whole run: with distinct agent ids and every agent holding a (possibly zero) position in every
   market, a run that ends without exception leaves total cash and every market's total shares exactly as at the start *)
Theorem run_conserves_cash_and_shares c tape batches funds :
  let s0 := init_sim c tape batches funds in
  let s := run c tape batches funds in
  NoDup (map a_id (s_agents s0)) -> covers (mids s0) (s_agents s0) -> ok s = true ->
  (total_cash (s_agents s) == total_cash (s_agents s0))%Q /\
  (forall m, total_asset m (s_agents s) = total_asset m (s_agents s0)) /\
  map a_id (s_agents s) = map a_id (s_agents s0).
Proof.
  intros s0 s N C O. pose proof (fills_known c tape batches funds C O) as K. cbv zeta in K. fold s s0 in K.
  unfold s at 1 2 3. rewrite (holdings_are_endowment_plus_fills c tape batches funds). fold s s0.
  destruct (fills_conserve (mids s0) (fills (events_of s)) (s_agents s0) N C K) as [A B].
  split; [exact A|split; [exact B|apply fold_fill_ids]].
Qed.
