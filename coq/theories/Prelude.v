(* Prelude: result monad, error kinds (one per Python exception site class), the generic
   observation value [ov] used by the correspondence check, exact-rational helpers. *)
From Coq Require Export ZArith QArith Qround Qabs List Bool Lia.
Export ListNotations.
Open Scope Z_scope.

(* ---------- errors: which kind of Python exception site fired ---------- *)
Inductive err :=
| ENotThisMarket        (* ValueError: order / cancel is for a different market *)
| EAlreadySubmitted     (* ValueError: the order is already submitted *)
| ENotSubmitted         (* ValueError: the order is not submitted before (cancel) *)
| EAssertNotRunning     (* AssertionError: market is not running (fill on a stopped market) *)
| EAssertWalk           (* one of the internal assertions of Market._execution *)
| EAssertPrice          (* AssertionError: price undefined after the walk *)
| EAssertPost           (* AssertionError: executable orders remain after a round *)
| EAssertNegVolume      (* AssertionError in change_order_volume *)
| EFuture               (* AssertionError: cannot refer the future parameters *)
| EAssertNone           (* AssertionError: None in a series that must be defined *)
| EIndex                (* IndexError / KeyError class *)
| EBeforeStart          (* operation before the first clock update *)
| ESpoof                (* ValueError: spoofing order *)
| ENoPlacement          (* AssertionError: currently order is not accepted *)
| EHook                 (* an event hook raised *)
| EConfig               (* ValueError raised while expanding the configuration *)
| EOutOfFuel
| EOther.

Definition err_code (e : err) : Z :=
  match e with
  | ENotThisMarket => 1 | EAlreadySubmitted => 2 | ENotSubmitted => 3 | EAssertNotRunning => 4
  | EAssertWalk => 5 | EAssertPrice => 6 | EAssertPost => 7 | EAssertNegVolume => 8
  | EFuture => 9 | EAssertNone => 10 | EIndex => 11 | EBeforeStart => 12 | ESpoof => 13
  | ENoPlacement => 14 | EHook => 15 | EConfig => 16 | EOutOfFuel => 17 | EOther => 18
  end.

Inductive result (A : Type) := Ok (a : A) | Err (e : err).
Arguments Ok {A} a.
Arguments Err {A} e.

Definition bind {A B} (r : result A) (f : A -> result B) : result B :=
  match r with Ok a => f a | Err e => Err e end.
Notation "'do' x <- r ; k" := (bind r (fun x => k)) (at level 200, x pattern, r at level 100, k at level 200).

(* ---------- observation values ---------- *)
Inductive ov :=
| VZ (z : Z)
| VQ (x : Q)
| VN                    (* Python None *)
| VB (b : bool)
| VE (code : Z)         (* an exception, by kind *)
| VA (x : Q)            (* a float computed by division: compared to relative 1e-9 (or absolute 1e-15: values that cancel to ~0) *)
| VL (l : list ov).

Fixpoint ov_eqb (a b : ov) {struct a} : bool :=
  match a, b with
  | VZ x, VZ y => x =? y
  | VQ x, VQ y => Qeq_bool x y
  | VN, VN => true
  | VA x, VA y => Qle_bool (Qabs (x - y) * (1000000000#1)) (Qabs y) || Qeq_bool x y || Qle_bool (Qabs (x - y) * (1000000000000000#1)) (1#1)
  | VB x, VB y => Bool.eqb x y
  | VE x, VE y => x =? y
  | VL x, VL y =>
      (fix go (l1 l2 : list ov) {struct l1} : bool :=
         match l1, l2 with
         | [], [] => true
         | u :: l1', v :: l2' => ov_eqb u v && go l1' l2'
         | _, _ => false
         end) x y
  | _, _ => false
  end.

Definition q (n : Z) (d : positive) : Q := Qmake n d.
Definition vq (n : Z) (d : positive) : ov := VQ (Qmake n d).
Definition voa (o : option Q) : ov := match o with Some x => VA x | None => VN end.
Definition voq (o : option Q) : ov := match o with Some x => VQ x | None => VN end.
Definition voz (o : option Z) : ov := match o with Some x => VZ x | None => VN end.
Definition verr (e : err) : ov := VE (err_code e).

(* indices (0-based) of the cases whose model observation differs from the expected one *)
Fixpoint mismatches_from {A} (run : A -> ov) (i : nat) (l : list (A * ov)) : list nat :=
  match l with
  | [] => []
  | (a, e) :: r => if ov_eqb (run a) e then mismatches_from run (S i) r
                   else i :: mismatches_from run (S i) r
  end.
Definition mismatches {A} (run : A -> ov) (l : list (A * ov)) : nat * list nat :=
  (length l, mismatches_from run 0%nat l).

(* ---------- exact rationals kept reduced (so that vm_compute stays fast) ---------- *)
Local Open Scope Q_scope.
Definition qadd (a b : Q) : Q := Qred (a + b).
Definition qsub (a b : Q) : Q := Qred (a - b).
Definition qmul (a b : Q) : Q := Qred (a * b).
Definition qdiv (a b : Q) : Q := Qred (a / b).
Definition qofz (z : Z) : Q := inject_Z z.
Definition qltb (a b : Q) : bool := negb (Qle_bool b a).
Definition qleb (a b : Q) : bool := Qle_bool a b.
Definition qeqb (a b : Q) : bool := Qeq_bool a b.

Lemma qadd_eq a b : qadd a b == a + b. Proof. apply Qred_correct. Qed.
Lemma qsub_eq a b : qsub a b == a - b. Proof. apply Qred_correct. Qed.
Lemma qmul_eq a b : qmul a b == a * b. Proof. apply Qred_correct. Qed.
Lemma qdiv_eq a b : qdiv a b == a / b. Proof. apply Qred_correct. Qed.

Lemma qltb_lt a b : qltb a b = true <-> a < b.
Proof.
  unfold qltb. rewrite negb_true_iff. split; intro H.
  - apply Qnot_le_lt. intro C. apply Qle_bool_iff in C. congruence.
  - destruct (Qle_bool b a) eqn:E; auto. apply Qle_bool_iff in E. exfalso. eapply Qlt_not_le; eauto.
Qed.
Lemma qltb_ge a b : qltb a b = false <-> b <= a.
Proof.
  unfold qltb. rewrite negb_false_iff. apply Qle_bool_iff.
Qed.
Lemma qleb_le a b : qleb a b = true <-> a <= b. Proof. apply Qle_bool_iff. Qed.
Lemma qeqb_eq a b : qeqb a b = true <-> a == b. Proof. apply Qeq_bool_iff. Qed.

Local Close Scope Q_scope.
(* ---------- list helpers (Python list indexing / slicing) ---------- *)
Fixpoint upd {A} (l : list A) (i : nat) (x : A) : list A :=
  match l, i with
  | [], _ => []
  | _ :: r, O => x :: r
  | y :: r, S j => y :: upd r j x
  end.

Lemma upd_length {A} (l : list A) i x : length (upd l i x) = length l.
Proof. revert i; induction l as [|y r IH]; intros [|j]; simpl; auto. Qed.
Lemma upd_nth_same {A} (l : list A) i x d : (i < length l)%nat -> nth i (upd l i x) d = x.
Proof. revert i; induction l as [|y r IH]; intros [|j] H; simpl in *; try lia; auto. apply IH. lia. Qed.
Lemma upd_nth_other {A} (l : list A) i j x d : i <> j -> nth j (upd l i x) d = nth j l d.
Proof. revert i j; induction l as [|y r IH]; intros [|i] [|j] H; simpl; auto; try congruence. Qed.
Lemma upd_upd {A} (l : list A) i x y : upd (upd l i x) i y = upd l i y.
Proof. revert i; induction l as [|a r IH]; intros [|j]; simpl; auto. rewrite IH. reflexivity. Qed.
