(* C20 over the reals: the FCN agent's side is the sign of its documented weighted log-return. *)
From Coq Require Import Reals Lra.
Open Scope R_scope.

(* expected future price = market price x exp(expected log-return x window): above the market price exactly when the expected
   log-return is positive, below exactly when negative, equal exactly when zero *)
Theorem fcn_side_is_sign_of_expected_return mp elr tw : 0 < mp -> 0 < tw ->
  (mp < mp * exp (elr * tw) <-> 0 < elr) /\ (mp * exp (elr * tw) < mp <-> elr < 0) /\ (mp * exp (elr * tw) = mp <-> elr = 0).
Proof.
  intros Hm Ht.
  assert (E0 : exp 0 = 1) by apply exp_0.
  assert (Pos : 0 < elr -> 1 < exp (elr * tw)).
  { intros H. rewrite <- E0. apply exp_increasing. apply Rmult_lt_0_compat; auto. }
  assert (Neg : elr < 0 -> exp (elr * tw) < 1).
  { intros H. rewrite <- E0. apply exp_increasing. assert (0 < (- elr) * tw) by (apply Rmult_lt_0_compat; lra). lra. }
  assert (Zero : elr = 0 -> exp (elr * tw) = 1) by (intros ->; rewrite Rmult_0_l; exact E0).
  destruct (Rtotal_order elr 0) as [L|[L|L]].
  - specialize (Neg L). assert (mp * exp (elr * tw) < mp) by nra. repeat split; intros; try lra.
  - specialize (Zero L). rewrite Zero. repeat split; intros; lra.
  - specialize (Pos L). assert (mp < mp * exp (elr * tw)) by nra. repeat split; intros; try lra.
Qed.

(* the expected log-return is the weighted combination of the fundamental, chart and noise log-returns, normalised by the sum
   of the (non-negative, not all zero) weights: its sign is the sign of the weighted sum *)
Theorem fcn_expected_return_sign wf wc wn f c n :
  0 <= wf -> 0 <= wc -> 0 <= wn -> 0 < wf + wc + wn ->
  let elr := (1 / (wf + wc + wn)) * (wf * f + wc * c + wn * n) in
  (0 < elr <-> 0 < wf * f + wc * c + wn * n) /\ (elr < 0 <-> wf * f + wc * c + wn * n < 0).
Proof.
  intros H1 H2 H3 HW. cbv zeta. set (W := wf + wc + wn) in *. set (S := wf * f + wc * c + wn * n).
  assert (P : 0 < 1 / W) by (apply Rdiv_lt_0_compat; lra).
  split; split; intros H; nra.
Qed.
