(* C01 / C02 at the level of whole simulations, through the generic lifting of SimMarketLift.v: in every run, every fill of every market
   pairs a buy order and a sell order that were ACCEPTED EARLIER on that market (their acceptance records precede the fill among the
   market's records), names their agents, and its price honours the limits those orders were accepted with. *)
Require Import Pams.Prelude Pams.Tick Pams.Match Pams.Market Pams.MatchQ Pams.MarketInv Pams.MarketExec Pams.MarketLife Pams.MarketRound
               Pams.Sim Pams.SimLift Pams.SimInv Pams.SimBooks Pams.SimMarketLift.
From RecordUpdate Require Import RecordSet.
Import RecordSetNotations.
Open Scope Z_scope.

Definition same_terms (o o0 : O) : Prop :=
  oid o0 = oid o /\ price o0 = price o /\ isbuy o0 = isbuy o /\ Match.agent o0 = Match.agent o.
Lemma same_terms_refl o : same_terms o o. Proof. repeat split. Qed.
Lemma same_terms_trans a b c : same_terms a b -> same_terms b c -> same_terms a c.
Proof. intros [A1 [A2 [A3 A4]]] [B1 [B2 [B3 B4]]]. repeat split; congruence. Qed.

Fixpoint orders_of (rs : list record) : list O :=
  match rs with [] => [] | ROrder o :: r => o :: orders_of r | _ :: r => orders_of r end.
Lemma orders_of_app a b : orders_of (a ++ b) = orders_of a ++ orders_of b.
Proof. induction a as [|x r IH]; simpl; auto. destruct x; simpl; rewrite ?IH; auto. Qed.
Lemma orders_of_in o rs : In o (orders_of rs) <-> In (ROrder o) rs.
Proof.
  induction rs as [|x r IH]; simpl; [tauto|]. destruct x; simpl; rewrite IH; split; intros H; try tauto.
  - destruct H as [->|H]; auto.
  - destruct H as [H|H]; [inversion H; auto|auto].
  - destruct H as [H|H]; [discriminate|auto].
  - destruct H as [H|H]; [discriminate|auto].
  - destruct H as [H|H]; [discriminate|auto].
Qed.

(* what a fill record must find among the orders accepted before it *)
Definition good (seen : list O) (r : record) : Prop :=
  match r with
  | RExec _ _ ba sa bi si p _ =>
      exists ob os, In ob seen /\ In os seen /\ oid ob = bi /\ oid os = si /\ isbuy ob = true /\ isbuy os = false /\
                    Match.agent ob = ba /\ Match.agent os = sa /\
                    (forall l, price ob = Some l -> qltb l p = false) /\ (forall l, price os = Some l -> qltb p l = false)
  | _ => True
  end.
Fixpoint fw (seen : list O) (rs : list record) : Prop :=
  match rs with
  | [] => True
  | r :: rest => good seen r /\ fw (match r with ROrder o => o :: seen | _ => seen end) rest
  end.

Lemma good_mono s1 s2 r : incl s1 s2 -> good s1 r -> good s2 r.
Proof. intros Hi. destruct r; simpl; auto. intros [ob [os [A [B C]]]]. exists ob, os. split; [apply Hi; exact A|]. split; [apply Hi; exact B|exact C]. Qed.
Lemma fw_mono rs : forall s1 s2, incl s1 s2 -> fw s1 rs -> fw s2 rs.
Proof.
  induction rs as [|r rest IH]; simpl; intros s1 s2 Hi; auto. intros [G F]. split; [eapply good_mono; eauto|].
  destruct r; try solve [eapply IH; eauto]. eapply IH; [|exact F]. intros x [->|Hx]; [left; reflexivity|right; apply Hi; exact Hx].
Qed.
Lemma fw_app a : forall seen b, fw seen a -> fw (orders_of a ++ seen) b -> fw seen (a ++ b).
Proof.
  induction a as [|r rest IH]; simpl; intros seen b; [auto|]. intros [G F] Hb. split; [exact G|].
  destruct r; simpl in Hb; try solve [apply IH; assumption].
  apply IH; [exact F|]. eapply fw_mono; [|exact Hb]. intros x Hx. apply in_app_iff. simpl in Hx. destruct Hx as [<-|Hx]; [right; left; reflexivity|].
  apply in_app_iff in Hx. destruct Hx as [Hx|Hx]; [left; exact Hx|right; right; exact Hx].
Qed.
Lemma fw_split a : forall seen r b, fw seen (a ++ r :: b) -> good (orders_of a ++ seen) r.
Proof.
  induction a as [|x rest IH]; simpl; intros seen r b [G F]; [exact G|].
  destruct x; try solve [apply IH with (b := b); exact F]. simpl.
  eapply good_mono; [|apply (IH _ _ _ F)]. intros y Hy. apply in_app_iff in Hy. destruct Hy as [Hy|[<-|Hy]]; [right; apply in_app_iff; auto|left; reflexivity|right; apply in_app_iff; auto].
Qed.
Lemma fw_no_fill seen rs : Forall (fun r => is_fill r = false) rs -> (forall o, ~ In (ROrder o) rs) -> fw seen rs.
Proof.
  induction rs as [|r rest IH]; simpl; auto. intros H N. inversion H; subst. split.
  - destruct r; simpl; auto; discriminate.
  - destruct r; try solve [apply IH; [assumption|intros o' C; apply (N o'); right; exact C]]. exfalso. apply (N o). left. reflexivity.
Qed.

(* every order resting in the book was accepted with the same id, limit, side and agent *)
Definition booked (m : market) (rs : list record) : Prop :=
  forall o, In o (m_buys m) \/ In o (m_sells m) -> exists o0, In o0 (orders_of rs) /\ same_terms o o0.
Definition fill_inv (m : market) (rs : list record) : Prop := booked m rs /\ fw [] rs.

Lemma booked_sub m m' rs recs :
  (forall o', In o' (m_buys m') \/ In o' (m_sells m') -> exists o, (In o (m_buys m) \/ In o (m_sells m)) /\ same_terms o' o) ->
  booked m rs -> booked m' (rs ++ recs).
Proof.
  intros Hs B o' Ho'. destruct (Hs _ Ho') as [o [Ho T]]. destruct (B _ Ho) as [o0 [I0 T0]].
  exists o0. split; [rewrite orders_of_app; apply in_app_iff; left; exact I0|]. eapply same_terms_trans; eauto.
Qed.

Lemma dec_vol_terms i v (l g l' g' : list O) : dec_vol i v l g = Ok (l', g') ->
  forall x, In x l' -> exists y, In y l /\ same_terms x y.
Proof.
  unfold dec_vol. destruct (find_id i l) as [o|]; [|discriminate]. destruct (vol o - v =? 0).
  - intros H; inversion H; subst. intros x Hx. exists x. split; [eapply In_remove_id; eauto|apply same_terms_refl].
  - destruct (vol o - v <? 0); [discriminate|]. intros H; inversion H; subst. intros x Hx.
    apply In_set_vol in Hx. destruct Hx as [y [Hy [->| ->]]]; exists y; split; auto; repeat split.
Qed.

Lemma apply_fill_terms p m f m' r : apply_fill p m f = Ok (m', r) ->
  forall o', In o' (m_buys m') \/ In o' (m_sells m') -> exists o, (In o (m_buys m) \/ In o (m_sells m)) /\ same_terms o' o.
Proof.
  unfold apply_fill. destruct f as [v b s]. destruct (negb (m_running m)); [discriminate|]. destruct (v <=? 0); [discriminate|].
  destruct (dec_vol (oid b) v (m_buys m) (m_gone m)) as [[bs g1]|] eqn:E1; [|discriminate]. simpl.
  destruct (dec_vol (oid s) v (m_sells m) g1) as [[ss g2]|] eqn:E2; [|discriminate]. simpl.
  intros H; inversion H; subst; clear H. rewrite ump_buys, ump_sells. cbn. intros o' [Ho|Ho].
  - destruct (dec_vol_terms _ _ _ _ _ _ E1 _ Ho) as [y [Hy T]]. exists y. auto.
  - destruct (dec_vol_terms _ _ _ _ _ _ E2 _ Ho) as [y [Hy T]]. exists y. auto.
Qed.

Lemma apply_fills_terms p fs : forall m m' rs, apply_fills p m fs = Ok (m', rs) ->
  forall o', In o' (m_buys m') \/ In o' (m_sells m') -> exists o, (In o (m_buys m) \/ In o (m_sells m)) /\ same_terms o' o.
Proof.
  induction fs as [|f r IH]; simpl; intros m m' rs H.
  - inversion H; subst. intros o' Ho. exists o'. split; [exact Ho|apply same_terms_refl].
  - destruct (apply_fill p m f) as [[m1 x]|] eqn:E1; [|discriminate]. simpl in H.
    destruct (apply_fills p m1 r) as [[m2 xs]|] eqn:E2; [|discriminate]. simpl in H. inversion H; subst.
    intros o' Ho. destruct (IH _ _ _ E2 _ Ho) as [o1 [H1 T1]]. destruct (apply_fill_terms _ _ _ _ _ E1 _ H1) as [o [H0 T0]].
    exists o. split; [exact H0|eapply same_terms_trans; eauto].
Qed.

Lemma good_of_fill m rs p f : book_ok m -> booked m rs -> withinq p f -> In (fbuy f) (m_buys m) -> In (fsell f) (m_sells m) ->
  good (orders_of rs) (log_of m p f).
Proof.
  intros Hb B [W1 W2] Ib Is. destruct (fills_are_resting m f Hb Ib Is) as [Sb [Ss _]].
  destruct (B _ (or_introl Ib)) as [ob [Iob [B1 [B2 [B3 B4]]]]]. destruct (B _ (or_intror Is)) as [os [Ios [S1 [S2 [S3 S4]]]]].
  unfold log_of. simpl. exists ob, os. repeat split; auto; try congruence.
  - intros l Hl. rewrite B2 in Hl. specialize (W1 _ Hl). unfold ple in W1. apply negb_true_iff in W1. exact W1.
  - intros l Hl. rewrite S2 in Hl. specialize (W2 _ Hl). unfold ple in W2. apply negb_true_iff in W2. exact W2.
Qed.

Lemma fw_fills seen (logs : list record) : Forall (good seen) logs -> (forall o, ~ In (ROrder o) logs) -> fw seen logs.
Proof.
  induction logs as [|r rest IH]; simpl; auto. intros H N. inversion H; subst. split; [assumption|].
  destruct r; try solve [apply IH; [assumption|intros o' C; apply (N o'); right; exact C]]. exfalso. apply (N o). left. reflexivity.
Qed.

(* the invariant is preserved by every Level-M operation *)
Lemma fill_inv_step m rs o m' recs :
  life_ok m -> gone_mkt m -> fill_inv m rs -> valid_op o -> step_rec m o = Ok (m', recs) -> fill_inv m' (rs ++ recs).
Proof.
  intros [Hb _] _ [B F] _. destruct o; cbn [step_rec]; try discriminate.
  - (* accepted order *)
    destruct (add_order m ag mk buy p v ttlv) as [[m1 r]|] eqn:E; [|discriminate]. simpl. intros H; inversion H; subst.
    destruct (add_order_next _ _ _ _ _ _ _ _ _ E) as [_ [_ [o [-> [_ [_ [_ [_ [_ [_ [_ [_ Hbk]]]]]]]]]]]].
    split; [|apply fw_app; [exact F|simpl; auto]].
    intros o' Ho'. rewrite orders_of_app. simpl.
    assert (C : o' = o \/ In o' (m_buys m) \/ In o' (m_sells m)).
    { destruct buy; destruct Hbk as [E1 E2]; rewrite E1, E2 in Ho'; destruct Ho' as [Ho'|Ho']; try (apply In_insert in Ho'; destruct Ho'); auto. }
    destruct C as [->|C].
    + exists o. split; [apply in_app_iff; right; left; reflexivity|apply same_terms_refl].
    + destruct (B _ C) as [o0 [I0 T0]]. exists o0. split; [apply in_app_iff; left; exact I0|exact T0].
  - (* accepted cancel *)
    destruct (cancel_order m i) as [[m1 r]|] eqn:E; [|discriminate]. simpl. intros H; inversion H; subst.
    destruct (cancel_order_record _ _ _ _ E) as [oc [c ->]].
    split; [|apply fw_app; [exact F|simpl; auto]].
    apply (booked_sub m); [|exact B]. intros o' Ho'. exists o'. split; [|apply same_terms_refl].
    revert E Ho'. unfold cancel_order. destruct (m_time m <? 0); [discriminate|].
    destruct (find_id i (m_buys m)); [|destruct (find_id i (m_sells m)); [|destruct (find_id i (m_gone m)); [|discriminate]]];
      intros E; inversion E; subst; rewrite ump_buys, ump_sells; cbn; intros [Ho'|Ho']; auto; first [left; eapply In_remove_id; eassumption | right; eapply In_remove_id; eassumption].
  - (* matching round *)
    intros E. split.
    + apply (booked_sub m); [|exact B]. revert E. unfold execution. destruct (negb (executable m)).
      * intros H; inversion H; subst. intros o' Ho'. exists o'. split; [exact Ho'|apply same_terms_refl].
      * destruct (run_walk m) as [[p|] fs]; [|discriminate]. destruct (apply_fills p m fs) as [[m1 lg]|] eqn:Ea; [|discriminate]. simpl.
        destruct (executable m1); [discriminate|]. intros H; inversion H; subst. eapply apply_fills_terms; eauto.
    + apply fw_app; [exact F|]. rewrite app_nil_r. destruct (execution_fills _ _ _ Hb E) as [->|[p [fs [_ [-> [W M]]]]]]; [exact Logic.I|].
      apply fw_fills.
      * apply Forall_forall. intros r Hr. apply in_map_iff in Hr. destruct Hr as [f [<- Hf]].
        rewrite Forall_forall in W, M. destruct (M _ Hf) as [Ib Is]. apply good_of_fill; auto.
      * intros o C. apply in_map_iff in C. destruct C as [f [C _]]. discriminate.
  - (* clock step *)
    pose proof (tick_records m f) as Tr. pose proof (tick_buys m f) as Tb. pose proof (tick_sells m f) as Ts.
    destruct (tick m f) as [m1 rs1]. cbn [fst snd] in Tr, Tb, Ts. intros H. injection H as <- <-. split.
    + apply (booked_sub m); [|exact B]. intros o' Ho'. exists o'. split; [|apply same_terms_refl].
      rewrite Tb, Ts in Ho'. destruct Ho' as [Ho'|Ho']; apply filter_In in Ho'; tauto.
    + apply fw_app; [exact F|]. rewrite Tr. apply fw_no_fill.
      * apply Forall_forall. intros r Hr. apply in_map_iff in Hr. destruct Hr as [x [<- _]]. reflexivity.
      * intros o C. apply in_map_iff in C. destruct C as [x [C _]]. discriminate.
  - intros H; inversion H; subst. rewrite app_nil_r. split; assumption.
  - intros H; inversion H; subst. rewrite app_nil_r. split; assumption.
  - intros H; inversion H; subst. rewrite app_nil_r. split; assumption.
  - intros H; inversion H; subst. rewrite app_nil_r. split; assumption.
  - intros H; inversion H; subst. rewrite app_nil_r. split; assumption.
Qed.

Lemma fill_inv_fund m rs v : fill_inv m rs -> fill_inv (m <| m_fund := upd (m_fund m) (zi (m_time m)) (Some v) |>) rs.
Proof. intros H. exact H. Qed.

Lemma fill_inv_init id tk mp0 : fill_inv (init_market id tk mp0) [].
Proof. split; [intros o [[]|[]]|exact Logic.I]. Qed.

(* IN EVERY SIMULATION, for every market: each fill among the market's records (in chronological order) is preceded by the acceptance
   records of its buy order and of its sell order, names their agents, and its price is no higher than the limit the buy order was
   accepted with and no lower than the limit the sell order was accepted with (market orders impose no bound). *)
Theorem fills_honour_accepted_limits_in_every_run c tape batches funds :
  NoDup (map mc_id (c_markets c)) ->
  let s := run c tape batches funds in
  valid_tr s -> forall x, In x (s_markets s) ->
  forall before mk t ba sa bi si p v after,
    of_mkt (m_id (mk_m x)) (truths (events_of s)) = before ++ RExec mk t ba sa bi si p v :: after ->
    exists ob os, In (ROrder ob) before /\ In (ROrder os) before /\ oid ob = bi /\ oid os = si /\ isbuy ob = true /\ isbuy os = false /\
                  Match.agent ob = ba /\ Match.agent os = sa /\
                  (forall l, price ob = Some l -> (p <= l)%Q) /\ (forall l, price os = Some l -> (l <= p)%Q).
Proof.
  intros N s V x Hx before mk t ba sa bi si p v after E.
  pose proof (market_invariant_of_every_run fill_inv fill_inv_step fill_inv_fund c tape batches funds N
                (fun mc _ => fill_inv_init (mc_id mc) (mc_tick mc) (mc_mp0 mc)) V x Hx) as [_ F].
  fold s in F. rewrite E in F. apply fw_split in F. rewrite app_nil_r in F. simpl in F.
  destruct F as [ob [os [Iob [Ios [E1 [E2 [E3 [E4 [E5 [E6 [L1 L2]]]]]]]]]]].
  exists ob, os. rewrite <- !orders_of_in. repeat split; auto.
  - intros l Hl. specialize (L1 _ Hl). unfold qltb in L1. apply negb_false_iff in L1. apply Qle_bool_iff in L1. exact L1.
  - intros l Hl. specialize (L2 _ Hl). unfold qltb in L2. apply negb_false_iff in L2. apply Qle_bool_iff in L2. exact L2.
Qed.

(* ---------------- accepted at most once, with consecutive ids: in every simulation (C04) ---------------- *)
Definition ids_inv (m : market) (rs : list record) : Prop :=
  0 <= m_next m /\ accepted_ids rs = map Z.of_nat (seq 0 (Z.to_nat (m_next m))).

Lemma ids_inv_step m rs o m' recs :
  life_ok m -> gone_mkt m -> ids_inv m rs -> valid_op o -> step_rec m o = Ok (m', recs) -> ids_inv m' (rs ++ recs).
Proof.
  intros _ _ [N A] _ E. unfold ids_inv. rewrite accepted_ids_app, A.
  destruct (step_rec_accepts _ _ _ _ E) as [[-> ->]|[-> ->]].
  - rewrite app_nil_r. auto.
  - split; [lia|]. replace (Z.to_nat (m_next m + 1)) with (Z.to_nat (m_next m) + 1)%nat by lia.
    rewrite seq_app, map_app. simpl. f_equal. f_equal. lia.
Qed.

Theorem accepted_ids_consecutive_in_every_run c tape batches funds :
  NoDup (map mc_id (c_markets c)) ->
  let s := run c tape batches funds in
  valid_tr s -> forall x, In x (s_markets s) ->
  accepted_ids (of_mkt (m_id (mk_m x)) (truths (events_of s))) = map Z.of_nat (seq 0 (Z.to_nat (m_next (mk_m x)))).
Proof.
  intros N s V x Hx.
  exact (proj2 (market_invariant_of_every_run ids_inv ids_inv_step (fun m rs v H => H) c tape batches funds N
                  (fun mc _ => conj (Z.le_refl 0) eq_refl) V x Hx)).
Qed.
