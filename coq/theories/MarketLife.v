(* C04: order lifetime in the Level-M model - acceptance, expiry, cancel, and "dead stays dead". *)
Require Import Pams.Prelude Pams.Tick Pams.Match Pams.Market Pams.MatchQ Pams.MarketInv Pams.MarketExec.
From Coq Require Import Sorted.
From RecordUpdate Require Import RecordSet.
Import RecordSetNotations.
Open Scope Z_scope.

(* ---------------- invariants ---------------- *)
(* an order may rest at time t only while t <= accepted time + time-to-live *)
Definition unexpired (t : Z) (o : O) : Prop := forall k, ttl o = Some k -> t <= placed o + k.
Definition cross_ok (m : market) : Prop :=
  forall b s, In b (m_buys m) -> In s (m_sells m) -> oid b <> oid s.
Definition live_ok (m : market) : Prop :=
  Forall (unexpired (m_time m)) (m_buys m) /\ Forall (unexpired (m_time m)) (m_sells m).
Definition gone_ok (m : market) : Prop := Forall (fun o : O => oid o < m_next m) (m_gone m).
Definition life_ok (m : market) : Prop := book_ok m /\ cross_ok m /\ live_ok m /\ gone_ok m.

Definition resting (m : market) (i : Z) : Prop :=
  In i (map (@oid Q) (m_buys m)) \/ In i (map (@oid Q) (m_sells m)).

Lemma life_ok_init id tk mp0 : life_ok (init_market id tk mp0).
Proof.
  split; [apply book_ok_init|]. split; [intros b s []|]. split; [split; constructor|constructor].
Qed.

Lemma unexpired_with_vol t o v : unexpired t o -> unexpired t (with_vol o v).
Proof. unfold unexpired. simpl. auto. Qed.

Lemma Forall_insert (P : O -> Prop) o l : P o -> Forall P l -> Forall P (insert o l).
Proof.
  intros Ho Hl. rewrite Forall_forall in *. intros x Hx. apply In_insert in Hx. destruct Hx as [->|Hx]; auto.
Qed.

Lemma in_ids_remove i k l : In k (map (@oid Q) (remove_id i l)) -> In k (map (@oid Q) l).
Proof.
  rewrite !in_map_iff. intros [x [Hx Hin]]. exists x. split; auto. eapply In_remove_id; eauto.
Qed.

Lemma in_ids_filter (f : O -> bool) k l : In k (map (@oid Q) (filter f l)) -> In k (map (@oid Q) l).
Proof.
  rewrite !in_map_iff. intros [x [Hx Hin]]. exists x. split; auto. apply filter_In in Hin. tauto.
Qed.

Lemma in_ids_insert o k l : In k (map (@oid Q) (insert o l)) -> k = oid o \/ In k (map (@oid Q) l).
Proof.
  rewrite !in_map_iff. intros [x [Hx Hin]]. apply In_insert in Hin. destruct Hin as [->|Hin]; auto.
  right. exists x. auto.
Qed.

(* a removed id is gone from a duplicate-free side *)
Lemma remove_id_gone i l : NoDup (map (@oid Q) l) -> ~ In i (map (@oid Q) (remove_id i l)).
Proof.
  induction l as [|x r IH]; simpl; intros H; auto.
  inversion H as [|? ? Hn Hr]; subst. destruct (oid x =? i) eqn:E.
  - apply Z.eqb_eq in E. subst. exact Hn.
  - simpl. intros [C|C]; [apply Z.eqb_neq in E; auto|]. apply IH; auto.
Qed.

Lemma find_id_in_ids i l o : find_id i l = Some o -> In i (map (@oid Q) l).
Proof. intros H. apply find_id_In in H. destruct H as [H <-]. apply in_map. auto. Qed.

Lemma find_id_none_ids i l : find_id i l = None -> ~ In i (map (@oid Q) l).
Proof.
  intros H C. apply find_id_None in H. rewrite Forall_forall in H. apply in_map_iff in C.
  destruct C as [x [Hx Hin]]. apply (H x Hin). auto.
Qed.

(* ---------------- add ---------------- *)
Lemma add_order_next m ag mk buy p v ttlv m' r :
  add_order m ag mk buy p v ttlv = Ok (m', r) ->
  m_next m' = m_next m + 1 /\ m_time m' = m_time m /\
  exists o, r = ROrder o /\ oid o = m_next m /\ vol o = v /\ placed o = m_time m /\ ttl o = ttlv /\
            agent o = ag /\ mkt o = mk /\ isbuy o = buy /\ mk = m_id m /\
            (if buy then m_buys m' = insert o (m_buys m) /\ m_sells m' = m_sells m
             else m_sells m' = insert o (m_sells m) /\ m_buys m' = m_buys m).
Proof.
  unfold add_order. destruct (m_time m <? 0); [discriminate|].
  destruct (mk =? m_id m) eqn:Emk; simpl; [|discriminate]. apply Z.eqb_eq in Emk.
  intros H; inversion H; subst; clear H.
  destruct buy; cbn; rewrite ?ump_next, ?ump_time, ?ump_buys, ?ump_sells; cbn;
    (split; [reflexivity|]; split; [reflexivity|]; eexists; repeat split; reflexivity).
Qed.

Lemma add_order_life m ag mk buy p v ttlv m' r :
  life_ok m -> 0 < v -> (forall k, ttlv = Some k -> 0 < k) ->
  add_order m ag mk buy p v ttlv = Ok (m', r) -> life_ok m'.
Proof.
  intros [Hb [Hc [[Lb Ls] Hg]]] Hv Hk H.
  pose proof (add_order_ok _ _ _ _ _ _ _ _ _ Hb Hv H) as Hb'.
  assert (Hg' : gone_ok m').
  { unfold gone_ok in *. revert H. unfold add_order. destruct (m_time m <? 0); [discriminate|].
    destruct (negb (mk =? m_id m)); [discriminate|]. intros H; inversion H; subst; clear H.
    destruct buy; cbn; rewrite ump_gone, ump_next; cbn; eapply Forall_impl; [|exact Hg| |exact Hg]; cbn; intros; lia. }
  destruct (add_order_next _ _ _ _ _ _ _ _ _ H) as [Hn [Ht [o [-> [Ho [Hvo [Hp [Httl [_ [_ [_ [_ Hbk]]]]]]]]]]]].
  destruct Hb as [[_ EB _] [_ ES _]]. rewrite Forall_forall in EB, ES.
  assert (Hu : unexpired (m_time m) o).
  { intros k Hk'. rewrite Httl in Hk'. specialize (Hk k Hk'). lia. }
  split; auto. split.
  - intros b s Ib Is. destruct buy; destruct Hbk as [E1 E2]; rewrite E1 in *; rewrite E2 in *.
    + apply In_insert in Ib. destruct Ib as [->|Ib]; [|apply Hc; auto].
      destruct (ES _ Is) as [_ [Hlt _]]. lia.
    + apply In_insert in Is. destruct Is as [->|Is]; [|apply Hc; auto].
      destruct (EB _ Ib) as [_ [Hlt _]]. lia.
  - split; auto. unfold live_ok. rewrite Ht. destruct buy; destruct Hbk as [E1 E2]; rewrite E1, E2; split; auto using Forall_insert.
Qed.

(* ---------------- cancel ---------------- *)
Lemma remove_id_Forall' (P : O -> Prop) i l : Forall P l -> Forall P (remove_id i l).
Proof. apply remove_id_Forall. Qed.

Lemma cancel_order_life m i m' r : life_ok m -> cancel_order m i = Ok (m', r) -> life_ok m'.
Proof.
  intros [Hb [Hc [[Lb Ls] Hg]]] H. pose proof (cancel_order_ok _ _ _ _ Hb H) as Hb'.
  split; auto. revert H. unfold cancel_order. destruct (m_time m <? 0); [discriminate|].
  destruct Hb as [[_ EB _] [_ ES _]]. rewrite Forall_forall in EB, ES.
  destruct (find_id i (m_buys m)) as [o|] eqn:Fb; [|destruct (find_id i (m_sells m)) as [o|] eqn:Fs; [|destruct (find_id i (m_gone m)); [|discriminate]]];
    intros H; inversion H; subst; clear H; unfold cross_ok, live_ok, gone_ok;
    rewrite ?ump_buys, ?ump_sells, ?ump_time, ?ump_gone, ?ump_next; cbn; split; auto.
  - intros b s Ib Is. apply Hc; auto. eapply In_remove_id; eauto.
  - split; [split; auto using remove_id_Forall|]. apply Forall_app. split; auto.
    constructor; auto. apply find_id_In in Fb. destruct Fb as [Ib _]. apply (EB _ Ib).
  - intros b s Ib Is. apply Hc; auto. eapply In_remove_id; eauto.
  - split; [split; auto using remove_id_Forall|]. apply Forall_app. split; auto.
    constructor; auto. apply find_id_In in Fs. destruct Fs as [Is _]. apply (ES _ Is).
Qed.

(* an accepted cancel leaves its order on neither side of the book *)
Lemma cancel_order_kills m i m' r : life_ok m -> cancel_order m i = Ok (m', r) -> ~ resting m' i.
Proof.
  intros [Hb [Hc _]]. destruct Hb as [[_ EB NB] [_ ES NS]].
  unfold cancel_order. destruct (m_time m <? 0); [discriminate|].
  destruct (find_id i (m_buys m)) as [o|] eqn:Fb.
  - intros H; inversion H; subst; clear H. unfold resting. rewrite ump_buys, ump_sells. cbn.
    intros [C|C]; [exact (remove_id_gone i _ NB C)|].
    apply in_map_iff in C. destruct C as [s [Hs Is]]. apply find_id_In in Fb. destruct Fb as [Ib Ho].
    apply (Hc o s Ib Is). congruence.
  - destruct (find_id i (m_sells m)) as [o|] eqn:Fs.
    + intros H; inversion H; subst; clear H. unfold resting. rewrite ump_buys, ump_sells. cbn.
      intros [C|C]; [exact (find_id_none_ids _ _ Fb C)|exact (remove_id_gone i _ NS C)].
    + destruct (find_id i (m_gone m)); [|discriminate].
      intros H; inversion H; subst; clear H. unfold resting. rewrite ump_buys, ump_sells.
      intros [C|C]; [exact (find_id_none_ids _ _ Fb C)|exact (find_id_none_ids _ _ Fs C)].
Qed.

(* ---------------- clock step / expiry ---------------- *)
Lemma In_ins_by_id o x l : In x (ins_by_id o l) <-> x = o \/ In x l.
Proof.
  induction l as [|y r IH]; simpl; [intuition|].
  destruct (oid o <? oid y); simpl; rewrite ?IH; intuition.
Qed.
Lemma In_by_id x l : In x (by_id l) <-> In x l.
Proof.
  induction l as [|y r IH]; simpl; [tauto|]. rewrite In_ins_by_id, IH. intuition.
Qed.

Lemma tick_records m f :
  snd (tick m f) = map (fun o => RExpire o (m_time m + 1))
                       (by_id (filter (expired (m_time m + 1)) (m_buys m)) ++
                        by_id (filter (expired (m_time m + 1)) (m_sells m))).
Proof. reflexivity. Qed.

(* under the lifetime invariant "expired at the new time t" means exactly: accepted time + ttl + 1 = t *)
Lemma expired_exact m o : unexpired (m_time m) o ->
  (expired (m_time m + 1) o = true <-> exists k, ttl o = Some k /\ placed o + k + 1 = m_time m + 1).
Proof.
  intros U. unfold expired. destruct (ttl o) as [k|] eqn:E.
  - specialize (U k E). rewrite Z.ltb_lt. split.
    + intros H. exists k. split; auto. lia.
    + intros [k' [Hk Hp]]. inversion Hk; subst. lia.
  - split; [discriminate|]. intros [k [C _]]. discriminate.
Qed.

Lemma tick_gone m f : m_gone (fst (tick m f)) =
  m_gone m ++ by_id (filter (expired (m_time m + 1)) (m_buys m)) ++ by_id (filter (expired (m_time m + 1)) (m_sells m)).
Proof. unfold tick, fill_until. cbn. break_match; cbn; reflexivity. Qed.

Lemma tick_life m f : life_ok m -> life_ok (fst (tick m f)).
Proof.
  intros [Hb [Hc [[Lb Ls] Hg]]]. split; [apply tick_ok; auto|]. split; [|split].
  - unfold cross_ok. rewrite tick_buys, tick_sells. intros b s Ib Is.
    apply filter_In in Ib. apply filter_In in Is. apply Hc; tauto.
  - unfold live_ok. rewrite tick_buys, tick_sells, tick_time.
    split; rewrite Forall_forall in *; intros o Ho; apply filter_In in Ho; destruct Ho as [Ho Hx];
      intros k Hk; unfold expired in Hx; rewrite Hk in Hx; apply negb_true_iff in Hx; apply Z.ltb_ge in Hx; lia.
  - unfold gone_ok. rewrite tick_gone, tick_next. destruct Hb as [[_ EB _] [_ ES _]].
    rewrite Forall_forall in EB, ES. rewrite !Forall_app. split; auto.
    split; rewrite Forall_forall; intros o Ho; apply (proj1 (In_by_id _ _)) in Ho; apply filter_In in Ho; destruct Ho as [Ho _].
    + apply (EB _ Ho).
    + apply (ES _ Ho).
Qed.

(* the clock step reports exactly the resting orders whose lifetime ended at the previous time,
   removes exactly those, and keeps every other resting order as it was *)
Theorem tick_expiry_exact m f : life_ok m ->
  let t := m_time m + 1 in
  (forall o t', In (RExpire o t') (snd (tick m f)) <->
     t' = t /\ (In o (m_buys m) \/ In o (m_sells m)) /\ exists k, ttl o = Some k /\ placed o + k + 1 = t) /\
  (forall o, In o (m_buys (fst (tick m f))) <-> In o (m_buys m) /\ ~ (exists k, ttl o = Some k /\ placed o + k + 1 = t)) /\
  (forall o, In o (m_sells (fst (tick m f))) <-> In o (m_sells m) /\ ~ (exists k, ttl o = Some k /\ placed o + k + 1 = t)).
Proof.
  intros [Hb [Hc [[Lb Ls] _]]]. cbv zeta. rewrite Forall_forall in Lb, Ls. repeat split.
  - rewrite tick_records in H. apply in_map_iff in H. destruct H as [x [Hx _]]. inversion Hx; auto.
  - rewrite tick_records in H. apply in_map_iff in H. destruct H as [x [Hx Hin]]. inversion Hx; subst.
    apply in_app_iff in Hin. destruct Hin as [Hin|Hin]; apply (proj1 (In_by_id _ _)) in Hin; apply filter_In in Hin; tauto.
  - rewrite tick_records in H. apply in_map_iff in H. destruct H as [x [Hx Hin]]. inversion Hx; subst.
    apply in_app_iff in Hin. destruct Hin as [Hin|Hin]; apply (proj1 (In_by_id _ _)) in Hin; apply filter_In in Hin;
      destruct Hin as [Hin He]; apply expired_exact in He; auto.
  - intros [-> [Hin Hk]]. rewrite tick_records. apply in_map_iff. exists o. split; auto.
    apply in_app_iff. destruct Hin as [Hin|Hin]; [left|right]; apply (proj2 (In_by_id _ _)); apply filter_In; split; auto;
      apply expired_exact; auto.
  - rewrite tick_buys in H. apply filter_In in H. tauto.
  - rewrite tick_buys in H. apply filter_In in H. destruct H as [Hin Hx]. intros Hk.
    apply (expired_exact m o (Lb _ Hin)) in Hk. rewrite Hk in Hx. discriminate.
  - intros [Hin Hk]. rewrite tick_buys. apply filter_In. split; auto.
    destruct (expired (m_time m + 1) o) eqn:E; auto. apply (expired_exact m o (Lb _ Hin)) in E. tauto.
  - rewrite tick_sells in H. apply filter_In in H. tauto.
  - rewrite tick_sells in H. apply filter_In in H. destruct H as [Hin Hx]. intros Hk.
    apply (expired_exact m o (Ls _ Hin)) in Hk. rewrite Hk in Hx. discriminate.
  - intros [Hin Hk]. rewrite tick_sells. apply filter_In. split; auto.
    destruct (expired (m_time m + 1) o) eqn:E; auto. apply (expired_exact m o (Ls _ Hin)) in E. tauto.
Qed.

(* ---------------- fills ---------------- *)
Lemma dec_vol_elems i v l g l' g' :
  dec_vol i v l g = Ok (l', g') ->
  (forall x, In x l' -> exists y, In y l /\ oid x = oid y /\ placed x = placed y /\ ttl x = ttl y) /\
  (forall x, In x g' -> In x g \/ exists y, In y l /\ oid x = oid y).
Proof.
  unfold dec_vol. destruct (find_id i l) as [o|] eqn:F; [|discriminate].
  apply find_id_In in F. destruct F as [Io _].
  destruct (vol o - v =? 0).
  - intros H; inversion H; subst. split.
    + intros x Hx. exists x. split; auto. eapply In_remove_id; eauto.
    + intros x Hx. apply in_app_iff in Hx. destruct Hx as [Hx|[<-|[]]]; auto. right. exists o. auto.
  - destruct (vol o - v <? 0); [discriminate|]. intros H; inversion H; subst. split; auto.
    intros x Hx. apply In_set_vol in Hx. destruct Hx as [y [Hy [->| ->]]]; exists y; auto.
Qed.

Lemma apply_fill_life p m f m' r : life_ok m -> apply_fill p m f = Ok (m', r) -> life_ok m'.
Proof.
  intros [Hb [Hc [[Lb Ls] Hg]]] H. pose proof (apply_fill_ok _ _ _ _ _ Hb H) as Hb'. split; auto.
  revert H. unfold apply_fill. destruct f as [v b s]. destruct (negb (m_running m)); [discriminate|].
  destruct (v <=? 0); [discriminate|].
  destruct (dec_vol (oid b) v (m_buys m) (m_gone m)) as [[bs g1]|] eqn:E1; [|discriminate]. simpl.
  destruct (dec_vol (oid s) v (m_sells m) g1) as [[ss g2]|] eqn:E2; [|discriminate]. simpl.
  intros H; inversion H; subst; clear H.
  destruct (dec_vol_elems _ _ _ _ _ _ E1) as [B1 G1]. destruct (dec_vol_elems _ _ _ _ _ _ E2) as [B2 G2].
  destruct Hb as [[_ EB _] [_ ES _]]. rewrite Forall_forall in EB, ES, Lb, Ls.
  unfold cross_ok, live_ok, gone_ok. rewrite ump_buys, ump_sells, ump_time, ump_gone, ump_next. cbn. split; [|split].
  - intros x y Ix Iy. destruct (B1 _ Ix) as [x0 [Hx0 [Ex _]]]. destruct (B2 _ Iy) as [y0 [Hy0 [Ey _]]].
    rewrite Ex, Ey. apply Hc; auto.
  - split; rewrite Forall_forall; intros x Ix.
    + destruct (B1 _ Ix) as [x0 [Hx0 [_ [Ep Et]]]]. intros k Hk. rewrite Ep. apply (Lb _ Hx0). congruence.
    + destruct (B2 _ Ix) as [x0 [Hx0 [_ [Ep Et]]]]. intros k Hk. rewrite Ep. apply (Ls _ Hx0). congruence.
  - rewrite Forall_forall. intros x Ix. unfold gone_ok in Hg. rewrite Forall_forall in Hg.
    destruct (G2 _ Ix) as [Ix1|[y [Hy ->]]].
    + destruct (G1 _ Ix1) as [Ix0|[y [Hy ->]]]; [auto|apply (EB _ Hy)].
    + apply (ES _ Hy).
Qed.

Lemma apply_fills_life p fs : forall m m' rs, life_ok m -> apply_fills p m fs = Ok (m', rs) -> life_ok m'.
Proof.
  induction fs as [|f r IH]; simpl; intros m m' rs Hm H.
  - inversion H; subst; auto.
  - destruct (apply_fill p m f) as [[m1 x]|] eqn:E1; [|discriminate]. simpl in H.
    destruct (apply_fills p m1 r) as [[m2 xs]|] eqn:E2; [|discriminate]. simpl in H. inversion H; subst.
    eapply IH; [|exact E2]. eapply apply_fill_life; eauto.
Qed.

Lemma execution_life m m' rs : life_ok m -> execution m = Ok (m', rs) -> life_ok m'.
Proof.
  intros Hm. unfold execution. destruct (negb (executable m)).
  - intros H; inversion H; subst; auto.
  - destruct (run_walk m) as [[p|] fs]; [|discriminate].
    destruct (apply_fills p m fs) as [[m1 logs]|] eqn:E; [|discriminate]. simpl.
    destruct (executable m1); [discriminate|]. intros H; inversion H; subst. eapply apply_fills_life; eauto.
Qed.

Theorem step_rec_life m o m' rs : life_ok m -> valid_op o -> step_rec m o = Ok (m', rs) -> life_ok m'.
Proof.
  intros Hm Hv. destruct o; cbn [step_rec]; try discriminate.
  - destruct (add_order m ag mk buy p v ttlv) as [[m1 r]|] eqn:E; [|discriminate]. simpl.
    intros H; inversion H; subst. destruct Hv as [Hv Hk]. eapply add_order_life; eauto.
    intros k ->. exact Hk.
  - destruct (cancel_order m i) as [[m1 r]|] eqn:E; [|discriminate]. simpl.
    intros H; inversion H; subst. eapply cancel_order_life; eauto.
  - intros H. eapply execution_life; eauto.
  - pose proof (tick_life m f Hm) as Ht. revert Ht. destruct (tick m f) as [m1 rs1]. cbn [fst].
    intros Ht H. inversion H; subst. exact Ht.
  - intros H; inversion H; subst. exact Hm.
  - intros H; inversion H; subst; auto.
  - intros H; inversion H; subst; auto.
  - intros H; inversion H; subst; auto.
  - intros H; inversion H; subst; auto.
Qed.

Theorem reachable_life_ok ops : forall m, life_ok m -> Forall valid_op ops -> life_ok (final_state m ops).
Proof.
  induction ops as [|o r IH]; simpl; intros m Hm Hv; auto.
  inversion Hv; subst. unfold step. destruct (step_rec m o) as [[m' rs]|] eqn:E; simpl; auto.
  apply IH; auto. eapply step_rec_life; eauto.
Qed.

(* ---------------- which ids can rest after a step ---------------- *)
Lemma apply_fill_ids p m f m' r i : apply_fill p m f = Ok (m', r) -> resting m' i -> resting m i.
Proof.
  unfold apply_fill. destruct f as [v b s]. destruct (negb (m_running m)); [discriminate|].
  destruct (v <=? 0); [discriminate|].
  destruct (dec_vol (oid b) v (m_buys m) (m_gone m)) as [[bs g1]|] eqn:E1; [|discriminate]. simpl.
  destruct (dec_vol (oid s) v (m_sells m) g1) as [[ss g2]|] eqn:E2; [|discriminate]. simpl.
  intros H; inversion H; subst; clear H. unfold resting. rewrite ump_buys, ump_sells. cbn.
  destruct (dec_vol_elems _ _ _ _ _ _ E1) as [B1 _]. destruct (dec_vol_elems _ _ _ _ _ _ E2) as [B2 _].
  rewrite !in_map_iff. intros [[x [Hx Ix]]|[x [Hx Ix]]]; [left; destruct (B1 _ Ix) as [y [Hy [Ey _]]]|right; destruct (B2 _ Ix) as [y [Hy [Ey _]]]];
    exists y; split; auto; congruence.
Qed.

Lemma apply_fills_ids p fs : forall m m' rs i, apply_fills p m fs = Ok (m', rs) -> resting m' i -> resting m i.
Proof.
  induction fs as [|f r IH]; simpl; intros m m' rs i H.
  - inversion H; subst; auto.
  - destruct (apply_fill p m f) as [[m1 x]|] eqn:E1; [|discriminate]. simpl in H.
    destruct (apply_fills p m1 r) as [[m2 xs]|] eqn:E2; [|discriminate]. simpl in H. inversion H; subst.
    intros R. eapply apply_fill_ids; eauto.
Qed.

Lemma apply_fills_next p fs : forall m m' rs, apply_fills p m fs = Ok (m', rs) -> m_next m' = m_next m.
Proof.
  induction fs as [|f r IH]; simpl; intros m m' rs H.
  - inversion H; subst; auto.
  - destruct (apply_fill p m f) as [[m1 x]|] eqn:E1; [|discriminate]. simpl in H.
    destruct (apply_fills p m1 r) as [[m2 xs]|] eqn:E2; [|discriminate]. simpl in H. inversion H; subst.
    destruct (apply_fill_frame _ _ _ _ _ E1) as [Hn _]. rewrite (IH _ _ _ E2). auto.
Qed.

(* an id that is below the id counter and not resting can never rest (hence never be filled) again *)
Theorem dead_stays_dead m o m' rs i :
  step_rec m o = Ok (m', rs) -> i < m_next m -> ~ resting m i -> ~ resting m' i /\ i < m_next m'.
Proof.
  destruct o; cbn [step_rec]; try discriminate.
  - destruct (add_order m ag mk buy p v ttlv) as [[m1 r]|] eqn:E; [|discriminate]. simpl.
    intros H Hi Hn; inversion H; subst; clear H.
    destruct (add_order_next _ _ _ _ _ _ _ _ _ E) as [Hx [_ [o [_ [Ho [_ [_ [_ [_ [_ [_ [_ Hbk]]]]]]]]]]]].
    split; [|lia]. unfold resting in *. intros C. apply Hn.
    destruct buy; destruct Hbk as [E1 E2]; rewrite E1, E2 in C; destruct C as [C|C]; auto;
      apply in_ids_insert in C; destruct C as [C|C]; auto; lia.
  - destruct (cancel_order m i0) as [[m1 r]|] eqn:E; [|discriminate]. simpl.
    intros H Hi Hn; inversion H; subst; clear H. revert E. unfold cancel_order.
    destruct (m_time m <? 0); [discriminate|].
    destruct (find_id i0 (m_buys m)); [|destruct (find_id i0 (m_sells m)); [|destruct (find_id i0 (m_gone m)); [|discriminate]]];
      intros H; inversion H; subst; clear H; unfold resting in *; rewrite ump_buys, ump_sells, ump_next; cbn; split; auto;
      intros [C|C]; apply Hn; eauto using in_ids_remove.
  - intros E Hi Hn. unfold execution in E. destruct (negb (executable m)).
    + inversion E; subst; auto.
    + destruct (run_walk m) as [[p|] fs]; [|discriminate].
      destruct (apply_fills p m fs) as [[m1 logs]|] eqn:EA; [|discriminate]. simpl in E.
      destruct (executable m1); [discriminate|]. inversion E; subst.
      rewrite (apply_fills_next _ _ _ _ _ EA). split; auto. intros C. apply Hn. eapply apply_fills_ids; eauto.
  - pose proof (tick_buys m f) as TB. pose proof (tick_sells m f) as TS.
    pose proof (tick_next m f) as TN. destruct (tick m f) as [m1 rs1]. cbn [fst] in TB, TS, TN.
    intros H Hi Hn. inversion H; subst; clear H.
    unfold resting in *. rewrite TB, TS, TN. split; auto. intros [C|C]; apply Hn; eauto using in_ids_filter.
  - intros H Hi Hn; inversion H; subst; auto.
  - intros H Hi Hn; inversion H; subst; auto.
  - intros H Hi Hn; inversion H; subst; auto.
  - intros H Hi Hn; inversion H; subst; auto.
  - intros H Hi Hn; inversion H; subst; auto.
Qed.

(* every fill record of a step names two orders that were resting (on their sides) when the round began, is
   stamped with the current time, and that time is within both orders' lifetimes *)
Theorem fills_name_live_orders m o m' rs mk t ba sa bi si p v :
  life_ok m -> step_rec m o = Ok (m', rs) -> In (RExec mk t ba sa bi si p v) rs ->
  exists b s, In b (m_buys m) /\ In s (m_sells m) /\ oid b = bi /\ oid s = si /\ agent b = ba /\ agent s = sa /\
              t = m_time m /\ mk = m_id m /\ unexpired t b /\ unexpired t s /\ 0 < vol b /\ 0 < vol s.
Proof.
  intros [Hb [Hc [[Lb Ls] Hg]]] H Hin. destruct o; cbn [step_rec] in H; try discriminate.
  - destruct (add_order m ag mk0 buy p0 v0 ttlv) as [[m1 r]|] eqn:E; [|discriminate]. simpl in H. inversion H; subst.
    destruct (add_order_next _ _ _ _ _ _ _ _ _ E) as [_ [_ [o [-> _]]]]. destruct Hin as [C|[]]. discriminate.
  - destruct (cancel_order m i) as [[m1 r]|] eqn:E; [|discriminate]. simpl in H. inversion H; subst.
    destruct Hin as [C|[]]. subst r. unfold cancel_order in E. destruct (m_time m <? 0); [discriminate|].
    destruct (find_id i (m_buys m)); [|destruct (find_id i (m_sells m)); [|destruct (find_id i (m_gone m)); [|discriminate]]]; discriminate.
  - destruct (execution_fills m m' rs Hb H) as [->|[q [fs [HW [-> [_ HF]]]]]]; [destruct Hin|].
    apply in_map_iff in Hin. destruct Hin as [f [Hf If]]. rewrite Forall_forall in HF. destruct (HF _ If) as [Ib Is].
    unfold log_of in Hf. inversion Hf; subst. exists (fbuy f), (fsell f).
    rewrite Forall_forall in Lb, Ls. destruct Hb as [[_ EB _] [_ ES _]]. rewrite Forall_forall in EB, ES.
    destruct (EB _ Ib) as [_ [_ [Vb _]]]. destruct (ES _ Is) as [_ [_ [Vs _]]].
    repeat split; auto.
  - pose proof (tick_records m f) as TR. destruct (tick m f) as [m1 rs1]. cbn [snd] in TR. inversion H; subst.
    apply in_map_iff in Hin. destruct Hin as [x [C _]]. discriminate.
  - inversion H; subst. destruct Hin.
  - inversion H; subst. destruct Hin.
  - inversion H; subst. destruct Hin.
  - inversion H; subst. destruct Hin.
  - inversion H; subst. destruct Hin.
Qed.

(* ---------------- trace level ---------------- *)
Definition fill_names (r : record) (i : Z) : Prop :=
  match r with RExec _ _ _ _ bi si _ _ => bi = i \/ si = i | _ => False end.

Theorem dead_never_filled ops : forall m i,
  life_ok m -> Forall valid_op ops -> i < m_next m -> ~ resting m i ->
  forall r, In r (trace m ops) -> ~ fill_names r i.
Proof.
  induction ops as [|o rest IH]; simpl; intros m i Hm Hv Hi Hn r Hin; [destruct Hin|].
  inversion Hv; subst. destruct (step_rec m o) as [[m' rs]|] eqn:E.
  - apply in_app_iff in Hin. destruct Hin as [Hin|Hin].
    + destruct r; simpl; auto. intros [C|C]; subst;
        destruct (fills_name_live_orders _ _ _ _ _ _ _ _ _ _ _ _ Hm E Hin) as [b [s [Ib [Is [Eb [Es _]]]]]];
        apply Hn; [left|right]; apply in_map_iff; eauto.
    + destruct (dead_stays_dead _ _ _ _ _ E Hi Hn) as [Hn' Hi'].
      exact (IH m' i (step_rec_life _ _ _ _ Hm H1 E) H2 Hi' Hn' r Hin).
  - exact (IH m i Hm H2 Hi Hn r Hin).
Qed.

(* no fill after an accepted cancel *)
Theorem no_fill_after_cancel m i m1 r ops :
  life_ok m -> cancel_order m i = Ok (m1, r) -> Forall valid_op ops ->
  forall x, In x (trace m1 ops) -> ~ fill_names x i.
Proof.
  intros Hm E Hv. apply dead_never_filled; auto.
  - eapply cancel_order_life; eauto.
  - destruct Hm as [[[_ EB _] [_ ES _]] [_ [_ Hg]]]. rewrite Forall_forall in EB, ES. unfold gone_ok in Hg. rewrite Forall_forall in Hg.
    revert E. unfold cancel_order. destruct (m_time m <? 0); [discriminate|].
    destruct (find_id i (m_buys m)) as [o|] eqn:Fb; [|destruct (find_id i (m_sells m)) as [o|] eqn:Fs; [|destruct (find_id i (m_gone m)) as [o|] eqn:Fg; [|discriminate]]];
      intros H; inversion H; subst; clear H; rewrite ump_next; cbn.
    + apply find_id_In in Fb. destruct Fb as [I <-]. apply (EB _ I).
    + apply find_id_In in Fs. destruct Fs as [I <-]. apply (ES _ I).
    + apply find_id_In in Fg. destruct Fg as [I <-]. apply (Hg _ I).
  - eapply cancel_order_kills; eauto.
Qed.

Lemma ids_inj l (x y : O) : NoDup (map (@oid Q) l) -> In x l -> In y l -> oid x = oid y -> x = y.
Proof.
  induction l as [|a r IH]; simpl; intros H Hx Hy E; [destruct Hx|].
  inversion H as [|? ? Hn Hr]; subst. destruct Hx as [->|Hx], Hy as [->|Hy]; auto.
  - exfalso. apply Hn. rewrite E. apply in_map. auto.
  - exfalso. apply Hn. rewrite <- E. apply in_map. auto.
Qed.

(* no fill after expiry: an order reported expired at a clock step is never filled afterwards *)
Theorem no_fill_after_expiry m f o t ops :
  life_ok m -> In (RExpire o t) (snd (tick m f)) -> Forall valid_op ops ->
  forall x, In x (trace (fst (tick m f)) ops) -> ~ fill_names x (oid o).
Proof.
  intros Hm Hin Hv. pose proof (tick_life m f Hm) as Hm'.
  destruct (tick_expiry_exact m f Hm) as [X1 [X2 X3]].
  apply X1 in Hin. destruct Hin as [-> [Hin Hk]].
  destruct Hm as [[[_ EB NB] [_ ES NS]] [Hc _]]. rewrite Forall_forall in EB, ES.
  apply dead_never_filled; auto.
  - rewrite tick_next. destruct Hin as [I|I]; [apply (EB _ I)|apply (ES _ I)].
  - unfold resting. rewrite !in_map_iff. intros [[x [Ex Ix]]|[x [Ex Ix]]].
    + apply X2 in Ix. destruct Ix as [Ix Hx]. destruct Hin as [I|I].
      * assert (x = o) by (exact (ids_inj _ _ _ NB Ix I Ex)). subst. tauto.
      * apply (Hc x o Ix I). auto.
    + apply X3 in Ix. destruct Ix as [Ix Hx]. destruct Hin as [I|I].
      * apply (Hc o x I Ix). auto.
      * assert (x = o) by (exact (ids_inj _ _ _ NS Ix I Ex)). subst. tauto.
Qed.

(* accepted at most once: the ids of the acceptance records along any history strictly increase *)
Fixpoint accepted_ids (rs : list record) : list Z :=
  match rs with
  | [] => []
  | ROrder o :: r => oid o :: accepted_ids r
  | _ :: r => accepted_ids r
  end.

Lemma accepted_ids_app a b : accepted_ids (a ++ b) = accepted_ids a ++ accepted_ids b.
Proof. induction a as [|x r IH]; simpl; auto. destruct x; simpl; rewrite ?IH; auto. Qed.

Lemma accepted_ids_fills m p (fs : list fillq) : accepted_ids (map (log_of m p) fs) = [].
Proof. induction fs; simpl; auto. Qed.
Lemma accepted_ids_expiries t (l : list O) : accepted_ids (map (fun o => RExpire o t) l) = [].
Proof. induction l; simpl; auto. Qed.

Lemma step_rec_accepts m o m' rs : step_rec m o = Ok (m', rs) ->
  (accepted_ids rs = [] /\ m_next m' = m_next m) \/ (accepted_ids rs = [m_next m] /\ m_next m' = m_next m + 1).
Proof.
  destruct o; cbn [step_rec]; try discriminate.
  - destruct (add_order m ag mk buy p v ttlv) as [[m1 r]|] eqn:E; [|discriminate]. simpl.
    intros H; inversion H; subst. right.
    destruct (add_order_next _ _ _ _ _ _ _ _ _ E) as [Hn [_ [o [-> [Ho _]]]]]. simpl. rewrite Ho. auto.
  - destruct (cancel_order m i) as [[m1 r]|] eqn:E; [|discriminate]. simpl.
    intros H; inversion H; subst. left. revert E. unfold cancel_order. destruct (m_time m <? 0); [discriminate|].
    destruct (find_id i (m_buys m)); [|destruct (find_id i (m_sells m)); [|destruct (find_id i (m_gone m)); [|discriminate]]];
      intros H'; inversion H'; subst; rewrite ump_next; auto.
  - intros E. left. unfold execution in E. destruct (negb (executable m)); [inversion E; auto|].
    destruct (run_walk m) as [[p|] fs]; [|discriminate].
    destruct (apply_fills p m fs) as [[m1 logs]|] eqn:EA; [|discriminate]. simpl in E.
    destruct (executable m1); [discriminate|]. inversion E; subst. split; [|eapply apply_fills_next; eauto].
    rewrite (apply_fills_logs _ _ _ _ _ EA). apply accepted_ids_fills.
  - pose proof (tick_records m f) as TR. pose proof (tick_next m f) as TN. destruct (tick m f) as [m1 rs1]. cbn [fst snd] in TR, TN.
    intros H; inversion H; subst. left. split; auto. apply accepted_ids_expiries.
  - intros H; inversion H; subst; auto.
  - intros H; inversion H; subst; auto.
  - intros H; inversion H; subst; auto.
  - intros H; inversion H; subst; auto.
  - intros H; inversion H; subst; auto.
Qed.

Theorem accepted_ids_increasing ops : forall m,
  exists n, accepted_ids (trace m ops) = map (fun k => m_next m + Z.of_nat k) (seq 0 n).
Proof.
  induction ops as [|o r IH]; simpl; intros m; [exists 0%nat; auto|].
  destruct (step_rec m o) as [[m' rs]|] eqn:E; [|apply IH].
  rewrite accepted_ids_app. destruct (IH m') as [n Hn]. rewrite Hn.
  destruct (step_rec_accepts _ _ _ _ E) as [[-> ->]|[-> ->]].
  - exists n. reflexivity.
  - exists (S n). simpl. f_equal; [lia|]. rewrite <- seq_shift, map_map. apply map_ext. intros. lia.
Qed.
