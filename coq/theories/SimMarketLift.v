(* EVERY LEVEL-M INVARIANT IS AN INVARIANT OF EVERY MARKET OF EVERY SIMULATION.
   A market of a run only ever changes through the Level-M operations (accepted order, accepted cancel, matching round, clock step,
   switching matching on / off) and through a fundamental-price shock; the records born in a run, filtered by the market they name,
   are that market's Level-M records.  So a predicate I on (market, records so far) that every valid Level-M operation preserves -
   the shape of MarketAcct.acct_step, MarketLife.step_rec_life, ... - holds for every market of every run together with the run's
   records of that market, for every configuration with distinct market ids, every tape, every agent behaviour. *)
Require Import Pams.Prelude Pams.Tick Pams.Match Pams.Market Pams.MatchQ Pams.MarketInv Pams.MarketExec Pams.MarketLife Pams.MarketRound
               Pams.MarketAcct Pams.MarketPrice Pams.Sim Pams.SimLift Pams.SimInv Pams.SimClock Pams.SimMarks Pams.SimBooks.
From RecordUpdate Require Import RecordSet.
Import RecordSetNotations.
Open Scope Z_scope.

(* ---------------- Level M: every record names the market that produced it ---------------- *)
Definition rec_mkt (r : record) : Z :=
  match r with ROrder o => Match.mkt o | Market.RCancel o _ => Match.mkt o | RExpire o _ => Match.mkt o | RExec mk _ _ _ _ _ _ _ => mk end.
Definition gone_mkt (m : market) : Prop := Forall (fun o : O => Match.mkt o = m_id m) (m_gone m).

Lemma book_mkt m o : book_ok m -> In o (m_buys m) \/ In o (m_sells m) -> Match.mkt o = m_id m.
Proof.
  intros [[_ EB _] [_ ES _]] [H|H]; rewrite Forall_forall in EB, ES; [destruct (EB _ H) as [_ [_ [_ [E _]]]]|destruct (ES _ H) as [_ [_ [_ [E _]]]]]; exact E.
Qed.

Lemma dec_vol_mkt id i v (l g l' g' : list O) :
  dec_vol i v l g = Ok (l', g') -> Forall (fun o : O => Match.mkt o = id) l -> Forall (fun o : O => Match.mkt o = id) g ->
  Forall (fun o : O => Match.mkt o = id) g'.
Proof.
  unfold dec_vol. destruct (find_id i l) as [o|] eqn:F; [|discriminate]. apply find_id_In in F. destruct F as [Io _].
  intros H Hl Hg. rewrite Forall_forall in Hl. destruct (vol o - v =? 0).
  - inversion H; subst. apply Forall_app. split; auto. constructor; [|constructor]. apply (Hl _ Io).
  - destruct (vol o - v <? 0); [discriminate|]. inversion H; subst. exact Hg.
Qed.

Lemma books_Forall_mkt m : book_ok m ->
  Forall (fun o : O => Match.mkt o = m_id m) (m_buys m) /\ Forall (fun o : O => Match.mkt o = m_id m) (m_sells m).
Proof. intros Hb. split; apply Forall_forall; intros o Ho; apply (book_mkt m o Hb); auto. Qed.

Lemma apply_fill_mkt p m f m' r : book_ok m -> gone_mkt m -> apply_fill p m f = Ok (m', r) ->
  rec_mkt r = m_id m /\ gone_mkt m' /\ m_id m' = m_id m.
Proof.
  intros Hb Hg. destruct (books_Forall_mkt m Hb) as [FB FS]. unfold apply_fill. destruct f as [v b s].
  destruct (negb (m_running m)); [discriminate|]. destruct (v <=? 0); [discriminate|].
  destruct (dec_vol (oid b) v (m_buys m) (m_gone m)) as [[bs g1]|] eqn:E1; [|discriminate]. simpl.
  destruct (dec_vol (oid s) v (m_sells m) g1) as [[ss g2]|] eqn:E2; [|discriminate]. simpl.
  intros H; inversion H; subst; clear H. split; [reflexivity|].
  pose proof (dec_vol_mkt _ _ _ _ _ _ _ E1 FB Hg) as G1. pose proof (dec_vol_mkt _ _ _ _ _ _ _ E2 FS G1) as G2.
  unfold gone_mkt. rewrite ump_gone, ump_id. cbn. split; [exact G2|reflexivity].
Qed.

Lemma apply_fills_mkt p fs : forall m m' rs, book_ok m -> gone_mkt m -> apply_fills p m fs = Ok (m', rs) ->
  Forall (fun r => rec_mkt r = m_id m) rs /\ gone_mkt m' /\ m_id m' = m_id m.
Proof.
  induction fs as [|f r IH]; simpl; intros m m' rs Hb Hg H.
  - inversion H; subst. auto.
  - destruct (apply_fill p m f) as [[m1 x]|] eqn:E1; [|discriminate]. simpl in H.
    destruct (apply_fills p m1 r) as [[m2 xs]|] eqn:E2; [|discriminate]. simpl in H. inversion H; subst.
    destruct (apply_fill_mkt _ _ _ _ _ Hb Hg E1) as [R1 [G1 I1]].
    destruct (IH _ _ _ (apply_fill_ok _ _ _ _ _ Hb E1) G1 E2) as [R2 [G2 I2]].
    split; [|split; [exact G2|congruence]]. constructor; [exact R1|]. rewrite I1 in R2. exact R2.
Qed.

(* every record a Level-M operation produces names the market itself; so do the orders it moves out of the book *)
Lemma step_rec_mkt m o m' recs : book_ok m -> gone_mkt m -> step_rec m o = Ok (m', recs) ->
  Forall (fun r => rec_mkt r = m_id m) recs /\ gone_mkt m' /\ m_id m' = m_id m.
Proof.
  intros Hb Hg. destruct (books_Forall_mkt m Hb) as [FB FS]. destruct o; cbn [step_rec]; try discriminate.
  - destruct (add_order m ag mk buy p v ttlv) as [[m1 r]|] eqn:E; [|discriminate]. simpl. intros H; inversion H; subst.
    pose proof (add_order_id _ _ _ _ _ _ _ _ _ E) as Ei.
    destruct (add_order_next _ _ _ _ _ _ _ _ _ E) as [_ [_ [o [-> [_ [_ [_ [_ [_ [Em [_ [Emk _]]]]]]]]]]]].
    split; [constructor; [simpl; congruence|constructor]|]. split; [|exact Ei].
    revert E. unfold add_order. destruct (m_time m <? 0); [discriminate|]. destruct (negb (mk =? m_id m)); [discriminate|].
    intros E; inversion E; subst. unfold gone_mkt. destruct buy; cbn; rewrite ump_gone, ump_id; cbn; exact Hg.
  - destruct (cancel_order m i) as [[m1 r]|] eqn:E; [|discriminate]. simpl. intros H; inversion H; subst.
    pose proof (cancel_order_id _ _ _ _ E) as Ei. revert E. unfold cancel_order. destruct (m_time m <? 0); [discriminate|].
    destruct (find_id i (m_buys m)) as [o|] eqn:F1.
    + intros E; inversion E; subst. apply find_id_In in F1. destruct F1 as [Io _]. rewrite Forall_forall in FB.
      split; [constructor; [simpl; apply FB; exact Io|constructor]|]. split; [|exact Ei].
      unfold gone_mkt. rewrite ump_gone, ump_id. cbn. apply Forall_app. split; [exact Hg|]. constructor; [apply FB; exact Io|constructor].
    + destruct (find_id i (m_sells m)) as [o|] eqn:F2.
      * intros E; inversion E; subst. apply find_id_In in F2. destruct F2 as [Io _]. rewrite Forall_forall in FS.
        split; [constructor; [simpl; apply FS; exact Io|constructor]|]. split; [|exact Ei].
        unfold gone_mkt. rewrite ump_gone, ump_id. cbn. apply Forall_app. split; [exact Hg|]. constructor; [apply FS; exact Io|constructor].
      * destruct (find_id i (m_gone m)) as [o|] eqn:F3; [|discriminate]. intros E; inversion E; subst.
        apply find_id_In in F3. destruct F3 as [Io _]. unfold gone_mkt in Hg. rewrite Forall_forall in Hg.
        split; [constructor; [simpl; apply Hg; exact Io|constructor]|]. split; [|exact Ei].
        unfold gone_mkt. rewrite ump_gone, ump_id. apply Forall_forall. exact Hg.
  - unfold execution. destruct (negb (executable m)); [intros H; inversion H; subst; auto|].
    destruct (run_walk m) as [[p|] fs]; [|discriminate].
    destruct (apply_fills p m fs) as [[m1 lg]|] eqn:E; [|discriminate]. simpl.
    destruct (executable m1); [discriminate|]. intros H; inversion H; subst. eapply apply_fills_mkt; eauto.
  - pose proof (tick_records m f) as Tr. pose proof (tick_gone m f) as Tg. pose proof (tick_id m f) as Ti.
    destruct (tick m f) as [m1 rs1]. cbn [fst snd] in Tr, Tg, Ti. intros H. injection H as <- <-.
    assert (P : forall x, In x (by_id (filter (expired (m_time m + 1)) (m_buys m)) ++ by_id (filter (expired (m_time m + 1)) (m_sells m))) -> Match.mkt x = m_id m).
    { intros x Hx. apply in_app_iff in Hx. apply (book_mkt m x Hb).
      destruct Hx as [Hx|Hx]; apply (proj1 (In_by_id _ _)) in Hx; apply filter_In in Hx; tauto. }
    split; [|split; [|exact Ti]].
    + rewrite Tr. apply Forall_forall. intros r Hr. apply in_map_iff in Hr. destruct Hr as [x [<- Hx]]. simpl. apply P; exact Hx.
    + unfold gone_mkt. rewrite Tg, Ti. apply Forall_app. split; [exact Hg|]. apply Forall_forall. exact P.
  - intros H; inversion H; subst. auto.
  - intros H; inversion H; subst. auto.
  - intros H; inversion H; subst. auto.
  - intros H; inversion H; subst. auto.
  - intros H; inversion H; subst. auto.
Qed.

(* ---------------- Level S: the records of one market, chronologically ---------------- *)
Definition of_mkt (i : Z) (rs : list record) : list record := filter (fun r => rec_mkt r =? i) rs.
Definition recs_of (i : Z) (s : sim) : list record := of_mkt i (rev (truths (s_trace s))).

Lemma of_mkt_app i a b : of_mkt i (a ++ b) = of_mkt i a ++ of_mkt i b.
Proof. apply filter_app. Qed.
Lemma of_mkt_all i rs : Forall (fun r => rec_mkt r = i) rs -> of_mkt i rs = rs.
Proof. induction 1 as [|r l Hr _ IH]; simpl; auto. rewrite (proj2 (Z.eqb_eq _ _) Hr), IH. reflexivity. Qed.
Lemma of_mkt_none i j rs : Forall (fun r => rec_mkt r = j) rs -> i <> j -> of_mkt i rs = [].
Proof. induction 1 as [|r l Hr _ IH]; simpl; intros N; auto. rewrite Hr, (proj2 (Z.eqb_neq _ _)); auto. Qed.

Lemma truths_rev l : truths (rev l) = rev (truths l).
Proof.
  induction l as [|e r IH]; simpl; auto. rewrite truths_app, IH, truths_one. change (truths (e :: r)) with (truth_of e ++ truths r).
  rewrite rev_app_distr. f_equal. destruct e; reflexivity.
Qed.

(* the records of market i over the run's events in chronological order *)
Lemma recs_of_events i s : recs_of i s = of_mkt i (truths (events_of s)).
Proof. unfold recs_of, events_of. rewrite truths_rev. reflexivity. Qed.

Lemma upd_mkt_Forall2 (P P' : mkt -> Prop) i f l x :
  NoDup (map (fun y => m_id (mk_m y)) l) -> find_mkt i l = Some x -> Forall P l ->
  P' (f x) -> (forall y, In y l -> m_id (mk_m y) <> i -> P y -> P' y) -> Forall P' (upd_mkt i f l).
Proof.
  induction l as [|y r IH]; simpl; intros N F H Hx Ho; [discriminate|]. inversion H; subst. inversion N as [|? ? Hn Nr]; subst.
  destruct (m_id (mk_m y) =? i) eqn:E.
  - inversion F; subst. apply Z.eqb_eq in E. constructor; [exact Hx|]. apply Forall_forall. intros z Hz.
    rewrite Forall_forall in H3. apply Ho; auto. intros C. apply Hn. rewrite E, <- C. apply (in_map (fun y => m_id (mk_m y))). exact Hz.
  - apply Z.eqb_neq in E. constructor; [apply Ho; auto|]. apply IH; auto.
Qed.

Section MarketLift.
Variable I : market -> list record -> Prop.
Hypothesis I_step : forall m rs o m' recs,
  life_ok m -> gone_mkt m -> I m rs -> valid_op o -> step_rec m o = Ok (m', recs) -> I m' (rs ++ recs).
(* a fundamental-price shock: the value recorded for the CURRENT time is replaced *)
Hypothesis I_fund : forall m rs v, I m rs -> I (m <| m_fund := upd (m_fund m) (zi (m_time m)) (Some v) |>) rs.

Definition mok (s : sim) (x : mkt) : Prop := gone_mkt (mk_m x) /\ I (mk_m x) (recs_of (m_id (mk_m x)) s).
Definition minv (s : sim) : Prop := NoDup (mids s) /\ Forall (mok s) (s_markets s).
Definition lifted (s : sim) : Prop :=
  no_truth (s_pending s) /\ (valid_tr s -> (books_ok s /\ no_engine_error s) /\ minv s).

Lemma lifted_intro s s' :
  (no_truth (s_pending s) -> no_truth (s_pending s')) ->
  (sound s -> sound s') -> (valid_tr s' -> valid_tr s) -> (valid_tr s' -> books_ok s -> minv s -> minv s') -> lifted s -> lifted s'.
Proof.
  intros Hp Hs Hv Hm [P H]. split; [apply Hp; exact P|]. intros V'. pose proof (Hv V') as V. destruct (H V) as [[B N] M].
  split; [apply Hs; [intros _; split; assumption|exact V']|apply Hm; assumption].
Qed.

(* updates that leave the markets and the ground-truth records alone *)
Lemma minv_same s s' : s_markets s' = s_markets s -> truths (s_trace s') = truths (s_trace s) -> minv s -> minv s'.
Proof. unfold minv, mok, mids, recs_of. intros -> ->. auto. Qed.

Lemma lifted_same s s' :
  s_markets s' = s_markets s -> s_trace s' = s_trace s -> s_pending s' = s_pending s -> s_err s' = s_err s -> lifted s -> lifted s'.
Proof.
  intros A B P C. apply lifted_intro.
  - rewrite P. auto.
  - apply sound_same; auto.
  - unfold valid_tr. rewrite B. auto.
  - intros _ _. apply minv_same; [exact A|rewrite B; reflexivity].
Qed.

Lemma lifted_fail s e : plain_err e = true -> lifted s -> lifted (fail s e).
Proof.
  intros Pe. destruct (fail_fields s e) as [T [P [_ [M _]]]]. apply lifted_intro.
  - rewrite P. auto.
  - apply sound_fail; exact Pe.
  - unfold valid_tr. rewrite T. auto.
  - intros _ _. apply minv_same; [exact M|rewrite T; reflexivity].
Qed.

Lemma lifted_emit s e : truth_of e = [] -> lifted s -> lifted (emit s e).
Proof.
  intros Te. assert (Tt : truths (s_trace (emit s e)) = truths (s_trace s)).
  { unfold emit. cbn. change (e :: s_trace s) with ([e] ++ s_trace s). rewrite truths_app, truths_one, Te. reflexivity. }
  apply lifted_intro.
  - auto.
  - apply sound_emit; exact Te.
  - unfold valid_tr. rewrite Tt. auto.
  - intros _ _. apply minv_same; [reflexivity|exact Tt].
Qed.

(* the one way a market changes: market mkid becomes m' by a Level-M operation (records recs) or by a change of its fundamentals *)
Lemma minv_update s s' mkid x m' recs :
  s_markets s' = upd_mkt mkid (fun y => y <| mk_m := m' |>) (s_markets s) ->
  truths (s_trace s') = rev recs ++ truths (s_trace s) ->
  find_mkt mkid (s_markets s) = Some x ->
  ((exists o, valid_op o /\ step_rec (mk_m x) o = Ok (m', recs)) \/ (recs = [] /\ exists v, m' = (mk_m x) <| m_fund := upd (m_fund (mk_m x)) (zi (m_time (mk_m x))) (Some v) |>)) ->
  books_ok s -> minv s -> minv s'.
Proof.
  intros Em Et Fx Hop B [N M]. pose proof (find_mkt_id _ _ _ Fx) as Ex. pose proof (books_find _ _ _ B Fx) as L.
  assert (Mx : mok s x). { rewrite Forall_forall in M. apply M. eapply find_mkt_In''; eauto. }
  destruct Mx as [Gx Ix].
  assert (Hm' : m_id m' = mkid /\ gone_mkt m' /\ Forall (fun r => rec_mkt r = mkid) recs /\ I m' (recs_of mkid s ++ recs)).
  { destruct Hop as [[o [Vo So]]|[-> [v ->]]].
    - destruct (step_rec_mkt _ _ _ _ (proj1 L) Gx So) as [R [G' Ei]]. rewrite Ex in *.
      split; [exact Ei|]. split; [exact G'|]. split; [exact R|]. exact (I_step _ _ _ _ _ L Gx Ix Vo So).
    - split; [exact Ex|]. split; [exact Gx|]. split; [constructor|]. rewrite app_nil_r. apply I_fund. rewrite <- Ex. exact Ix. }
  destruct Hm' as [Ei [G' [R Im']]].
  assert (Rec : forall i, recs_of i s' = recs_of i s ++ of_mkt i recs).
  { intros i. unfold recs_of. rewrite Et, rev_app_distr, rev_involutive, of_mkt_app. reflexivity. }
  split.
  - unfold mids. rewrite Em. unfold mids in N. clear - N Fx Ei.
    induction (s_markets s) as [|y r IH]; simpl in *; auto. destruct (m_id (mk_m y) =? mkid) eqn:E; simpl.
    + apply Z.eqb_eq in E. cbn. rewrite Ei, <- E. exact N.
    + apply NoDup_cons_iff in N. destruct N as [Hn Nr]. constructor; [|apply IH; auto].
      intros C. apply Hn. clear - C Ei. induction r as [|z r IH]; simpl in *; auto. destruct (m_id (mk_m z) =? mkid) eqn:E2; simpl in *.
      * apply Z.eqb_eq in E2. cbn in C. rewrite Ei in C. rewrite E2. exact C.
      * destruct C as [C|C]; auto.
  - rewrite Em. eapply (upd_mkt_Forall2 (mok s) (mok s')); eauto.
    + unfold mok. cbn. rewrite Ei, Rec, (of_mkt_all _ _ R). split; assumption.
    + intros y _ Ny [Gy Iy]. unfold mok. rewrite Rec, (of_mkt_none _ _ _ R Ny), app_nil_r. split; assumption.
Qed.

(* a composite update of market mkid: the book changes by one Level-M operation and its records are logged *)
Lemma lifted_update s s' mkid x m' recs :
  s_markets s' = upd_mkt mkid (fun y => y <| mk_m := m' |>) (s_markets s) ->
  s_trace s' = rev (map (fun r => EvTruth r []) recs) ++ s_trace s \/ (exists r extra, recs = [r] /\ s_trace s' = EvTruth r extra :: s_trace s) ->
  (no_truth (s_pending s) -> no_truth (s_pending s')) ->
  find_mkt mkid (s_markets s) = Some x ->
  (sound s -> sound s') ->
  (valid_tr s' -> (exists o, valid_op o /\ step_rec (mk_m x) o = Ok (m', recs)) \/ (recs = [] /\ exists v, m' = (mk_m x) <| m_fund := upd (m_fund (mk_m x)) (zi (m_time (mk_m x))) (Some v) |>)) ->
  lifted s -> lifted s'.
Proof.
  intros Em Et Hp Fx Hs Hop.
  assert (Tt : truths (s_trace s') = rev recs ++ truths (s_trace s)).
  { destruct Et as [Et|[r [extra [-> Et]]]]; rewrite Et.
    - rewrite truths_app, truths_rev, truths_map_truth. reflexivity.
    - change (EvTruth r extra :: s_trace s) with ([EvTruth r extra] ++ s_trace s). rewrite truths_app, truths_one. reflexivity. }
  apply lifted_intro; auto.
  - unfold valid_tr. rewrite Tt. intros V. apply Forall_app in V. apply V.
  - intros V' B M. eapply minv_update; eauto.
Qed.

Lemma set_market_markets s i m : s_markets (set_market s i m) = upd_mkt i (fun y => y <| mk_m := m |>) (s_markets s).
Proof. reflexivity. Qed.

(* ---------------- one lemma per hypothesis of SimLift.run_pres_e ---------------- *)
Lemma ML_fail : forall s e, plain_err e = true -> lifted s -> lifted (fail s e).
Proof. intros; apply lifted_fail; auto. Qed.
Lemma ML_fail_exec : forall s mkid x e,
  find_mkt mkid (s_markets s) = Some x -> cur_switch s = true -> execution (mk_m x) = Err e ->
  lifted (emit s (EvRound mkid (m_running (mk_m x)) (s_cur s))) -> lifted (fail (emit s (EvRound mkid (m_running (mk_m x)) (s_cur s))) e).
Proof.
  intros s mkid x e Fx Sw Ex. set (s1 := emit s _). destruct (fail_fields s1 e) as [T [P [_ [M _]]]]. apply lifted_intro.
  - rewrite P. auto.
  - apply (B_fail_exec s mkid x e Fx Sw Ex).
  - unfold valid_tr. rewrite T. auto.
  - intros _ _. apply minv_same; [exact M|rewrite T; reflexivity].
Qed.
Lemma ML_emit : forall s e, obs_event e -> lifted s -> lifted (emit s e).
Proof. intros s e He. apply lifted_emit. destruct e; simpl in He; try contradiction; reflexivity. Qed.
Lemma ML_callback : forall s aid kind r mkid, lifted s -> lifted (callback s aid kind r mkid).
Proof.
  intros s aid kind r mkid H. unfold callback. destruct (find_agent aid (s_agents s)); [|apply lifted_fail; auto].
  destruct (find_mkt mkid (s_markets s)); [|apply lifted_fail; auto]. apply lifted_emit; auto.
Qed.
Lemma ML_step : forall s kind mkid x, find_mkt mkid (s_markets s) = Some x -> lifted s -> lifted (emit s (ev_step s kind x)).
Proof. intros s kind mkid x _. apply lifted_emit. reflexivity. Qed.
Lemma ML_boundary : forall s e, boundary_event e -> lifted s -> lifted (flush (write s e)).
Proof.
  intros s e He [P H]. assert (Te : truth_of e = []) by (destruct e; simpl in He; try contradiction; reflexivity).
  assert (Tt : truths (s_trace (flush (write s e))) = truths (s_trace s)).
  { unfold flush, write. cbn. rewrite truths_app, truths_rev, truths_app, truths_one, Te. unfold no_truth in P. rewrite P. reflexivity. }
  revert P H. intros P H. apply (lifted_intro s); [| | | |split; assumption].
  - intros _. reflexivity.
  - apply B_boundary; exact He.
  - unfold valid_tr. rewrite Tt. auto.
  - intros _ _. apply minv_same; [reflexivity|exact Tt].
Qed.
Lemma pending_log_event s r extra : no_truth (s_pending s) -> no_truth (s_pending (log_event s r extra)).
Proof. unfold no_truth, log_event, write, emit. cbn. intros P. rewrite truths_app, P, truths_one. reflexivity. Qed.
Lemma pending_log_events rs : forall s, no_truth (s_pending s) -> no_truth (s_pending (fold_left (fun s r => log_event s r []) rs s)).
Proof. induction rs as [|r rest IH]; simpl; intros s P; auto. apply IH. apply pending_log_event. exact P. Qed.

Lemma ML_accept_order : forall s mkid x ag mk buy p v ttlv m' rc tag,
  find_mkt mkid (s_markets s) = Some x -> add_order (mk_m x) ag mk buy p v ttlv = Ok (m', rc) ->
  lifted s -> lifted (do_accept_order s mkid x m' rc tag).
Proof.
  intros s mkid x ag mk buy p v ttlv m' rc tag Fx Ea.
  apply (lifted_update s _ mkid x m' [rc]).
  - reflexivity.
  - right. eexists. eexists. split; reflexivity.
  - unfold do_accept_order. intros P. apply pending_log_event. exact P.
  - exact Fx.
  - apply (B_accept_order s mkid x ag mk buy p v ttlv m' rc tag Fx Ea).
  - intros V. left. exists (OAdd ag mk buy p v ttlv). split; [|cbn [step_rec]; rewrite Ea; reflexivity].
    unfold do_accept_order in V. destruct (valid_log _ _ _ V) as [Vr _].
    destruct (add_order_next _ _ _ _ _ _ _ _ _ Ea) as [_ [_ [o [Er [_ [Ev [_ [Et _]]]]]]]]. subst rc. destruct Vr as [Vv Vt].
    simpl. split; [rewrite <- Ev; exact Vv|]. destruct ttlv as [k|]; [apply Vt; rewrite Et; reflexivity|exact Logic.I].
Qed.
Lemma ML_accept_cancel : forall s mkid x i m' rc,
  find_mkt mkid (s_markets s) = Some x -> cancel_order (mk_m x) i = Ok (m', rc) -> lifted s -> lifted (do_accept_cancel s mkid m' rc).
Proof.
  intros s mkid x i m' rc Fx Ec. apply (lifted_update s _ mkid x m' [rc]).
  - reflexivity.
  - left. reflexivity.
  - unfold do_accept_cancel. intros P. apply pending_log_event. exact P.
  - exact Fx.
  - apply (B_accept_cancel s mkid x i m' rc Fx Ec).
  - intros _. left. exists (OCancel i). split; [exact Logic.I|cbn [step_rec]; rewrite Ec; reflexivity].
Qed.
Lemma ML_round : forall s mkid x, find_mkt mkid (s_markets s) = Some x -> cur_switch s = true ->
  lifted s -> lifted (emit s (EvRound mkid (m_running (mk_m x)) (s_cur s))).
Proof. intros s mkid x _ _. apply lifted_emit. reflexivity. Qed.
Lemma ML_fills : forall s mkid x m' logs,
  find_mkt mkid (s_markets s) = Some x -> execution (mk_m x) = Ok (m', logs) -> cur_switch s = true ->
  (exists tr, s_trace s = EvRound mkid (m_running (mk_m x)) (s_cur s) :: tr) -> lifted s -> lifted (do_fills s mkid m' logs).
Proof.
  intros s mkid x m' logs Fx Ex Sw Tr.
  destruct (log_events_trace logs (set_market s mkid m')) as [T [Pd [_ [Mk _]]]]. cbv zeta in *.
  apply (lifted_update s _ mkid x m' logs).
  - unfold do_fills. cbn. rewrite Mk. reflexivity.
  - left. unfold do_fills. cbn. rewrite T. reflexivity.
  - unfold do_fills. cbn. intros P. apply (pending_log_events logs (set_market s mkid m')). exact P.
  - exact Fx.
  - apply (B_fills s mkid x m' logs Fx Ex Sw Tr).
  - intros _. left. exists OExec. split; [exact Logic.I|exact Ex].
Qed.
Lemma ML_tick_all : forall s, lifted s -> lifted (tick_all s).
Proof.
  apply tick_all_pres_e; [apply ML_fail|].
  intros s x f m' recs Fx Et. destruct (log_events_trace recs (set_market s (m_id (mk_m x)) m')) as [T [Pd [_ [Mk _]]]]. cbv zeta in *.
  apply (lifted_update s _ (m_id (mk_m x)) x m' recs).
  - unfold do_tick. rewrite Mk. reflexivity.
  - left. unfold do_tick. rewrite T. reflexivity.
  - unfold do_tick. intros P. apply (pending_log_events recs (set_market s (m_id (mk_m x)) m')). exact P.
  - exact Fx.
  - intros H. unfold do_tick. apply sound_logs. intros V. destruct (H V) as [B N]. split; [|exact N]. apply books_set_market; auto.
    intros y Fy. rewrite Fx in Fy. inversion Fy; subst y.
    pose proof (tick_life (mk_m x) f (books_find _ _ _ B Fx)) as L. rewrite Et in L. exact L.
  - intros _. left. exists (OTick f). split; [exact Logic.I|cbn [step_rec]; rewrite Et; reflexivity].
Qed.
Lemma ML_pop_perm : forall s, lifted s -> lifted (fst (pop_perm s)).
Proof. intros s H. unfold pop_perm. destruct (s_tape s) as [|[l|q] r]; simpl; try (apply lifted_fail; auto). revert H. apply lifted_same; reflexivity. Qed.
Lemma ML_pop_draw : forall s, lifted s -> lifted (fst (pop_draw s)).
Proof. intros s H. unfold pop_draw. destruct (s_tape s) as [|[l|q] r]; simpl; try (apply lifted_fail; auto). revert H. apply lifted_same; reflexivity. Qed.
Lemma ML_consult : forall s aid, lifted s -> lifted (fst (consult s aid)).
Proof.
  intros s aid H. unfold consult. destruct (s_batches s) as [|[a b] r]; simpl; [apply lifted_fail; auto|].
  destruct (a =? aid); simpl; [|apply lifted_fail; auto]. apply lifted_emit; [reflexivity|]. revert H. apply lifted_same; reflexivity.
Qed.
Lemma ML_spent : forall s eid, lifted s -> lifted (s <| s_events := upd_event eid (fun e => e <| es_spent := true |>) (s_events s) |>).
Proof. intros s eid. apply lifted_same; reflexivity. Qed.

(* switching matching off / on for one market: the Level-M operation ORun *)
Lemma lifted_run_flag s s' mkid x b :
  s_markets s' = upd_mkt mkid (fun y => y <| mk_m := (mk_m x) <| m_running := b |> |>) (s_markets s) ->
  s_trace s' = s_trace s -> s_pending s' = s_pending s -> s_err s' = s_err s ->
  find_mkt mkid (s_markets s) = Some x -> lifted s -> lifted s'.
Proof.
  intros Em Et Ep Ee Fx. apply (lifted_update s s' mkid x ((mk_m x) <| m_running := b |>) []).
  - exact Em.
  - left. exact Et.
  - rewrite Ep. auto.
  - exact Fx.
  - intros H. assert (H1 : sound (set_market s mkid ((mk_m x) <| m_running := b |>))).
    { intros V. destruct (H V) as [B N]. split; [|exact N]. apply books_set_market; auto.
      intros y Fy. rewrite Fx in Fy. inversion Fy; subst y. apply life_ok_running. eapply books_find; eauto. }
    revert H1. apply sound_same; [rewrite Em; reflexivity|exact Et|exact Ee].
  - intros _. left. exists (ORun b). split; [exact Logic.I|reflexivity].
Qed.

Lemma ML_halt_after : forall s e mkid, In e (s_events s) -> round_ctx mkid s -> lifted s -> lifted (halt_after_execution s e mkid).
Proof.
  intros s e mkid _ _ H. unfold halt_after_execution. destruct (es_kind e); auto.
  destruct (find_mkt mkid (s_markets s)) as [x|] eqn:Fx; [|apply lifted_fail; auto].
  destruct (mprice_at x 0); [|apply lifted_fail; auto]. destruct (mprice_at x (mtime x)); [|apply lifted_fail; auto].
  destruct (negb _); auto. destruct (_ && _); auto.
  revert H. apply (lifted_run_flag s _ mkid x false); auto.
Qed.
Lemma ML_halt_before : forall s e x, In e (s_events s) -> find_mkt (m_id (mk_m x)) (s_markets s) = Some x -> lifted s -> lifted (halt_before_step s e x).
Proof.
  intros s e x _ Fx H. unfold halt_before_step. destruct (es_kind e); auto. destruct (_ && _); auto.
  destruct (es_halted e) as [[hm hs]|]; auto. destruct (negb (hm =? m_id (mk_m x))) eqn:E; auto.
  apply negb_false_iff, Z.eqb_eq in E. subst hm. destruct (hs =? s_cur s).
  - revert H. apply (lifted_run_flag s _ (m_id (mk_m x)) x true); auto.
  - revert H. apply lifted_same; reflexivity.
Qed.
Lemma ML_shock : forall s e x, find_mkt (m_id (mk_m x)) (s_markets s) = Some x -> lifted s -> lifted (shock_before_step s e x).
Proof.
  intros s e x Fx H. unfold shock_before_step. destruct (es_kind e); auto.
  destruct (negb _); [apply lifted_fail; auto|].
  destruct (negb (m_id (mk_m x) =? target)) eqn:E; [apply lifted_fail; auto|]. apply negb_false_iff, Z.eqb_eq in E. subst target.
  destruct (geto _ _) as [f0|]; [|apply lifted_fail; auto].
  revert H. match goal with |- lifted s -> lifted (set_market s _ ?m') => apply (lifted_update s _ (m_id (mk_m x)) x m' []) end.
  - reflexivity.
  - left. reflexivity.
  - auto.
  - exact Fx.
  - intros H V. destruct (H V) as [B N]. split; [|exact N]. apply books_set_market; auto.
    intros y Fy. rewrite Fx in Fy. inversion Fy; subst y. apply life_ok_fund. eapply books_find; eauto.
  - intros _. right. split; [reflexivity|]. eexists. reflexivity.
Qed.
Lemma ML_set_cur : forall s sid, lifted s -> lifted (s <| s_cur := sid |>).
Proof. intros s sid. apply lifted_same; reflexivity. Qed.
Lemma ML_begin_iteration : forall s, lifted s -> lifted (begin_iteration s).
Proof.
  intros s. apply lifted_intro.
  - auto.
  - apply B_begin_iteration.
  - auto.
  - intros _ B [N M]. unfold minv, begin_iteration, mids. cbn. split.
    + rewrite map_map. cbn. exact N.
    + apply Forall_forall. intros y Hy. apply in_map_iff in Hy. destruct Hy as [x [<- Hx]].
      rewrite Forall_forall in M. destruct (M _ Hx) as [G Ix]. unfold books_ok in B. rewrite Forall_forall in B.
      unfold mok. cbn. split; [exact G|].
      pose proof (I_step (mk_m x) _ (ORun (cur_switch s)) _ [] (B _ Hx) G Ix Logic.I eq_refl) as H. rewrite app_nil_r in H. exact H.
Qed.

Lemma ML_probe : forall s ev k before mkid extra, lifted s -> lifted (emit s (ev_probe s ev k before mkid extra)).
Proof. intros. apply lifted_emit; [reflexivity|assumption]. Qed.

(* the same invariant through a request, any number of steps, a session - from ANY state that satisfies it *)
Lemma handle_request_lifted s r : lifted s -> lifted (handle_request s r).
Proof.
  apply (handle_request_k lifted ML_fail ML_fail_exec (fun s ev k b m x _ => ML_probe s ev k b m x) ML_callback
           ML_accept_order ML_accept_cancel ML_round ML_fills ML_spent ML_halt_after).
Qed.
Lemma iterate_lifted n s : lifted s -> lifted (iterate n s).
Proof.
  apply (iterate_k lifted ML_fail (fun s ev k b m x _ => ML_probe s ev k b m x) ML_step ML_tick_all ML_pop_perm ML_pop_draw ML_consult
           ML_halt_before ML_shock handle_request_lifted).
Qed.
Lemma run_session_lifted s se : lifted s -> lifted (run_session s se).
Proof.
  apply (run_session_k lifted ML_fail (fun s ev k b m x _ => ML_probe s ev k b m x) ML_step ML_boundary ML_tick_all ML_pop_perm ML_pop_draw
           ML_consult ML_halt_before ML_shock ML_set_cur ML_begin_iteration handle_request_lifted).
Qed.

Theorem run_lifted c tape batches funds :
  NoDup (map mc_id (c_markets c)) ->
  (forall mc, In mc (c_markets c) -> I (init_market (mc_id mc) (mc_tick mc) (mc_mp0 mc)) []) ->
  lifted (run c tape batches funds).
Proof.
  intros N I0.
  apply (run_pres_e lifted ML_fail ML_fail_exec ML_emit ML_callback ML_step ML_boundary ML_accept_order ML_accept_cancel ML_round ML_fills
           ML_tick_all ML_pop_perm ML_pop_draw ML_consult ML_spent ML_halt_after ML_halt_before ML_shock ML_set_cur ML_begin_iteration).
  split; [reflexivity|]. intros _. split; [split|split].
  - unfold books_ok, init_sim. cbn. rewrite Forall_forall. intros y Hy. apply in_map_iff in Hy. destruct Hy as [m [<- _]]. cbn. apply life_ok_init.
  - intros e He. unfold init_sim in He. cbn in He. discriminate.
  - unfold mids, init_sim. cbn. rewrite map_map. cbn. exact N.
  - unfold init_sim. cbn. apply Forall_forall. intros y Hy. apply in_map_iff in Hy. destruct Hy as [m [<- Hm]].
    unfold mok, recs_of. cbn. split; [constructor|apply I0; exact Hm].
Qed.

(* THE LIFTING THEOREM: in every run whose accepted orders have positive volume and time-to-live, every market x of the final state
   satisfies I together with the run's records that name it, in chronological order *)
Theorem market_invariant_of_every_run c tape batches funds :
  NoDup (map mc_id (c_markets c)) ->
  (forall mc, In mc (c_markets c) -> I (init_market (mc_id mc) (mc_tick mc) (mc_mp0 mc)) []) ->
  let s := run c tape batches funds in
  valid_tr s -> forall x, In x (s_markets s) -> I (mk_m x) (of_mkt (m_id (mk_m x)) (truths (events_of s))).
Proof.
  intros N I0 s V x Hx. destruct (run_lifted c tape batches funds N I0) as [_ H]. destruct (H V) as [_ [_ M]].
  rewrite Forall_forall in M. destruct (M _ Hx) as [_ Ix]. rewrite recs_of_events in Ix. exact Ix.
Qed.
End MarketLift.

(* ---------------- instance: NOTHING IS LOST, for every market of every simulation (C04) ---------------- *)
Lemma rest_vol_fund m f i : rest_vol (m <| m_fund := f |>) i = rest_vol m i.
Proof. reflexivity. Qed.

Lemma acct_fund m rs v : acct m rs -> acct (m <| m_fund := upd (m_fund m) (zi (m_time m)) (Some v) |>) rs.
Proof. intros [L Eq Rs Gn Fr]. constructor; auto. Qed.

Theorem nothing_lost_in_every_run c tape batches funds :
  NoDup (map mc_id (c_markets c)) ->
  let s := run c tape batches funds in
  valid_tr s -> forall x, In x (s_markets s) ->
  let rs := of_mkt (m_id (mk_m x)) (truths (events_of s)) in
  forall i v0, accepted rs i = Some v0 ->
    v0 = filled rs i + rest_vol (mk_m x) i + tv rs i /\ (rest_vol (mk_m x) i <> 0 -> term rs i = None) /\ 0 <= rest_vol (mk_m x) i.
Proof.
  intros N s V x Hx rs i v0 A.
  pose proof (market_invariant_of_every_run acct (fun m rs o m' recs _ _ => acct_step m rs o m' recs) acct_fund
                c tape batches funds N (fun mc _ => acct_init (mc_id mc) (mc_tick mc) (mc_mp0 mc)) V x Hx) as [L Eq Rs Gn Fr].
  fold s rs in Eq, Rs. split; [apply Eq; exact A|]. split; [intros R; apply (Rs _ R)|].
  destruct L as [[SB SS] _]. unfold rest_vol, bvol.
  assert (G : forall side (l : list O), side_ok side (m_next (mk_m x)) (m_time (mk_m x)) (m_id (mk_m x)) l ->
                0 <= match find_id i l with Some y => vol y | None => 0 end).
  { intros side l [_ E _]. destruct (find_id i l) as [y|] eqn:F; [|lia]. apply find_id_some_in in F. destruct F as [Hy _].
    rewrite Forall_forall in E. destruct (E _ Hy) as [_ [_ [Hp _]]]. unfold O in *. lia. }
  pose proof (G _ _ SB). pose proof (G _ _ SS). lia.
Qed.


(* ---------------- instance: the storage invariant of the price series (C08), for every market of every simulation ---------------- *)
Lemma store_ok_fund m f : length f = length (m_fund m) -> MarketPrice.store_ok m -> MarketPrice.store_ok (m <| m_fund := f |>).
Proof.
  intros Lf [T [In S]]. split; [exact T|]. split.
  - intros E. specialize (In E). unfold MarketPrice.init_shape in *. cbn. rewrite Lf. exact In.
  - unfold MarketPrice.series_ok in *. cbn. rewrite Lf. exact S.
Qed.

Theorem price_store_ok_in_every_run c tape batches funds :
  NoDup (map mc_id (c_markets c)) ->
  let s := run c tape batches funds in
  valid_tr s -> forall x, In x (s_markets s) -> MarketPrice.store_ok (mk_m x).
Proof.
  intros N s V x Hx.
  exact (market_invariant_of_every_run (fun m _ => MarketPrice.store_ok m)
           (fun m rs o m' recs _ _ H _ E => MarketPrice.step_rec_store_ok m o m' recs H E)
           (fun m rs v H => store_ok_fund m _ (upd_length _ _ _) H)
           c tape batches funds N (fun mc _ => MarketPrice.store_ok_init (mc_id mc) (mc_tick mc) (mc_mp0 mc)) V x Hx).
Qed.
