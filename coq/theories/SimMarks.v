(* C10 (run level, second half): the begin / end records.  A run that ends without exception writes exactly: one simulation-begin
   record; per session, in configuration order, one session-begin record, then per step one step-begin record for every market
   (in market order) followed - after the whole order phase - by one step-end record for every market, then one session-end record;
   and one simulation-end record.  Nothing else ever writes such a record. *)
Require Import Pams.Prelude Pams.Tick Pams.Match Pams.Market Pams.MatchQ Pams.MarketInv Pams.Sim Pams.SimLift Pams.SimInv Pams.SimClock.
From RecordUpdate Require Import RecordSet.
Import RecordSetNotations.
Open Scope Z_scope.

Inductive mark := MSimB | MSimE | MSessB (sid : Z) | MSessE (sid : Z) | MStep (kind mk : Z).
Definition step_market (fields : list ov) : Z := match fields with _ :: VZ mk :: _ => mk | _ => -1 end.
Definition mark_of (e : event) : list mark :=
  match e with
  | EvSimBegin => [MSimB] | EvSimEnd => [MSimE]
  | EvSessBegin sid _ => [MSessB sid] | EvSessEnd sid _ => [MSessE sid]
  | EvStep kind fields => [MStep kind (step_market fields)]
  | _ => []
  end.
Definition marks (l : list event) : list mark := flat_map mark_of l.
Local Arguments marks : simpl never.

Lemma marks_app a b : marks (a ++ b) = marks a ++ marks b. Proof. apply flat_map_app. Qed.
Lemma marks_one e : marks [e] = mark_of e. Proof. unfold marks. simpl. apply app_nil_r. Qed.

(* [wrote M s]: nothing marked waits in the logger's queue and, unless the run failed, the begin/end records so far are M *)
Definition wrote (M : list mark) (s : sim) : Prop :=
  marks (s_pending s) = [] /\ (ok s = true -> marks (events_of s) = M).

Lemma wrote_notok M M' s : ok s = false -> wrote M s -> wrote M' s.
Proof. intros O [Pd _]. split; auto. intros C. congruence. Qed.

Lemma wrote_keeps M s s' : s_trace s' = s_trace s -> s_pending s' = s_pending s -> keeps s s' -> wrote M s -> wrote M s'.
Proof. unfold wrote, events_of. intros -> -> [_ O] [Pd H]. split; auto. Qed.

Lemma wrote_same M s s' : s_trace s' = s_trace s -> s_pending s' = s_pending s -> s_err s' = s_err s -> wrote M s -> wrote M s'.
Proof. unfold wrote, events_of, ok. intros -> -> ->. auto. Qed.

Lemma wrote_fail M s e : wrote M s -> wrote M (fail s e).
Proof.
  intros [Pd _]. split.
  - destruct (fail_fields s e) as [_ [-> _]]. exact Pd.
  - intros C. exfalso. unfold fail, ok in C. destruct (s_err s) eqn:E; cbn in C; rewrite ?E in C; discriminate.
Qed.

Lemma wrote_emit M s e : wrote M s -> wrote (M ++ mark_of e) (emit s e).
Proof.
  unfold wrote, events_of, emit, ok. cbn. intros [Pd H]. split; auto. intros C.
  rewrite marks_app, marks_one. f_equal. apply H. exact C.
Qed.

Lemma wrote_emit0 M s e : mark_of e = [] -> wrote M s -> wrote M (emit s e).
Proof. intros E H. pose proof (wrote_emit M s e H) as G. rewrite E, app_nil_r in G. exact G. Qed.

Lemma wrote_log M s r extra : wrote M s -> wrote M (log_event s r extra).
Proof.
  unfold wrote, events_of, log_event, write, emit, ok. cbn. intros [Pd H]. split.
  - rewrite marks_app, Pd, marks_one. reflexivity.
  - intros C. rewrite marks_app, marks_one. cbn [mark_of]. rewrite app_nil_r. apply H. exact C.
Qed.

Lemma wrote_logs M rs : forall s, wrote M s -> wrote M (fold_left (fun s r => log_event s r []) rs s).
Proof. induction rs as [|r rest IH]; simpl; intros s H; auto. apply IH. apply wrote_log. exact H. Qed.

Lemma wrote_boundary M s e : wrote M s -> wrote (M ++ mark_of e) (flush (write s e)).
Proof.
  unfold wrote, events_of, flush, write, ok. cbn. intros [Pd H]. split; [reflexivity|]. intros C.
  rewrite rev_app_distr, !rev_involutive, !marks_app, Pd, marks_one. cbn [app]. f_equal. apply H. exact C.
Qed.

(* ---------------- the frame: nothing else writes a begin/end record ---------------- *)
Section Frame.
Variable M : list mark.
Let P := wrote M.
Lemma W_fail : forall s e, P s -> P (fail s e). Proof. intros; apply wrote_fail; auto. Qed.
Lemma W_emit : forall s e, obs_event e -> P s -> P (emit s e).
Proof. intros s e He. apply wrote_emit0. destruct e; simpl in He; try contradiction; reflexivity. Qed.
Lemma W_callback : forall s aid kind r mkid, P s -> P (callback s aid kind r mkid).
Proof. apply callback_from_emit; [apply W_fail|]. intros s a kind r hold sw run. apply wrote_emit0. reflexivity. Qed.
Lemma W_accept_order : forall s mkid x ag mk buy p v ttlv m' rc tag,
  find_mkt mkid (s_markets s) = Some x -> add_order (mk_m x) ag mk buy p v ttlv = Ok (m', rc) ->
  P s -> P (do_accept_order s mkid x m' rc tag).
Proof. intros s mkid x ag mk buy p v ttlv m' rc tag _ _ H. unfold do_accept_order. apply wrote_log. revert H. apply wrote_same; reflexivity. Qed.
Lemma W_accept_cancel : forall s mkid x i m' rc,
  find_mkt mkid (s_markets s) = Some x -> cancel_order (mk_m x) i = Ok (m', rc) -> P s -> P (do_accept_cancel s mkid m' rc).
Proof. intros s mkid x i m' rc _ _ H. unfold do_accept_cancel. apply wrote_log. revert H. apply wrote_same; reflexivity. Qed.
Lemma W_round : forall s mkid x, find_mkt mkid (s_markets s) = Some x -> cur_switch s = true ->
  P s -> P (emit s (EvRound mkid (m_running (mk_m x)) (s_cur s))).
Proof. intros s mkid x _ _. apply wrote_emit0. reflexivity. Qed.
Lemma W_fills : forall s mkid x m' logs,
  find_mkt mkid (s_markets s) = Some x -> execution (mk_m x) = Ok (m', logs) -> cur_switch s = true ->
  (exists tr, s_trace s = EvRound mkid (m_running (mk_m x)) (s_cur s) :: tr) -> P s -> P (do_fills s mkid m' logs).
Proof.
  intros s mkid x m' logs _ _ _ _ H. unfold do_fills.
  pose proof (wrote_logs M logs (set_market s mkid m')) as G.
  assert (H0 : wrote M (set_market s mkid m')) by (revert H; apply wrote_same; reflexivity).
  specialize (G H0). revert G. apply wrote_same; reflexivity.
Qed.
Lemma W_tick_all : forall s, P s -> P (tick_all s).
Proof.
  apply tick_all_pres; [apply W_fail|].
  intros s x f m' recs _ _ H. unfold do_tick. apply wrote_logs. revert H. apply wrote_same; reflexivity.
Qed.
Lemma W_pop_perm : forall s, P s -> P (fst (pop_perm s)).
Proof. intros s. destruct (pop_perm_fields s) as [T [Pd _]]. apply wrote_keeps; auto. apply keeps_pop_perm. Qed.
Lemma W_pop_draw : forall s, P s -> P (fst (pop_draw s)).
Proof. intros s. destruct (pop_draw_fields s) as [T [Pd _]]. apply wrote_keeps; auto. apply keeps_pop_draw. Qed.
Lemma W_consult : forall s aid, P s -> P (fst (consult s aid)).
Proof.
  intros s aid H. unfold consult. destruct (s_batches s) as [|[a b] r]; simpl; [apply W_fail; auto|].
  destruct (a =? aid); simpl; [|apply W_fail; auto]. apply wrote_emit0; auto.
Qed.
Lemma W_spent : forall s eid, P s -> P (s <| s_events := upd_event eid (fun e => e <| es_spent := true |>) (s_events s) |>).
Proof. intros s eid. apply wrote_same; reflexivity. Qed.
Lemma W_halt_after : forall s e mkid, In e (s_events s) -> round_ctx mkid s -> P s -> P (halt_after_execution s e mkid).
Proof. intros s e mkid _ _. destruct (halt_after_fields s e mkid) as [T [Pd _]]. apply wrote_keeps; auto. apply keeps_halt_after. Qed.
Lemma W_halt_before : forall s e x, In e (s_events s) -> find_mkt (m_id (mk_m x)) (s_markets s) = Some x -> P s -> P (halt_before_step s e x).
Proof. intros s e x _ Fx. destruct (halt_before_fields s e x) as [T [Pd _]]. apply wrote_keeps; auto. apply keeps_halt_before; auto. Qed.
Lemma W_shock : forall s e x, find_mkt (m_id (mk_m x)) (s_markets s) = Some x -> P s -> P (shock_before_step s e x).
Proof. intros s e x Fx. destruct (shock_fields s e x) as [T [Pd _]]. apply wrote_keeps; auto. apply keeps_shock; auto. Qed.

(* the whole order phase of a step, the hooks around a step and the clock update write no begin/end record *)
Lemma wrote_update_markets s : P s -> P (update_markets s).
Proof.
  apply (update_markets_pres P W_fail W_emit W_callback W_accept_order W_accept_cancel W_round W_fills
           W_pop_perm W_pop_draw W_consult W_spent W_halt_after).
Qed.
Lemma wrote_fire_market s before mkid : P s -> P (fire_market s before mkid).
Proof. apply (fire_market_pres P W_emit W_halt_before W_shock). Qed.
Lemma wrote_fire_simple s k before t mkid extra : P s -> P (fire_simple s k before t mkid extra).
Proof. apply (fire_simple_pres P W_emit). Qed.
End Frame.

(* ---------------- market ids never change ---------------- *)
Lemma mids_keys s : mids s = map fst (keys s).
Proof. unfold mids, keys. rewrite map_map. reflexivity. Qed.

Lemma keeps_mids s s' : keeps s s' -> mids s' = mids s.
Proof. intros [K _]. rewrite !mids_keys, K. reflexivity. Qed.

Lemma keeps_fire_market s before mkid : keeps s (fire_market s before mkid).
Proof. apply (fire_market_pres (keeps s) (F_emit s) (F_halt_before s) (F_shock s)). apply keeps_refl. Qed.

Lemma find_mkt_some_of_mid s i : In i (mids s) -> exists x, find_mkt i (s_markets s) = Some x /\ m_id (mk_m x) = i.
Proof.
  intros H. destruct (find_mkt i (s_markets s)) as [x|] eqn:F.
  - exists x. split; auto. eapply find_mkt_id; eauto.
  - exfalso. apply (find_mkt_none _ _ F). unfold mids in H. exact H.
Qed.

Lemma tick_all_mids s : NoDup (mids s) -> mids (tick_all s) = mids s.
Proof.
  intros N. rewrite mids_keys in N. unfold tick_all.
  set (L1 := filter (fun x => negb (is_index x)) (s_markets s)).
  set (s1 := fold_left tick_market L1 s).
  set (L2 := filter is_index (s_markets s1)).
  assert (NM : NoDup (map mkid (s_markets s))) by (rewrite <- keys_ids; exact N).
  assert (NL1 : NoDup (map mkid L1)) by (apply NoDup_map_filter; exact NM).
  destruct (tick_fold_effect L1 s NL1 N) as [K1 _]. fold s1 in K1.
  assert (N1 : NoDup (map fst (keys s1))) by (rewrite K1; exact N).
  assert (NL2 : NoDup (map mkid L2)) by (apply NoDup_map_filter; rewrite <- keys_ids; exact N1).
  destruct (tick_fold_effect L2 s1 NL2 N1) as [K2 _].
  rewrite !mids_keys, K2, K1. reflexivity.
Qed.

Lemma mids_one_step s : NoDup (mids s) -> mids (one_step s) = mids s.
Proof.
  intros N. unfold one_step. destruct (negb (ok s)); auto.
  set (s1 := fold_left step_begin (mids s) s).
  assert (K1 : keeps s s1) by (apply keeps_fold; intros; apply keeps_step_begin).
  destruct (negb (ok s1)); [apply keeps_mids; auto|].
  set (s2 := match cur_sess s1 with Some se => if se_place se then update_markets s1 else s1 | None => fail s1 EOther end).
  assert (K2 : keeps s s2).
  { eapply keeps_trans; [exact K1|]. unfold s2. destruct (cur_sess s1) as [se|]; [|apply keeps_fail].
    destruct (se_place se); [apply keeps_update_markets|apply keeps_refl]. }
  destruct (negb (ok s2)); [apply keeps_mids; auto|].
  set (s3 := fold_left step_end (mids s2) s2).
  assert (K3 : keeps s s3) by (eapply keeps_trans; [exact K2|]; apply keeps_fold; intros; apply keeps_step_end).
  destruct (negb (ok s3)); [apply keeps_mids; auto|].
  rewrite tick_all_mids; [apply keeps_mids; auto|]. rewrite (keeps_mids _ _ K3). exact N.
Qed.

Lemma mids_iterate n : forall s, NoDup (mids s) -> mids (iterate n s) = mids s.
Proof.
  induction n as [|k IH]; simpl; intros s N; auto.
  rewrite IH; [apply mids_one_step; auto|]. rewrite mids_one_step; auto.
Qed.

(* ---------------- one step ---------------- *)
Lemma step_mark s kind x : mark_of (ev_step s kind x) = [MStep kind (m_id (mk_m x))].
Proof. reflexivity. Qed.

Lemma step_begin_wrote M s i : In i (mids s) -> wrote M s -> wrote (M ++ [MStep 9 i]) (step_begin s i).
Proof.
  intros Hi H. unfold step_begin. destruct (ok s) eqn:O; simpl; [|eapply wrote_notok; eauto].
  pose proof (wrote_fire_market M s true i H) as H1.
  pose proof (keeps_fire_market s true i) as K.
  set (s1 := fire_market s true i) in *.
  destruct (ok s1) eqn:O1; simpl; [|eapply wrote_notok; eauto].
  rewrite <- (keeps_mids _ _ K) in Hi. destruct (find_mkt_some_of_mid s1 i Hi) as [x [Fx Ex]]. rewrite Fx.
  pose proof (wrote_emit M s1 (ev_step s1 9 x) H1) as G. rewrite step_mark, Ex in G. exact G.
Qed.

Lemma step_end_wrote M s i : In i (mids s) -> wrote M s -> wrote (M ++ [MStep 10 i]) (step_end s i).
Proof.
  intros Hi H. unfold step_end. destruct (ok s) eqn:O; simpl; [|eapply wrote_notok; eauto].
  destruct (find_mkt_some_of_mid s i Hi) as [x [Fx Ex]]. rewrite Fx.
  apply wrote_fire_market. pose proof (wrote_emit M s (ev_step s 10 x) H) as G. rewrite step_mark, Ex in G. exact G.
Qed.

Lemma fold_steps_wrote (f : sim -> Z -> sim) kind :
  (forall s i, keeps s (f s i)) ->
  (forall M s i, In i (mids s) -> wrote M s -> wrote (M ++ [MStep kind i]) (f s i)) ->
  forall l M s, (forall i, In i l -> In i (mids s)) -> wrote M s -> wrote (M ++ map (MStep kind) l) (fold_left f l s).
Proof.
  intros Kf Hf. induction l as [|i r IH]; simpl; intros M s Hin H.
  - rewrite app_nil_r. exact H.
  - replace (M ++ MStep kind i :: map (MStep kind) r) with ((M ++ [MStep kind i]) ++ map (MStep kind) r) by (rewrite <- app_assoc; reflexivity).
    apply IH.
    + intros j Hj. rewrite (keeps_mids _ _ (Kf s i)). auto.
    + apply Hf; auto.
Qed.

Definition step_marks (ids : list Z) : list mark := map (MStep 9) ids ++ map (MStep 10) ids.

(* ONE STEP: a step-begin record per market, the order phase (no record), a step-end record per market, the clock (no record) *)
Theorem one_step_wrote M s : wrote M s -> wrote (M ++ step_marks (mids s)) (one_step s).
Proof.
  intros H. unfold one_step, step_marks. destruct (ok s) eqn:O; simpl; [|eapply wrote_notok; eauto].
  pose proof (fold_steps_wrote step_begin 9 keeps_step_begin step_begin_wrote (mids s) M s (fun i Hi => Hi) H) as H1.
  assert (K1 : keeps s (fold_left step_begin (mids s) s)) by (apply keeps_fold; intros; apply keeps_step_begin).
  set (s1 := fold_left step_begin (mids s) s) in *.
  destruct (ok s1) eqn:O1; simpl; [|eapply wrote_notok; eauto].
  set (s2 := match cur_sess s1 with Some se => if se_place se then update_markets s1 else s1 | None => fail s1 EOther end).
  assert (H2 : wrote (M ++ map (MStep 9) (mids s)) s2).
  { unfold s2. destruct (cur_sess s1) as [se|]; [|apply wrote_fail; auto]. destruct (se_place se); auto. apply wrote_update_markets; auto. }
  assert (K2 : keeps s s2).
  { eapply keeps_trans; [exact K1|]. unfold s2. destruct (cur_sess s1) as [se|]; [|apply keeps_fail].
    destruct (se_place se); [apply keeps_update_markets|apply keeps_refl]. }
  destruct (ok s2) eqn:O2; simpl; [|eapply wrote_notok; eauto].
  pose proof (fold_steps_wrote step_end 10 keeps_step_end step_end_wrote (mids s2) _ s2 (fun i Hi => Hi) H2) as H3.
  set (s3 := fold_left step_end (mids s2) s2) in *.
  rewrite (keeps_mids _ _ K2), <- app_assoc in H3.
  destruct (ok s3) eqn:O3; simpl; [|eapply wrote_notok; eauto].
  apply W_tick_all. exact H3.
Qed.

Fixpoint repeat_marks (n : nat) (ms : list mark) : list mark := match n with 0%nat => [] | S k => ms ++ repeat_marks k ms end.

Theorem iterate_wrote n : forall M s, NoDup (mids s) -> wrote M s -> wrote (M ++ repeat_marks n (step_marks (mids s))) (iterate n s).
Proof.
  induction n as [|k IH]; simpl; intros M s N H.
  - rewrite app_nil_r. exact H.
  - rewrite app_assoc. rewrite <- (mids_one_step s N). apply IH.
    + rewrite mids_one_step; auto.
    + rewrite mids_one_step; auto. apply one_step_wrote. exact H.
Qed.

(* ---------------- a session, the run ---------------- *)
Definition session_marks (ids : list Z) (se : sess) : list mark :=
  MSessB (se_id se) :: repeat_marks (Z.to_nat (se_steps se)) (step_marks ids) ++ [MSessE (se_id se)].

Lemma mids_run_session s se0 : NoDup (mids s) -> mids (run_session s se0) = mids s.
Proof.
  intros N. unfold run_session. destruct (negb (ok s)); auto.
  set (sa := s <| s_cur := se_id se0 |>).
  set (s1 := fire_simple sa HSession true (se_start se0) (-1) [VZ (se_id se0); VZ (se_start se0)]).
  assert (K1 : keeps s s1) by (apply (keeps_trans s sa s1); [apply keeps_same; reflexivity|apply keeps_fire_simple]).
  destruct (negb (ok s1)); [apply keeps_mids; auto|].
  set (s2 := begin_iteration (flush (write s1 (EvSessBegin (se_id se0) (clock s1))))).
  assert (K2 : keeps s s2).
  { eapply keeps_trans; [exact K1|]. eapply keeps_trans; [|apply keeps_begin_iteration]. apply keeps_same; reflexivity. }
  assert (E3 : mids (iterate (Z.to_nat (se_steps se0)) s2) = mids s).
  { rewrite mids_iterate; [apply keeps_mids; auto|]. rewrite (keeps_mids _ _ K2). exact N. }
  set (s3 := iterate (Z.to_nat (se_steps se0)) s2) in *.
  destruct (negb (ok s3)); auto.
  set (s4 := fire_simple s3 HSession false (se_start se0 + se_steps se0 - 1) (-1) [VZ (se_id se0); VZ (se_start se0 + se_steps se0 - 1)]).
  assert (E4 : mids s4 = mids s) by (unfold s4; rewrite (keeps_mids _ _ (keeps_fire_simple s3 _ _ _ _ _)); exact E3).
  destruct (negb (ok s4)); auto.
Qed.

Theorem run_session_wrote M s se0 : NoDup (mids s) -> wrote M s -> wrote (M ++ session_marks (mids s) se0) (run_session s se0).
Proof.
  intros N H. unfold run_session, session_marks. destruct (ok s) eqn:O; simpl; [|eapply wrote_notok; eauto].
  set (sa := s <| s_cur := se_id se0 |>).
  assert (Ha : wrote M sa) by (revert H; apply wrote_same; reflexivity).
  pose proof (wrote_fire_simple M sa HSession true (se_start se0) (-1) [VZ (se_id se0); VZ (se_start se0)] Ha) as H1.
  set (s1 := fire_simple sa HSession true _ _ _) in *.
  assert (K1 : keeps s s1) by (apply (keeps_trans s sa s1); [apply keeps_same; reflexivity|apply keeps_fire_simple]).
  destruct (ok s1) eqn:O1; simpl; [|eapply wrote_notok; eauto].
  pose proof (wrote_boundary M s1 (EvSessBegin (se_id se0) (clock s1)) H1) as H2. cbn [mark_of] in H2.
  set (sb := flush (write s1 (EvSessBegin (se_id se0) (clock s1)))) in *.
  assert (H2' : wrote (M ++ [MSessB (se_id se0)]) (begin_iteration sb)) by (revert H2; apply wrote_same; reflexivity).
  assert (K2 : keeps s (begin_iteration sb)).
  { eapply keeps_trans; [exact K1|]. eapply keeps_trans; [|apply keeps_begin_iteration]. apply keeps_same; reflexivity. }
  set (s2 := begin_iteration sb) in *.
  assert (N2 : NoDup (mids s2)) by (rewrite (keeps_mids _ _ K2); exact N).
  pose proof (iterate_wrote (Z.to_nat (se_steps se0)) _ s2 N2 H2') as H3. rewrite (keeps_mids _ _ K2) in H3.
  set (s3 := iterate (Z.to_nat (se_steps se0)) s2) in *.
  destruct (ok s3) eqn:O3; simpl; [|eapply wrote_notok; eauto].
  pose proof (wrote_fire_simple _ s3 HSession false (se_start se0 + se_steps se0 - 1) (-1)
                [VZ (se_id se0); VZ (se_start se0 + se_steps se0 - 1)] H3) as H4.
  set (s4 := fire_simple s3 HSession false _ _ _) in *.
  destruct (ok s4) eqn:O4; simpl; [|eapply wrote_notok; eauto].
  pose proof (wrote_boundary _ s4 (EvSessEnd (se_id se0) (clock s4)) H4) as H5. cbn [mark_of] in H5.
  rewrite <- !app_assoc in H5. simpl in H5. exact H5.
Qed.

Theorem sessions_wrote ss : forall M s, NoDup (mids s) -> wrote M s ->
  wrote (M ++ flat_map (session_marks (mids s)) ss) (fold_left run_session ss s).
Proof.
  induction ss as [|se r IH]; cbn [flat_map fold_left]; intros M s N H.
  - rewrite app_nil_r. exact H.
  - rewrite app_assoc. rewrite <- (mids_run_session s se N). apply IH.
    + rewrite mids_run_session; auto.
    + rewrite mids_run_session; auto. apply run_session_wrote; auto.
Qed.

(* THE BEGIN / END RECORDS OF A WHOLE RUN, for every configuration with distinct market ids, every tape, all agent behaviour and
   every fundamental path: if the run ends without exception its begin/end records are exactly these, in this order *)
Theorem run_wrote c tape batches funds : NoDup (map mc_id (c_markets c)) ->
  let ids := map mc_id (c_markets c) in
  wrote ([MSimB] ++ flat_map (session_marks ids) (mk_sessions (c_sessions c) 0) ++ [MSimE]) (run c tape batches funds).
Proof.
  intros N ids. unfold run.
  set (s0 := init_sim c tape batches funds).
  assert (I0 : mids s0 = ids) by (unfold s0, mids, init_sim, ids; cbn; rewrite map_map; reflexivity).
  assert (W0 : wrote [] s0) by (split; [reflexivity|intros _; reflexivity]).
  pose proof (wrote_boundary [] s0 EvSimBegin W0) as W1. cbn [mark_of app] in W1.
  set (sb := flush (write s0 EvSimBegin)) in *.
  assert (Ib : mids sb = ids) by exact I0.
  pose proof (W_tick_all _ sb W1) as W2.
  assert (I1 : mids (tick_all sb) = ids) by (rewrite tick_all_mids; [exact Ib|rewrite Ib; exact N]).
  set (s1 := tick_all sb) in *.
  assert (Ess : s_sessions s1 = mk_sessions (c_sessions c) 0).
  { unfold s1, tick_all.
    assert (G : forall L s, s_sessions (fold_left tick_market L s) = s_sessions s).
    { induction L as [|x r IH]; simpl; intros s; auto. rewrite IH. unfold tick_market.
      destruct (negb (ok s)); auto. destruct (find_mkt _ _) as [y|]; auto.
      match goal with |- context [match ?fv with Some _ => _ | None => _ end] => destruct fv as [f|] end.
      - destruct (tick (mk_m y) f) as [m' recs]. unfold do_tick.
        destruct (log_events_fields recs (set_market s (m_id (mk_m y)) m')) as [-> _]. reflexivity.
      - destruct (fail_fields s EIndex) as [_ [_ [_ [_ [-> _]]]]]. reflexivity. }
    rewrite !G. reflexivity. }
  rewrite Ess.
  assert (N1 : NoDup (mids s1)) by (rewrite I1; exact N).
  pose proof (sessions_wrote (mk_sessions (c_sessions c) 0) _ s1 N1 W2) as W3. rewrite I1 in W3.
  set (s2 := fold_left run_session (mk_sessions (c_sessions c) 0) s1) in *.
  destruct (ok s2) eqn:O2; simpl.
  - pose proof (wrote_boundary _ s2 EvSimEnd W3) as W4. cbn [mark_of] in W4. rewrite <- app_assoc in W4. exact W4.
  - eapply wrote_notok; eauto.
Qed.

Corollary begin_end_records_of_a_run c tape batches funds : NoDup (map mc_id (c_markets c)) ->
  let s := run c tape batches funds in
  let ids := map mc_id (c_markets c) in
  ok s = true ->
  marks (events_of s) = [MSimB] ++ flat_map (session_marks ids) (mk_sessions (c_sessions c) 0) ++ [MSimE] /\ marks (s_pending s) = [].
Proof. intros N s ids O. destruct (run_wrote c tape batches funds N) as [Pd H]. split; auto. Qed.

(* non-vacuity: two markets, sessions of 1 and 2 steps: 1 + (1 + 1*4 + 1) + (1 + 2*4 + 1) + 1 = 18 records *)
Example marks_example :
  let c := mkCfg [mkMC 0 (1#1) (300#1) None 1; mkMC 1 (1#1) (300#1) None 1] []
                 [mkSC 7 1 false false 1 1 (0#1); mkSC 8 2 false false 1 1 (0#1)] [] in
  let funds := flat_map (fun t => [(0, t, 300#1); (1, t, 300#1)]) [0;1;2;3] in
  let s := run c [] [] funds in
  ok s = true /\ length (marks (events_of s)) = 18%nat /\
  firstn 7 (marks (events_of s)) = [MSimB; MSessB 7; MStep 9 0; MStep 9 1; MStep 10 0; MStep 10 1; MSessE 7].
Proof. vm_compute. repeat split. Qed.
