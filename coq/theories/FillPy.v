(* Static prelude of the fourteenth translator (harness/py2coq_fill.py): OrderBook.change_order_volume, the one call Market._execute_orders
   makes into a book - the order's volume moves by delta; at zero the order leaves the book (and is remembered with volume 0, as a later
   cancel log reads it); below zero is the book's AssertionError; an order that is not in the book is the error of list.remove. *)
Require Import Pams.Prelude Pams.Match Pams.Market Pams.OrderPy.
From RecordUpdate Require Import RecordSet.
Import RecordSetNotations.
Open Scope Z_scope.

Definition change_volume (buy : bool) (m : market) (o : O) (delta : Z) : result market :=
  do (l, g) <- dec_vol (oid o) (- delta) (if buy then m_buys m else m_sells m) (m_gone m);
  Ok ((if buy then m <| m_buys := l |> else m <| m_sells := l |>) <| m_gone := g |>).
