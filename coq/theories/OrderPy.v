(* Static prelude of the TRANSLATED unit pams/order.py (class Order: comparison operators and is_expired).
   harness/py2coq_order.py regenerates coq/translated/OrderGen.v from the source on every run; the definitions below are
   the meaning given to the Python constructs that translator accepts (and nothing else is accepted: it fails closed).
   Python values: Optional[int] -> option Z, Optional[float] -> option Q (finite doubles are rationals; only comparisons
   are made), bool -> bool, OrderKind -> kind; a raised exception -> PErr <class>; comparing None with < or > -> TypeError. *)
Require Import Pams.Prelude Pams.Match Pams.Market.
Open Scope Z_scope.

Inductive pyerr := PyValueError | PyNotImplementedError | PyAssertionError | PyException | PyAttributeError | PyTypeError | PyKeyError | PyZeroDivisionError.
Inductive pres (A : Type) := POk (a : A) | PErr (e : pyerr).
Arguments POk {A}. Arguments PErr {A}.

Inductive kind := MARKET_ORDER | LIMIT_ORDER.
Definition kind_eqb a b := match a, b with MARKET_ORDER, MARKET_ORDER | LIMIT_ORDER, LIMIT_ORDER => true | _, _ => false end.

(* the attributes of pams.order.Order *)
Record pyorder := mkPy {
  p_agent : Z; p_mkt : Z; p_buy : bool; p_kind : kind; p_vol : Z;
  p_placed : option Z; p_price : option Q; p_id : option Z; p_ttl : option Z
}.

(* control *)
Definition pif {A} (c : pres bool) (a b : pres A) : pres A :=
  match c with POk true => a | POk false => b | PErr e => PErr e end.
Definition pseq {A} (c : pres unit) (k : pres A) : pres A := match c with POk _ => k | PErr e => PErr e end.
Definition pand (a b : pres bool) : pres bool := pif a b (POk false).      (* short-circuit, as Python's and *)
Definition por (a b : pres bool) : pres bool := pif a (POk true) b.
Definition pnot (a : pres bool) : pres bool := match a with POk x => POk (negb x) | PErr e => PErr e end.

(* values *)
Definition is_none {A} (x : option A) : bool := match x with None => true | Some _ => false end.
Definition oz_add (a b : option Z) : option Z := match a, b with Some x, Some y => Some (x + y) | _, _ => None end.
Definition oz_eqb (a b : option Z) : bool :=
  match a, b with Some x, Some y => x =? y | None, None => true | _, _ => false end.
Definition oq_eqb (a b : option Q) : bool :=
  match a, b with Some x, Some y => qeqb x y | None, None => true | _, _ => false end.
Definition oz_lt (a b : option Z) : pres bool := match a, b with Some x, Some y => POk (x <? y) | _, _ => PErr PyTypeError end.
Definition oz_gt (a b : option Z) : pres bool := oz_lt b a.
Definition oq_lt (a b : option Q) : pres bool := match a, b with Some x, Some y => POk (qltb x y) | _, _ => PErr PyTypeError end.
Definition oq_gt (a b : option Q) : pres bool := oq_lt b a.
Definition oz_le (a b : option Z) : pres bool := match a, b with Some x, Some y => POk (x <=? y) | _, _ => PErr PyTypeError end.
Definition oz_ge (a b : option Z) : pres bool := oz_le b a.
Definition oq_le (a b : option Q) : pres bool := match a, b with Some x, Some y => POk (qleb x y) | _, _ => PErr PyTypeError end.
Definition oq_ge (a b : option Q) : pres bool := oq_le b a.
(* truth value of an Optional number used as a condition: None and zero are false *)
Definition oz_truthy (a : option Z) : bool := match a with Some x => negb (x =? 0) | None => false end.
Definition oq_truthy (a : option Q) : bool := match a with Some x => negb (qeqb x (0#1)) | None => false end.

(* the abstraction to the order of the hand-written models (Match.v / Market.v) *)
Definition zdef (x : option Z) : Z := match x with Some v => v | None => 0 end.
Definition abs_order (o : pyorder) : O :=
  mkO (zdef (p_id o)) (p_agent o) (p_mkt o) (p_buy o) (p_price o) (p_vol o) (zdef (p_placed o)) (p_ttl o).

(* an order as the market holds it: id and acceptance time set, kind consistent with the price (Order.__init__ enforces it) *)
Definition accepted_py (o : pyorder) : Prop :=
  (exists i, p_id o = Some i) /\ (exists t, p_placed o = Some t) /\ (p_kind o = MARKET_ORDER <-> p_price o = None).
