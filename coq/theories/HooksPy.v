(* Static prelude of the translated hook table of pams.simulator.Simulator (harness/py2coq_hooks.py): events_dict[<name>] is an
   insertion-ordered dict from Optional[int] (a time, or None = every time) to the list of hooks registered for it; hooks are compared
   by identity (an integer here). *)
Require Import Pams.Prelude Pams.Match Pams.Market Pams.OrderPy.
Open Scope Z_scope.

Definition etable := list (option Z * list Z).
Definition okeqb (a b : option Z) : bool :=
  match a, b with Some x, Some y => x =? y | None, None => true | _, _ => false end.
Fixpoint tget (k : option Z) (t : etable) : option (list Z) :=
  match t with [] => None | (k', v) :: r => if okeqb k' k then Some v else tget k r end.
Definition thas (k : option Z) (t : etable) : bool := match tget k t with Some _ => true | None => false end.
(* t[k], read only where the key is present *)
Definition tslot (k : option Z) (t : etable) : list Z := match tget k t with Some l => l | None => [] end.
(* t[k] = v *)
Fixpoint tset (k : option Z) (v : list Z) (t : etable) : etable :=
  match t with
  | [] => [(k, v)]
  | (k', w) :: r => if okeqb k' k then (k', v) :: r else (k', w) :: tset k v r
  end.
(* if k in t: L.extend(t[k]) *)
Definition tsel (k : option Z) (t : etable) : list Z := if thas k t then tslot k t else [].
Definition memz (x : Z) (l : list Z) : bool := existsb (Z.eqb x) l.

Lemma okeqb_eq a b : okeqb a b = true <-> a = b.
Proof. destruct a, b; simpl; try (split; [discriminate|discriminate]); try tauto. rewrite Z.eqb_eq. split; [intros ->; reflexivity|intros H; inversion H; reflexivity]. Qed.
Lemma okeqb_refl a : okeqb a a = true. Proof. apply okeqb_eq. reflexivity. Qed.
Lemma okeqb_neq a b : okeqb a b = false <-> a <> b.
Proof. split; [intros H C; apply okeqb_eq in C; congruence|intros H; destruct (okeqb a b) eqn:E; auto; apply okeqb_eq in E; contradiction]. Qed.

Lemma tget_tset_same k v t : tget k (tset k v t) = Some v.
Proof. induction t as [|[k' w] r IH]; simpl; [rewrite okeqb_refl; reflexivity|]. destruct (okeqb k' k) eqn:E; simpl; rewrite E; auto. Qed.
Lemma tget_tset_other k k' v t : k <> k' -> tget k' (tset k v t) = tget k' t.
Proof.
  intros N. induction t as [|[k0 w] r IH]; simpl.
  - assert (okeqb k k' = false) by (apply okeqb_neq; exact N). rewrite H. reflexivity.
  - destruct (okeqb k0 k) eqn:E; simpl.
    + apply okeqb_eq in E. subst k0. assert (okeqb k k' = false) by (apply okeqb_neq; exact N). rewrite H. reflexivity.
    + destruct (okeqb k0 k'); auto.
Qed.
Lemma tsel_tslot k t : tsel k t = tslot k t.
Proof. unfold tsel, thas, tslot. destruct (tget k t); reflexivity. Qed.
Lemma tslot_tset_same k v t : tslot k (tset k v t) = v.
Proof. unfold tslot. rewrite tget_tset_same. reflexivity. Qed.
Lemma tslot_tset_other k k' v t : k <> k' -> tslot k' (tset k v t) = tslot k' t.
Proof. intros N. unfold tslot. rewrite tget_tset_other by exact N. reflexivity. Qed.
