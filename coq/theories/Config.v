(* C18: configuration expansion - pams/utils/json_extends.py, the count / range expansion and naming of
   SequentialRunner._generate_markets/_generate_agents, accessible markets, JsonRandom's dispatch and supports,
   the legacy session keys, class lookup.  Names and opaque values are interned as integers by the harness;
   key 0 is "extends". *)
Require Import Pams.Prelude.
From Coq Require Import Lqa FinFun.
Open Scope Z_scope.

(* ---------------- objects: association lists in insertion order ---------------- *)
Definition obj := list (Z * Z).
Fixpoint lookup (k : Z) (o : obj) : option Z :=
  match o with [] => None | (k', v) :: r => if k' =? k then Some v else lookup k r end.
Definition remove_key (k : Z) (o : obj) : obj := filter (fun kv => negb (fst kv =? k)) o.
Definition has_key (k : Z) (o : obj) : bool := match lookup k o with Some _ => true | None => false end.
Definition memz (x : Z) (l : list Z) : bool := existsb (Z.eqb x) l.
Definition EXT : Z := 0.

(* dict(parent_items, **results): the parent's keys in their order (values overridden by results), then the other keys of results *)
Definition merge (parent results : obj) : obj :=
  map (fun kv => match lookup (fst kv) results with Some v => (fst kv, v) | None => kv end) parent ++
  filter (fun kv => negb (has_key (fst kv) parent)) results.

Fixpoint lookup_whole (name : Z) (w : list (Z * obj)) : option obj :=
  match w with [] => None | (n, o) :: r => if n =? name then Some o else lookup_whole name r end.

(* json_extends: the loop, with fuel; [hist] is extending_history *)
Fixpoint jext (fuel : nat) (whole : list (Z * obj)) (excl hist : list Z) (results : obj) : result obj :=
  match fuel with
  | O => Err EOutOfFuel
  | S f =>
    match lookup EXT results with
    | None => Ok results
    | Some parent =>
      let results := remove_key EXT results in
      match lookup_whole parent whole with
      | None => Err EConfig                      (* "... is missing" *)
      | Some pd =>
        if memz parent hist then Err EOther      (* "... has extending loop" *)
        else jext f whole excl (hist ++ [parent])
                  (merge (filter (fun kv => negb (memz (fst kv) excl)) pd) results)
      end
    end
  end.

Definition json_extends (whole : list (Z * obj)) (name : Z) (target : obj) (excl : list Z) : result obj :=
  jext (S (S (length whole))) whole excl [name] target.

(* ---------------- specification: nearest ancestor that defines the key ---------------- *)
Inductive resolves (whole : list (Z * obj)) (excl : list Z) : obj -> Z -> Z -> Prop :=
| res_own o k v : lookup k o = Some v -> resolves whole excl o k v
| res_inherit o k v p pd : lookup k o = None -> lookup EXT o = Some p -> lookup_whole p whole = Some pd ->
    memz k excl = false -> resolves whole excl pd k v -> resolves whole excl o k v.

(* ---------------- lemmas ---------------- *)
Lemma lookup_remove_other k k' o : k <> k' -> lookup k (remove_key k' o) = lookup k o.
Proof.
  intros H. unfold remove_key. induction o as [|[a v] r IH]; simpl; auto.
  destruct (a =? k') eqn:E1; simpl.
  - apply Z.eqb_eq in E1. subst. destruct (k' =? k) eqn:E2; [apply Z.eqb_eq in E2; congruence|auto].
  - destruct (a =? k); auto.
Qed.
Lemma lookup_remove_same k o : lookup k (remove_key k o) = None.
Proof.
  unfold remove_key. induction o as [|[a v] r IH]; simpl; auto.
  destruct (a =? k) eqn:E; simpl; auto. rewrite E. auto.
Qed.

Lemma lookup_filter_excl k excl o :
  lookup k (filter (fun kv => negb (memz (fst kv) excl)) o) = if memz k excl then None else lookup k o.
Proof.
  induction o as [|[a v] r IH]; simpl; [destruct (memz k excl); auto|].
  destruct (memz a excl) eqn:E; simpl; rewrite ?IH; destruct (a =? k) eqn:E2; auto;
    apply Z.eqb_eq in E2; subst; rewrite E; auto.
Qed.

Lemma lookup_map_override k parent results :
  lookup k (map (fun kv => match lookup (fst kv) results with Some v => (fst kv, v) | None => kv end) parent) =
  match lookup k parent with
  | None => None
  | Some pv => match lookup k results with Some v => Some v | None => Some pv end
  end.
Proof.
  induction parent as [|[a v] r IH]; simpl; auto.
  destruct (lookup a results) as [w|] eqn:L; simpl; destruct (a =? k) eqn:E; auto;
    apply Z.eqb_eq in E; subst; rewrite L; auto.
Qed.

Lemma lookup_app k a b : lookup k (a ++ b) = match lookup k a with Some v => Some v | None => lookup k b end.
Proof. induction a as [|[x v] r IH]; simpl; auto. destruct (x =? k); auto. Qed.

Lemma lookup_filter_nokey k parent results :
  lookup k (filter (fun kv => negb (has_key (fst kv) parent)) results) =
  if has_key k parent then None else lookup k results.
Proof.
  induction results as [|[a v] r IH]; simpl; [destruct (has_key k parent); auto|].
  destruct (has_key a parent) eqn:E; simpl; rewrite ?IH; destruct (a =? k) eqn:E2; auto;
    apply Z.eqb_eq in E2; subst; rewrite E; auto.
Qed.

(* merge as a map: results win, the parent fills the gaps *)
Lemma lookup_merge k parent results :
  lookup k (merge parent results) = match lookup k results with Some v => Some v | None => lookup k parent end.
Proof.
  unfold merge. rewrite lookup_app, lookup_map_override, lookup_filter_nokey. unfold has_key.
  destruct (lookup k parent); destruct (lookup k results); auto.
Qed.

(* one iteration of the loop does not change what the object resolves to (keys other than "extends",
   "extends" itself not excluded) *)
Lemma merge_step_resolves whole excl o p pd :
  memz EXT excl = false -> lookup EXT o = Some p -> lookup_whole p whole = Some pd ->
  let o' := merge (filter (fun kv => negb (memz (fst kv) excl)) pd) (remove_key EXT o) in
  forall k v, k <> EXT -> (resolves whole excl o' k v <-> resolves whole excl o k v).
Proof.
  intros Hx Hp Hw o' k v Hk.
  assert (Lk : forall k0, k0 <> EXT -> lookup k0 o' =
             match lookup k0 o with Some w => Some w | None => if memz k0 excl then None else lookup k0 pd end).
  { intros k0 H0. unfold o'. rewrite lookup_merge, lookup_remove_other, lookup_filter_excl by auto. reflexivity. }
  assert (Le : lookup EXT o' = lookup EXT pd).
  { unfold o'. rewrite lookup_merge, lookup_remove_same, lookup_filter_excl, Hx. reflexivity. }
  split; intros H.
  - inversion H as [? ? ? Ho|? ? ? q qd Hn Hl Hq He Hr]; subst.
    + rewrite Lk in Ho by auto. destruct (lookup k o) as [w|] eqn:E.
      * inversion Ho; subst. apply res_own; auto.
      * destruct (memz k excl) eqn:Ex; [discriminate|].
        apply (res_inherit whole excl o k v p pd); auto. apply res_own; auto.
    + rewrite Lk in Hn by auto. destruct (lookup k o) eqn:E; [discriminate|].
      rewrite He in Hn. rewrite Le in Hl.
      apply (res_inherit whole excl o k v p pd); auto. apply (res_inherit whole excl pd k v q qd); auto.
  - inversion H as [? ? ? Ho|? ? ? q qd Hn Hl Hq He Hr]; subst.
    + apply res_own. rewrite Lk by auto. rewrite Ho. reflexivity.
    + rewrite Hp in Hl. inversion Hl; subst. rewrite Hw in Hq. inversion Hq; subst.
      inversion Hr as [? ? ? Ho|? ? ? q2 qd2 Hn2 Hl2 Hq2 He2 Hr2]; subst.
      * apply res_own. rewrite Lk by auto. rewrite Hn, He. exact Ho.
      * apply (res_inherit whole excl o' k v q2 qd2); auto.
        -- rewrite Lk by auto. rewrite Hn, He. exact Hn2.
        -- rewrite Le. exact Hl2.
Qed.

(* the result of json_extends: its own keys, then for every other key the value of the nearest ancestor defining it,
   skipping excluded keys; "extends" itself does not survive *)
Theorem jext_spec whole excl : memz EXT excl = false -> forall fuel hist o r,
  jext fuel whole excl hist o = Ok r ->
  lookup EXT r = None /\ forall k v, k <> EXT -> (lookup k r = Some v <-> resolves whole excl o k v).
Proof.
  intros Hx. induction fuel as [|f IH]; simpl; intros hist o r H; [discriminate|].
  destruct (lookup EXT o) as [p|] eqn:Hp.
  - destruct (lookup_whole p whole) as [pd|] eqn:Hw; [|discriminate].
    destruct (memz p hist); [discriminate|].
    destruct (IH _ _ _ H) as [E R]. split; auto. intros k v Hk. rewrite (R k v Hk).
    apply (merge_step_resolves whole excl o p pd Hx Hp Hw k v Hk).
  - inversion H; subst. split; auto. intros k v Hk. split.
    + intros L. apply res_own; auto.
    + intros Hr. inversion Hr; subst; auto. congruence.
Qed.

Theorem json_extends_spec whole name target excl r : memz EXT excl = false ->
  json_extends whole name target excl = Ok r ->
  lookup EXT r = None /\ forall k v, k <> EXT -> (lookup k r = Some v <-> resolves whole excl target k v).
Proof. intros Hx H. eapply jext_spec; eauto. Qed.

(* ---------------- termination: cycles and missing parents are errors, never a loop ---------------- *)
Definition names (w : list (Z * obj)) : list Z := map fst w.

Lemma lookup_whole_In p w pd : lookup_whole p w = Some pd -> In p (names w).
Proof.
  induction w as [|[n o] r IH]; simpl; [discriminate|]. destruct (n =? p) eqn:E.
  - apply Z.eqb_eq in E. auto.
  - intros H. right. auto.
Qed.

Lemma memz_false_notin x l : memz x l = false -> ~ In x l.
Proof.
  unfold memz. intros H C. assert (existsb (Z.eqb x) l = true).
  { apply existsb_exists. exists x. split; auto. apply Z.eqb_refl. } congruence.
Qed.

Lemma NoDup_snoc {A} (l : list A) x : NoDup l -> ~ In x l -> NoDup (l ++ [x]).
Proof.
  induction l as [|a r IH]; simpl; intros Hn Hx; [constructor; [auto|constructor]|].
  inversion Hn; subst. constructor.
  - intro C. apply in_app_iff in C. destruct C as [C|[C|[]]]; [auto|subst; apply Hx; left; auto].
  - apply IH; auto.
Qed.

(* the history stays duplicate-free and inside name :: names whole, so it cannot grow beyond that length *)
Theorem jext_never_out_of_fuel whole excl : forall fuel hist o,
  NoDup hist -> incl (tl hist) (names whole) -> hist <> [] ->
  (length whole + 2 - length hist <= fuel)%nat ->
  jext fuel whole excl hist o <> Err EOutOfFuel.
Proof.
  induction fuel as [|f IH]; intros hist o Hn Hi Hne Hl.
  - exfalso. destruct hist as [|h t]; [congruence|]. simpl in *.
    assert (length t <= length (names whole))%nat.
    { apply NoDup_incl_length; auto. inversion Hn; auto. }
    unfold names in H. rewrite map_length in H. lia.
  - simpl. destruct (lookup EXT o) as [p|]; [|discriminate].
    destruct (lookup_whole p whole) as [pd|] eqn:Hw; [|discriminate].
    destruct (memz p hist) eqn:Hm; [discriminate|].
    apply IH.
    + apply NoDup_snoc; auto using memz_false_notin.
    + destruct hist as [|h t]; [congruence|]. simpl. apply incl_app; auto.
      intros x [<-|[]]. eapply lookup_whole_In; eauto.
    + destruct hist; discriminate.
    + rewrite app_length. simpl. lia.
Qed.

Theorem json_extends_terminates whole name target excl : json_extends whole name target excl <> Err EOutOfFuel.
Proof.
  unfold json_extends. apply jext_never_out_of_fuel.
  - constructor; [intros []|constructor].
  - simpl. intros x [].
  - discriminate.
  - simpl. lia.
Qed.

(* errors instead of loops: a missing parent and a cycle are reported *)
Theorem json_extends_missing_parent whole name target excl p :
  lookup EXT target = Some p -> lookup_whole p whole = None -> json_extends whole name target excl = Err EConfig.
Proof. intros H1 H2. unfold json_extends. simpl. rewrite H1, H2. reflexivity. Qed.

Theorem json_extends_self_loop whole name target excl pd :
  lookup EXT target = Some name -> lookup_whole name whole = Some pd -> json_extends whole name target excl = Err EOther.
Proof. intros H1 H2. unfold json_extends. simpl. rewrite H1, H2. unfold memz. simpl. rewrite Z.eqb_refl. reflexivity. Qed.

(* ---------------- groups: count / inclusive range, ids, names ---------------- *)
Inductive gspec := GCount (n : Z) | GRange (a b : Z) | GSingle.
(* (number of entities, first local id, last local id) as computed by the runner *)
Definition gdims (g : gspec) : Z * Z * Z :=
  match g with
  | GSingle => (1, 0, 0)
  | GCount n => (n, 0, n - 1)
  | GRange a b => (b - a + 1, a, b)
  end.
(* a name is the prefix plus, unless the group has exactly one entity, the local id *)
Definition gname (prefix : Z) (n i : Z) : Z * option Z := (prefix, if n =? 1 then None else Some i).
(* the entities of one group: (global id, name), global ids continuing from next *)
Definition expand (g : gspec) (prefix next : Z) : list (Z * (Z * option Z)) :=
  let '(n, a, b) := gdims g in
  map (fun k => (next + Z.of_nat k, gname prefix n (a + Z.of_nat k))) (seq 0 (Z.to_nat (b - a + 1))).

Theorem expand_count g prefix next :
  let '(n, a, b) := gdims g in 0 <= n -> Z.of_nat (length (expand g prefix next)) = n.
Proof. destruct g; unfold expand; cbn [gdims]; intros; rewrite map_length, seq_length; lia. Qed.

Theorem expand_ids_consecutive g prefix next :
  map fst (expand g prefix next) = map (fun k => next + Z.of_nat k) (seq 0 (length (expand g prefix next))).
Proof.
  unfold expand. destruct (gdims g) as [[n a] b]. rewrite map_length, seq_length, map_map. reflexivity.
Qed.

Theorem expand_names_distinct g prefix next : NoDup (map snd (expand g prefix next)).
Proof.
  unfold expand. destruct (gdims g) as [[n a] b] eqn:G. rewrite map_map. simpl.
  destruct (n =? 1) eqn:E.
  - (* one entity: the range has length 1 *)
    apply Z.eqb_eq in E.
    assert (L : Z.to_nat (b - a + 1) = 1%nat).
    { destruct g; simpl in G; inversion G; subst; lia. }
    rewrite L. simpl. constructor; [intros []|constructor].
  - unfold gname. rewrite E.
    apply FinFun.Injective_map_NoDup; [|apply seq_NoDup].
    intros x y H. inversion H. lia.
Qed.

(* ---------------- registries: unique ids and names ---------------- *)
Fixpoint register (reg : list (Z * (Z * option Z))) (es : list (Z * (Z * option Z))) : result (list (Z * (Z * option Z))) :=
  match es with
  | [] => Ok reg
  | (i, nm) :: r =>
      if existsb (fun e => fst e =? i) reg then Err EConfig
      else if existsb (fun e => (fst (snd e) =? fst nm) &&
                                match snd (snd e), snd nm with
                                | None, None => true | Some x, Some y => x =? y | _, _ => false end) reg
           then Err EConfig
           else register (reg ++ [(i, nm)]) r
  end.

(* ---------------- accessible markets ---------------- *)
Fixpoint group_ids (g : Z) (groups : list (Z * list Z)) : option (list Z) :=
  match groups with [] => None | (n, ids) :: r => if n =? g then Some ids else group_ids g r end.
Definition accessible (groups : list (Z * list Z)) (listed : list Z) : list Z :=
  flat_map (fun g => match group_ids g groups with Some ids => ids | None => [] end) listed.

(* an agent can access exactly the markets of the groups it lists *)
Theorem accessible_is_union groups listed i :
  In i (accessible groups listed) <-> exists g ids, In g listed /\ group_ids g groups = Some ids /\ In i ids.
Proof.
  unfold accessible. rewrite in_flat_map. split.
  - intros [g [Hg Hi]]. destruct (group_ids g groups) as [ids|] eqn:E; [|destruct Hi]. exists g, ids. auto.
  - intros [g [ids [Hg [E Hi]]]]. exists g. rewrite E. auto.
Qed.

(* ---------------- JsonRandom ---------------- *)
Inductive jspec := JPair (a b : Q) | JConst (v : Q) | JUniform (a b : Q) | JNormal (mu sigma : Q) | JExpon (lam : Q)
                 | JScalar (v : Q) | JBad.
(* the draws come from the generator (oracle): u = random(), g = gauss(mu, sigma), l = -log(random()) *)
Definition jrandom (j : jspec) (u g l : Q) : result Q :=
  match j with
  | JPair a b | JUniform a b => Ok (qadd (qmul u (qsub b a)) a)
  | JConst v | JScalar v => Ok v
  | JNormal _ _ => Ok g
  | JExpon lam => Ok (qmul lam l)
  | JBad => Err EConfig
  end.

Open Scope Q_scope.
(* uniform: min <= x < max for every draw 0 <= u < 1 (exact arithmetic; the float end-point is the known finding K1) *)
Theorem uniform_support a b u : 0 <= u -> u < 1 -> a < b -> a <= u * (b - a) + a /\ u * (b - a) + a < b.
Proof. intros H0 H1 Hab. split; nra. Qed.

Theorem jrandom_uniform_support a b u g l x : 0 <= u -> u < 1 -> a < b ->
  jrandom (JUniform a b) u g l = Ok x -> a <= x /\ x < b.
Proof.
  intros H0 H1 Hab H. simpl in H. inversion H; subst. rewrite qadd_eq, qmul_eq, qsub_eq. apply uniform_support; auto.
Qed.

Theorem jrandom_const v u g l : jrandom (JConst v) u g l = Ok v. Proof. reflexivity. Qed.

(* exponential: positive for a positive rate parameter and a positive -log draw *)
Theorem jrandom_expon_support lam u g l x : 0 < lam -> 0 < l -> jrandom (JExpon lam) u g l = Ok x -> 0 < x.
Proof. intros H0 H1 H. simpl in H. inversion H; subst. rewrite qmul_eq. apply Qmult_lt_0_compat; auto. Qed.
Open Scope Z_scope.

(* ---------------- legacy session keys ---------------- *)
(* presence and value of: maxHighFrequencyOrders, maxHifreqOrders, highFrequencySubmitRate, hifreqSubmitRate *)
Definition session_hft (mh_new mh_old : option Z) (rate_new rate_old : option Q) (dflt_mh : Z) (dflt_rate : Q)
  : result (Z * Q) :=
  match mh_new, mh_old with
  | Some _, Some _ => Err EConfig
  | _, _ =>
    match rate_new, rate_old with
    | Some _, Some _ => Err EConfig
    | _, _ =>
      Ok (match mh_new, mh_old with Some v, _ => v | None, Some v => v | None, None => dflt_mh end,
          match rate_new, rate_old with Some v, _ => v | None, Some v => v | None, None => dflt_rate end)
    end
  end.

(* a deprecated spelling sets the same parameter as its replacement *)
Theorem legacy_keys_equivalent v r dm dr :
  session_hft (Some v) None (Some r) None dm dr = session_hft None (Some v) None (Some r) dm dr /\
  session_hft (Some v) None None (Some r) dm dr = session_hft (Some v) None (Some r) None dm dr /\
  session_hft None (Some v) (Some r) None dm dr = Ok (v, r).
Proof. repeat split. Qed.

Theorem legacy_and_new_together_rejected v w r1 r2 dm dr x y :
  session_hft (Some v) (Some w) x y dm dr = Err EConfig /\ session_hft None None (Some r1) (Some r2) dm dr = Err EConfig.
Proof. split; reflexivity. Qed.

(* ---------------- class lookup ---------------- *)
(* namespaces: each a list of the names it exposes; registered: the user-registered class names *)
Definition find_class (spaces : list (list Z)) (registered : list Z) (name : Z) : result nat :=
  let c := (length (filter (fun sp => memz name sp) spaces) + length (filter (Z.eqb name) registered))%nat in
  if Nat.eqb c 1 then Ok c else Err EConfig.

Theorem find_class_unique spaces registered name :
  (exists c, find_class spaces registered name = Ok c) <->
  (length (filter (fun sp => memz name sp) spaces) + length (filter (Z.eqb name) registered) = 1)%nat.
Proof.
  unfold find_class. destruct (Nat.eqb _ 1) eqn:E.
  - apply Nat.eqb_eq in E. split; eauto.
  - apply Nat.eqb_neq in E. split; [intros [c H]; discriminate|contradiction].
Qed.

(* ---------------- executable cases for the correspondence check ---------------- *)
Definition ov_obj (o : obj) : ov :=
  (* as a key -> value map: sorted by key (the property does not speak about key order) *)
  let fix ins (kv : Z * Z) (l : list (Z * Z)) : list (Z * Z) :=
    match l with [] => [kv] | x :: r => if fst kv <? fst x then kv :: l else x :: ins kv r end in
  VL (map (fun kv => VL [VZ (fst kv); VZ (snd kv)]) (fold_right ins [] o)).
Definition ov_res {A} (f : A -> ov) (r : result A) : ov := match r with Ok a => f a | Err e => verr e end.

Inductive ccase :=
| CExt (whole : list (Z * obj)) (queries : list (Z * list Z))           (* resolve these entries, one after the other *)
| CGroups (gs : list (gspec * Z))                                       (* (spec, prefix id) per group *)
| CRandom (j : jspec) (u g l : Q)
| CSession (mh_new mh_old : option Z) (rate_new rate_old : option Q)
| CClass (spaces : list (list Z)) (registered : list Z) (name : Z).

Definition ov_entity (e : Z * (Z * option Z)) : ov := VL [VZ (fst e); VZ (fst (snd e)); voz (snd (snd e))].

Fixpoint expand_all (gs : list (gspec * Z)) (next : Z) (reg : list (Z * (Z * option Z))) : result (list (Z * (Z * option Z))) :=
  match gs with
  | [] => Ok reg
  | (g, prefix) :: r =>
      let es := expand g prefix next in
      match register reg es with
      | Err e => Err e
      | Ok reg' => expand_all r (next + Z.of_nat (length es)) reg'
      end
  end.

Definition run_case_c (c : ccase) : ov :=
  match c with
  | CExt whole qs =>
      VL (map (fun q => match lookup_whole (fst q) whole with
                        | Some target => ov_res ov_obj (json_extends whole (fst q) target (snd q))
                        | None => VN end) qs)
  | CGroups gs => ov_res (fun l => VL (map ov_entity l)) (expand_all gs 0 [])
  | CRandom j u g l => ov_res VQ (jrandom j u g l)
  | CSession a b c d => ov_res (fun p => VL [VZ (fst p); VQ (snd p)]) (session_hft a b c d 1 (1#1))
  | CClass sp reg n => ov_res (fun _ => VB true) (find_class sp reg n)
  end.

(* ---------------- C07: seed plumbing ---------------- *)
(* Every component gets its own generator, seeded by one draw from the runner's generator, in creation order: the simulator,
   then the markets, the agents, and per session the session followed by its events.  (The simulator draws once more from its
   own generator for Fundamentals, which draws once for NumPy.) *)
Inductive component := KSim | KMarket (i : nat) | KAgent (i : nat) | KSession (i : nat) | KEvent (s i : nat).
Fixpoint session_components (evs : list nat) (s : nat) : list component :=
  match evs with
  | [] => []
  | n :: r => KSession s :: map (KEvent s) (seq 0 n) ++ session_components r (S s)
  end.
Definition components (n_markets n_agents : nat) (events_per_session : list nat) : list component :=
  KSim :: map KMarket (seq 0 n_markets) ++ map KAgent (seq 0 n_agents) ++ session_components events_per_session 0.
(* component k is seeded by the k-th draw *)
Definition seed_positions (nm na : nat) (evs : list nat) : list (component * nat) :=
  combine (components nm na evs) (seq 0 (length (components nm na evs))).

Lemma NoDup_app_gen {A} (l1 l2 : list A) : NoDup l1 -> NoDup l2 -> (forall x, In x l1 -> In x l2 -> False) -> NoDup (l1 ++ l2).
Proof.
  induction l1 as [|a r IH]; simpl; intros H1 H2 Hd; auto. inversion H1; subst. constructor.
  - intro C. apply in_app_iff in C. destruct C as [C|C]; [auto|]. eapply Hd; eauto.
  - apply IH; auto. intros x Hx. apply Hd. auto.
Qed.

Lemma map_fst_combine {A B} (l : list A) (l' : list B) : length l = length l' -> map fst (combine l l') = l.
Proof. revert l'. induction l as [|a r IH]; intros [|b r']; simpl; intros H; auto; try discriminate. f_equal. apply IH. lia. Qed.
Lemma map_snd_combine {A B} (l : list A) (l' : list B) : length l = length l' -> map snd (combine l l') = l'.
Proof. revert l'. induction l as [|a r IH]; intros [|b r']; simpl; intros H; auto; try discriminate. f_equal. apply IH. lia. Qed.

Lemma session_components_from evs : forall s c, In c (session_components evs s) ->
  match c with KSession i => (s <= i)%nat | KEvent i _ => (s <= i)%nat | _ => False end.
Proof.
  induction evs as [|n r IH]; simpl; intros s c H; [destruct H|].
  destruct H as [<-|H]; [lia|]. apply in_app_iff in H. destruct H as [H|H].
  - apply in_map_iff in H. destruct H as [i [<- _]]. lia.
  - specialize (IH _ _ H). destruct c; auto; lia.
Qed.

Lemma session_components_NoDup evs : forall s, NoDup (session_components evs s).
Proof.
  induction evs as [|n r IH]; simpl; intros s; [constructor|].
  constructor.
  - intro C. apply in_app_iff in C. destruct C as [C|C].
    + apply in_map_iff in C. destruct C as [i [E _]]. discriminate.
    + apply session_components_from in C. lia.
  - apply NoDup_app_gen; auto.
    + apply FinFun.Injective_map_NoDup; [intros x y E; inversion E; auto|apply seq_NoDup].
    + intros c H1 H2. apply in_map_iff in H1. destruct H1 as [i [<- _]]. apply session_components_from in H2. lia.
Qed.

(* no two components share a seed draw, and no component is seeded twice *)
Theorem seed_plumbing nm na evs :
  NoDup (map fst (seed_positions nm na evs)) /\ NoDup (map snd (seed_positions nm na evs)) /\
  length (seed_positions nm na evs) = (1 + nm + na + length evs + fold_right Nat.add 0 evs)%nat.
Proof.
  unfold seed_positions. rewrite combine_length, seq_length, Nat.min_id.
  rewrite map_fst_combine, map_snd_combine by (rewrite seq_length; reflexivity).
  split; [|split; [apply seq_NoDup|]].
  - unfold components. constructor.
    + intro C. apply in_app_iff in C. destruct C as [C|C]; [apply in_map_iff in C; destruct C as [i [E _]]; discriminate|].
      apply in_app_iff in C. destruct C as [C|C]; [apply in_map_iff in C; destruct C as [i [E _]]; discriminate|].
      apply session_components_from in C. exact C.
    + apply NoDup_app_gen.
      * apply FinFun.Injective_map_NoDup; [intros x y E; inversion E; auto|apply seq_NoDup].
      * apply NoDup_app_gen.
        -- apply FinFun.Injective_map_NoDup; [intros x y E; inversion E; auto|apply seq_NoDup].
        -- apply session_components_NoDup.
        -- intros c H1 H2. apply in_map_iff in H1. destruct H1 as [i [<- _]]. apply session_components_from in H2. exact H2.
      * intros c H1 H2. apply in_map_iff in H1. destruct H1 as [i [<- _]]. apply in_app_iff in H2. destruct H2 as [H2|H2].
        -- apply in_map_iff in H2. destruct H2 as [j [E _]]. discriminate.
        -- apply session_components_from in H2. exact H2.
  - unfold components. simpl. rewrite !app_length, !map_length, !seq_length.
    assert (L : forall evs s, length (session_components evs s) = (length evs + fold_right Nat.add 0 evs)%nat).
    { induction evs0 as [|n r IH]; simpl; intros; auto. rewrite app_length, map_length, seq_length, IH. lia. }
    rewrite L. lia.
Qed.
