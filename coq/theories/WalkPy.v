(* Static prelude of the nineteenth translator (harness/py2coq_walk.py): the local state of the loop of Market._execution. *)
Require Import Pams.Prelude Pams.Match Pams.Market Pams.OrderPy.
Open Scope Z_scope.

Record wst := mkW {
  w_b : O;                 (* buy_order *)
  w_s : option O;          (* sell_order - unbound until the first pop of the sell queue *)
  w_bt : Z; w_st : Z;      (* buy_order_volume_tmp, sell_order_volume_tmp *)
  w_bq : list O; w_sq : list O;      (* what is left of the two queues, by priority *)
  w_pb : list O; w_ps : list O;      (* popped_buy_orders, popped_sell_orders *)
  w_p : option Q;          (* price *)
  w_pend : list fillq      (* pending *)
}.
