(* Static prelude of the fifteenth translator (harness/py2coq_add.py): OrderBook.add, the one call Market._add_order makes into a book -
   the order, already stamped with the book's time by the caller's translation, is inserted at its priority on its side. *)
Require Import Pams.Prelude Pams.Match Pams.Market Pams.OrderPy.
From RecordUpdate Require Import RecordSet.
Import RecordSetNotations.
Open Scope Z_scope.

Definition book_add (buy : bool) (m : market) (o : O) : market :=
  if buy then m <| m_buys := insert o (m_buys m) |> else m <| m_sells := insert o (m_sells m) |>.
