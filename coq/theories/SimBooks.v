(* The markets of a simulation are always well-formed Level-M markets, and no matching round of any simulation fails.
   Bridges the Level-M theorems (C01, C02, C03, C04, C08 - stated for states satisfying book_ok / life_ok) to whole runs:
   for every configuration, every tape of runner decisions, every agent behaviour and every fundamental path, as long as the
   orders that were accepted have positive volume and time-to-live (what Order.__init__ enforces), every market of the run
   satisfies the lifetime invariant at every moment, and the run never ends with an internal assertion of the matching engine. *)
Require Import Pams.Prelude Pams.Tick Pams.Match Pams.Market Pams.MatchQ Pams.MarketInv Pams.MarketExec Pams.MarketLife Pams.MarketRound
               Pams.Sim Pams.SimLift Pams.SimInv.
From RecordUpdate Require Import RecordSet.
Import RecordSetNotations.
Open Scope Z_scope.

Definition books_ok (s : sim) : Prop := Forall (fun x => life_ok (mk_m x)) (s_markets s).
Definition valid_rec (r : record) : Prop :=
  match r with ROrder o => 0 < vol o /\ (forall k, ttl o = Some k -> 0 < k) | _ => True end.
Definition valid_tr (s : sim) : Prop := Forall valid_rec (truths (s_trace s)).
Definition no_engine_error (s : sim) : Prop := forall e, s_err s = Some e -> plain_err e = true.
Definition sound (s : sim) : Prop := valid_tr s -> books_ok s /\ no_engine_error s.

(* life_ok does not look at the running flag or the fundamental series *)
Lemma life_ok_running m b : life_ok m -> life_ok (m <| m_running := b |>).
Proof. intros H. exact H. Qed.
Lemma life_ok_fund m f : life_ok m -> life_ok (m <| m_fund := f |>).
Proof. intros H. exact H. Qed.

Lemma upd_mkt_Forall' (Q : mkt -> Prop) i f l : Forall Q l -> (forall x, find_mkt i l = Some x -> Q (f x)) -> Forall Q (upd_mkt i f l).
Proof.
  induction l as [|y r IH]; simpl; intros H Hf; auto. inversion H; subst.
  destruct (m_id (mk_m y) =? i); constructor; auto.
Qed.

Lemma books_set_market s i m' : books_ok s -> (forall x, find_mkt i (s_markets s) = Some x -> life_ok m') -> books_ok (set_market s i m').
Proof. intros H Hm. unfold books_ok, set_market. cbn. apply upd_mkt_Forall'; [exact H|]. intros x Fx. cbn. eauto. Qed.

Lemma find_mkt_In'' i l x : find_mkt i l = Some x -> In x l.
Proof. induction l as [|y r IH]; simpl; [discriminate|]. destruct (m_id (mk_m y) =? i); [intros H; inversion H; auto|auto]. Qed.

Lemma books_find s i x : books_ok s -> find_mkt i (s_markets s) = Some x -> life_ok (mk_m x).
Proof. intros H F. unfold books_ok in H. rewrite Forall_forall in H. apply H. eapply find_mkt_In''; eauto. Qed.

(* steps that leave markets, trace and error alone *)
Lemma sound_same s s' : s_markets s' = s_markets s -> s_trace s' = s_trace s -> s_err s' = s_err s -> sound s -> sound s'.
Proof. unfold sound, valid_tr, books_ok, no_engine_error. intros -> -> ->. auto. Qed.

Lemma sound_fail s e : plain_err e = true -> sound s -> sound (fail s e).
Proof.
  intros Pe H V. destruct (fail_fields s e) as [T [_ [_ [M _]]]].
  assert (V0 : valid_tr s) by (unfold valid_tr in *; rewrite <- T; exact V). destruct (H V0) as [B N].
  split; [unfold books_ok; rewrite M; exact B|].
  intros e0 He0. unfold fail in He0. destruct (s_err s) as [e1|] eqn:E1; [apply N; exact He0|]. cbn in He0. inversion He0; subst. exact Pe.
Qed.

Lemma sound_emit s e : truth_of e = [] -> sound s -> sound (emit s e).
Proof.
  intros Te H V. assert (V0 : valid_tr s).
  { unfold valid_tr, emit in *. cbn in V. change (e :: s_trace s) with ([e] ++ s_trace s) in V. rewrite truths_app, truths_one, Te in V. exact V. }
  destruct (H V0) as [B N]. split; auto.
Qed.

Lemma valid_log s r extra : valid_tr (log_event s r extra) -> valid_rec r /\ valid_tr s.
Proof.
  unfold valid_tr, log_event, write, emit. cbn. intros V. change (EvTruth r extra :: s_trace s) with ([EvTruth r extra] ++ s_trace s) in V.
  rewrite truths_app, truths_one in V. cbn in V. inversion V; subst. auto.
Qed.

Lemma sound_log_other s r extra : (forall o, r <> ROrder o) -> sound s -> sound (log_event s r extra).
Proof. intros _ H V. destruct (valid_log _ _ _ V) as [_ V0]. destruct (H V0) as [B N]. split; auto. Qed.

Lemma sound_logs rs : forall s, sound s -> sound (fold_left (fun s r => log_event s r []) rs s).
Proof.
  induction rs as [|r rest IH]; simpl; intros s H; auto. apply IH.
  intros V. destruct (valid_log _ _ _ V) as [_ V0]. destruct (H V0) as [B N]. split; auto.
Qed.

(* ---------------- every atomic update keeps the markets well-formed and raises no engine error ---------------- *)
Lemma B_fail : forall s e, plain_err e = true -> sound s -> sound (fail s e).
Proof. intros; apply sound_fail; auto. Qed.

Lemma B_fail_exec : forall s mkid x e,
  find_mkt mkid (s_markets s) = Some x -> cur_switch s = true -> execution (mk_m x) = Err e ->
  sound (emit s (EvRound mkid (m_running (mk_m x)) (s_cur s))) -> sound (fail (emit s (EvRound mkid (m_running (mk_m x)) (s_cur s))) e).
Proof.
  intros s mkid x e Fx _ Ex H V. set (s1 := emit s _) in *.
  destruct (fail_fields s1 e) as [T [_ [_ [M _]]]].
  assert (V1 : valid_tr s1) by (unfold valid_tr in *; rewrite <- T; exact V). destruct (H V1) as [B N].
  assert (Lx : life_ok (mk_m x)) by (eapply (books_find s1); eauto).
  assert (Pe : plain_err e = true).
  { destruct Lx as [Bk _]. destruct (m_running (mk_m x)) eqn:R.
    - destruct (execution_never_errors _ Bk R) as [m' [logs E']]. congruence.
    - destruct (execution_not_running _ Bk R) as [E'|E']; rewrite E' in Ex; [discriminate|]. inversion Ex; subst. reflexivity. }
  revert V. apply sound_fail; auto.
Qed.

Lemma B_emit : forall s e, obs_event e -> sound s -> sound (emit s e).
Proof. intros s e He. apply sound_emit. destruct e; simpl in He; try contradiction; reflexivity. Qed.
Lemma B_callback : forall s aid kind r mkid, sound s -> sound (callback s aid kind r mkid).
Proof.
  intros s aid kind r mkid H. unfold callback. destruct (find_agent aid (s_agents s)); [|apply sound_fail; auto].
  destruct (find_mkt mkid (s_markets s)); [|apply sound_fail; auto]. apply sound_emit; auto.
Qed.
Lemma B_step : forall s kind mkid x, find_mkt mkid (s_markets s) = Some x -> sound s -> sound (emit s (ev_step s kind x)).
Proof. intros s kind mkid x _. apply sound_emit. reflexivity. Qed.
Lemma B_boundary : forall s e, boundary_event e -> sound s -> sound (flush (write s e)).
Proof.
  intros s e He H V. assert (Te : truth_of e = []) by (destruct e; simpl in He; try contradiction; reflexivity).
  (* the queue holds deliveries only: moving it to the trace adds no ground-truth record that was not there *)
  assert (V0 : valid_tr s).
  { unfold valid_tr, flush, write in *. cbn in V. rewrite truths_app in V. apply Forall_app in V. apply V. }
  destruct (H V0) as [B N]. split; auto.
Qed.
Lemma B_accept_order : forall s mkid x ag mk buy p v ttlv m' rc tag,
  find_mkt mkid (s_markets s) = Some x -> add_order (mk_m x) ag mk buy p v ttlv = Ok (m', rc) ->
  sound s -> sound (do_accept_order s mkid x m' rc tag).
Proof.
  intros s mkid x ag mk buy p v ttlv m' rc tag Fx Ea H V. unfold do_accept_order in *.
  destruct (valid_log _ _ _ V) as [Vr V0]. destruct (H V0) as [B N].
  destruct (add_order_next _ _ _ _ _ _ _ _ _ Ea) as [_ [_ [o [Er [_ [Ev [_ [Et _]]]]]]]]. subst rc. destruct Vr as [Vv Vt].
  split; [|exact N]. unfold log_event, write, emit, books_ok. cbn.
  apply upd_mkt_Forall'; [exact B|]. intros y Fy. cbn. rewrite Fx in Fy. inversion Fy; subst y.
  eapply add_order_life; [eapply books_find; eauto| | |exact Ea].
  - rewrite <- Ev. exact Vv.
  - intros k Hk. apply Vt. rewrite Et. exact Hk.
Qed.
Lemma B_accept_cancel : forall s mkid x i m' rc,
  find_mkt mkid (s_markets s) = Some x -> cancel_order (mk_m x) i = Ok (m', rc) -> sound s -> sound (do_accept_cancel s mkid m' rc).
Proof.
  intros s mkid x i m' rc Fx Ec H V. unfold do_accept_cancel in *.
  destruct (valid_log _ _ _ V) as [_ V0]. destruct (H V0) as [B N].
  split; [|exact N]. unfold log_event, write, emit, books_ok. cbn.
  apply upd_mkt_Forall'; [exact B|]. intros y Fy. cbn. rewrite Fx in Fy. inversion Fy; subst y.
  eapply cancel_order_life; [eapply books_find; eauto|exact Ec].
Qed.
Lemma B_round : forall s mkid x, find_mkt mkid (s_markets s) = Some x -> cur_switch s = true ->
  sound s -> sound (emit s (EvRound mkid (m_running (mk_m x)) (s_cur s))).
Proof. intros s mkid x _ _. apply sound_emit. reflexivity. Qed.
Lemma B_fills : forall s mkid x m' logs,
  find_mkt mkid (s_markets s) = Some x -> execution (mk_m x) = Ok (m', logs) -> cur_switch s = true ->
  (exists tr, s_trace s = EvRound mkid (m_running (mk_m x)) (s_cur s) :: tr) -> sound s -> sound (do_fills s mkid m' logs).
Proof.
  intros s mkid x m' logs Fx Ex _ _ H. unfold do_fills.
  assert (H1 : sound (set_market s mkid m')).
  { intros V. destruct (H V) as [B N]. split; [|exact N]. apply books_set_market; auto.
    intros y Fy. rewrite Fx in Fy. inversion Fy; subst y. eapply execution_life; [eapply books_find; eauto|exact Ex]. }
  pose proof (sound_logs logs _ H1) as H2. revert H2. apply sound_same; reflexivity.
Qed.
Lemma B_tick_all : forall s, sound s -> sound (tick_all s).
Proof.
  apply tick_all_pres_e; [apply B_fail|].
  intros s x f m' recs Fx Et H. unfold do_tick. apply sound_logs.
  intros V. destruct (H V) as [B N]. split; [|exact N]. apply books_set_market; auto.
  intros y Fy. rewrite Fx in Fy. inversion Fy; subst y.
  pose proof (tick_life (mk_m x) f (books_find _ _ _ B Fx)) as L. rewrite Et in L. exact L.
Qed.
Lemma B_pop_perm : forall s, sound s -> sound (fst (pop_perm s)).
Proof. intros s H. unfold pop_perm. destruct (s_tape s) as [|[l|q] r]; simpl; try (apply sound_fail; auto). revert H. apply sound_same; reflexivity. Qed.
Lemma B_pop_draw : forall s, sound s -> sound (fst (pop_draw s)).
Proof. intros s H. unfold pop_draw. destruct (s_tape s) as [|[l|q] r]; simpl; try (apply sound_fail; auto). revert H. apply sound_same; reflexivity. Qed.
Lemma B_consult : forall s aid, sound s -> sound (fst (consult s aid)).
Proof.
  intros s aid H. unfold consult. destruct (s_batches s) as [|[a b] r]; simpl; [apply sound_fail; auto|].
  destruct (a =? aid); simpl; [|apply sound_fail; auto]. apply sound_emit; [reflexivity|]. revert H. apply sound_same; reflexivity.
Qed.
Lemma B_spent : forall s eid, sound s -> sound (s <| s_events := upd_event eid (fun e => e <| es_spent := true |>) (s_events s) |>).
Proof. intros s eid. apply sound_same; reflexivity. Qed.
Lemma B_halt_after : forall s e mkid, In e (s_events s) -> round_ctx mkid s -> sound s -> sound (halt_after_execution s e mkid).
Proof.
  intros s e mkid _ _ H. unfold halt_after_execution. destruct (es_kind e); auto.
  destruct (find_mkt mkid (s_markets s)) as [x|] eqn:Fx; [|apply sound_fail; auto].
  destruct (mprice_at x 0); [|apply sound_fail; auto]. destruct (mprice_at x (mtime x)); [|apply sound_fail; auto].
  destruct (negb _); auto. destruct (_ && _); auto.
  assert (H1 : sound (set_market s mkid ((mk_m x) <| m_running := false |>))).
  { intros V. destruct (H V) as [B N]. split; [|exact N]. apply books_set_market; auto.
    intros y Fy. rewrite Fx in Fy. inversion Fy; subst y. apply life_ok_running. eapply books_find; eauto. }
  revert H1. apply sound_same; reflexivity.
Qed.
Lemma B_halt_before : forall s e x, In e (s_events s) -> find_mkt (m_id (mk_m x)) (s_markets s) = Some x -> sound s -> sound (halt_before_step s e x).
Proof.
  intros s e x _ Fx H. unfold halt_before_step. destruct (es_kind e); auto. destruct (_ && _); auto.
  destruct (es_halted e) as [[hm hs]|]; auto. destruct (negb (hm =? m_id (mk_m x))) eqn:E; auto.
  apply negb_false_iff, Z.eqb_eq in E. subst hm. destruct (hs =? s_cur s).
  - assert (H1 : sound (set_market s (m_id (mk_m x)) ((mk_m x) <| m_running := true |>))).
    { intros V. destruct (H V) as [B N]. split; [|exact N]. apply books_set_market; auto.
      intros y Fy. rewrite Fx in Fy. inversion Fy; subst y. apply life_ok_running. eapply books_find; eauto. }
    revert H1. apply sound_same; reflexivity.
  - revert H. apply sound_same; reflexivity.
Qed.
Lemma B_shock : forall s e x, find_mkt (m_id (mk_m x)) (s_markets s) = Some x -> sound s -> sound (shock_before_step s e x).
Proof.
  intros s e x Fx H. unfold shock_before_step. destruct (es_kind e); auto.
  destruct (negb _); [apply sound_fail; auto|].
  destruct (negb (m_id (mk_m x) =? target)) eqn:E; [apply sound_fail; auto|]. apply negb_false_iff, Z.eqb_eq in E. subst target.
  destruct (geto _ _); [|apply sound_fail; auto].
  intros V. destruct (H V) as [B N]. split; [|exact N]. apply books_set_market; auto.
  intros y Fy. rewrite Fx in Fy. inversion Fy; subst y. apply life_ok_fund. eapply books_find; eauto.
Qed.
Lemma B_set_cur : forall s sid, sound s -> sound (s <| s_cur := sid |>).
Proof. intros s sid. apply sound_same; reflexivity. Qed.
Lemma B_begin_iteration : forall s, sound s -> sound (begin_iteration s).
Proof.
  intros s H V. destruct (H V) as [B N]. split; [|exact N]. unfold books_ok, begin_iteration in *. cbn.
  rewrite Forall_forall in *. intros y Hy. apply in_map_iff in Hy. destruct Hy as [x [<- Hx]]. cbn. apply life_ok_running. apply B. exact Hx.
Qed.

(* IN EVERY RUN: the markets are well-formed Level-M markets and no matching round fails with an internal assertion *)
Theorem run_sound c tape batches funds : sound (run c tape batches funds).
Proof.
  apply (run_pres_e sound B_fail B_fail_exec B_emit B_callback B_step B_boundary B_accept_order B_accept_cancel B_round B_fills
           B_tick_all B_pop_perm B_pop_draw B_consult B_spent B_halt_after B_halt_before B_shock B_set_cur B_begin_iteration).
  intros _. split.
  - unfold books_ok, init_sim. cbn. rewrite Forall_forall. intros y Hy. apply in_map_iff in Hy. destruct Hy as [m [<- _]]. cbn. apply life_ok_init.
  - intros e He. unfold init_sim in He. cbn in He. discriminate.
Qed.

Corollary markets_of_a_run_are_well_formed c tape batches funds :
  let s := run c tape batches funds in
  valid_tr s -> forall x, In x (s_markets s) -> life_ok (mk_m x).
Proof. intros s V x Hx. destruct (run_sound c tape batches funds V) as [B _]. unfold books_ok in B. rewrite Forall_forall in B. auto. Qed.

Corollary no_round_of_a_run_fails c tape batches funds :
  let s := run c tape batches funds in
  valid_tr s -> forall e, s_err s = Some e -> e <> EAssertWalk /\ e <> EAssertPrice /\ e <> EAssertPost /\ e <> EAssertNegVolume.
Proof.
  intros s V e He. destruct (run_sound c tape batches funds V) as [_ N]. specialize (N e He).
  repeat split; intros ->; discriminate.
Qed.

(* non-vacuity: the run of SimCallbacks' example (two orders that trade, a cancel) *)
Example books_example :
  let c := mkCfg [mkMC 0 (1#1) (100#1) None 1] [mkAC 0 false (1000#1) [(0, 10)]; mkAC 1 false (1000#1) [(0, 10)]]
                 [mkSC 0 2 true true 2 1 (0#1)] [] in
  let tape := [TPerm [0; 1]; TPerm [0; 1]; TDraw (1#2); TDraw (1#2); TPerm [0; 1]; TPerm [0]; TDraw (1#2)]%nat in
  let batches := [(0, [RNew 1 0 0 false (Some (100#1)) 5 None]); (1, [RNew 2 1 0 true (Some (100#1)) 2 None]);
                  (0, [Sim.RCancel 1 0 0]); (1, [])] in
  let funds := [(0, 0, 100#1); (0, 1, 100#1); (0, 2, 100#1)] in
  let s := run c tape batches funds in
  valid_tr s /\ s_err s = None /\ length (truths (s_trace s)) = 4%nat.
Proof.
  cbv zeta. split; [|split; vm_compute; reflexivity].
  unfold valid_tr. vm_compute. repeat constructor; try discriminate.
Qed.
