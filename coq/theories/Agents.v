(* C20: decision kernels of the built-in agents (pams/agents/*.py).
   FCN: the documented combination over the reals (theorems) and an executable kernel over Q that takes the libm results
   (log, exp) and the gauss draw as recorded inputs.  Market maker and arbitrage agent: exact rationals. *)
Require Import Pams.Prelude.
From Coq Require Import Lqa.
Open Scope Z_scope.

Inductive aorder := AOrder (ag mk : Z) (buy : bool) (p : Q) (v : Z) (ttlv : Z).
Definition ov_aorder (o : aorder) : ov :=
  match o with AOrder ag mk buy p v t => VL [VZ ag; VZ mk; VB buy; VA p; VZ v; VZ t] end.
Definition ov_aorder_exact (o : aorder) : ov :=
  match o with AOrder ag mk buy p v t => VL [VZ ag; VZ mk; VB buy; VQ p; VZ v; VZ t] end.

(* ---------------- FCN agent, fixed margin ---------------- *)
Record fcn_params := mkFcn { fp_wf : Q; fp_wc : Q; fp_wn : Q; fp_follow : bool; fp_ns : Q; fp_tw : Z; fp_mrt : Z; fp_margin : Q }.
(* lf = log(fundamental / market price), lc = log(market price / market price tw' steps ago), g = gauss(0, 1) *)
Definition fcn_elr (P : fcn_params) (time : Z) (lf lc g : Q) : Q :=
  let tw' := Z.min time (fp_tw P) in
  let flr := qmul (qdiv (1#1) (qofz (Z.max (fp_mrt P) 1))) lf in
  let clr := qmul (qdiv (1#1) (qofz (Z.max tw' 1))) lc in
  let nlr := qmul (fp_ns P) g in
  qmul (qdiv (1#1) (qadd (qadd (fp_wf P) (fp_wc P)) (fp_wn P)))
       (qadd (qadd (qmul (fp_wf P) flr) (qmul (qmul (fp_wc P) clr) (if fp_follow P then 1#1 else (-1)#1)))
             (qmul (fp_wn P) nlr)).
(* e = exp(elr * tw) as computed by libm *)
Definition fcn_orders (P : fcn_params) (ag mk : Z) (mp e : Q) : list aorder :=
  let efp := qmul mp e in
  (if qltb mp efp then [AOrder ag mk true (qmul efp (qsub (1#1) (fp_margin P))) 1 (fp_tw P)] else []) ++
  (if qltb efp mp then [AOrder ag mk false (qmul efp (qadd (1#1) (fp_margin P))) 1 (fp_tw P)] else []).

Open Scope Q_scope.
(* buys exactly when the expected future price exceeds the market price, sells when it is below, nothing at equality;
   one order at most, of volume 1, limit, lifetime = time window, under the agent's own id, on that market *)
Theorem fcn_side P ag mk mp e :
  (mp < mp * e -> exists p, fcn_orders P ag mk mp e = [AOrder ag mk true p 1 (fp_tw P)] /\ p == (mp * e) * (1 - fp_margin P)) /\
  (mp * e < mp -> exists p, fcn_orders P ag mk mp e = [AOrder ag mk false p 1 (fp_tw P)] /\ p == (mp * e) * (1 + fp_margin P)) /\
  (mp * e == mp -> fcn_orders P ag mk mp e = []).
Proof.
  unfold fcn_orders. repeat split.
  - intros H. assert (A : qltb mp (qmul mp e) = true) by (apply qltb_lt; rewrite qmul_eq; exact H).
    assert (B : qltb (qmul mp e) mp = false) by (apply qltb_ge; rewrite qmul_eq; lra).
    rewrite A, B. simpl. eexists. split; [reflexivity|]. rewrite !qmul_eq, qsub_eq. reflexivity.
  - intros H. assert (A : qltb mp (qmul mp e) = false) by (apply qltb_ge; rewrite qmul_eq; lra).
    assert (B : qltb (qmul mp e) mp = true) by (apply qltb_lt; rewrite qmul_eq; exact H).
    rewrite A, B. simpl. eexists. split; [reflexivity|]. rewrite !qmul_eq, qadd_eq. reflexivity.
  - intros H. assert (A : qltb mp (qmul mp e) = false) by (apply qltb_ge; rewrite qmul_eq; lra).
    assert (B : qltb (qmul mp e) mp = false) by (apply qltb_ge; rewrite qmul_eq; lra).
    rewrite A, B. reflexivity.
Qed.

(* the quote is the expected price shaded by the margin: a buy never above it, a sell never below it *)
Theorem fcn_quote_shaded efp k : 0 <= efp -> 0 <= k -> k <= 1 ->
  0 <= efp * (1 - k) /\ efp * (1 - k) <= efp /\ efp <= efp * (1 + k).
Proof. intros H0 H1 H2. repeat split; nra. Qed.
Open Scope Z_scope.

(* ---------------- market maker ---------------- *)
Definition qmaxl (l : list Q) : option Q := fold_left (fun a x => match a with None => Some x | Some y => Some (if qltb y x then x else y) end) l None.
Definition qminl (l : list Q) : option Q := fold_left (fun a x => match a with None => Some x | Some y => Some (if qltb x y then x else y) end) l None.

(* quotes of the accessible markets: (best bid, best ask), each possibly absent or a market order (None) *)
Definition mm_base (quotes : list (option Q * option Q)) (target_mp : Q) : Q :=
  let bids := flat_map (fun q => match fst q with Some b => [b] | None => [] end) quotes in
  let asks := flat_map (fun q => match snd q with Some a => [a] | None => [] end) quotes in
  match qmaxl bids, qminl asks with
  | Some b, Some a => qdiv (qadd b a) (2#1)
  | _, _ => target_mp
  end.
Definition mm_orders (ag target : Z) (quotes : list (option Q * option Q)) (target_mp fund spread : Q) (ttlv : Z) : list aorder :=
  let base := mm_base quotes target_mp in
  let margin := qmul (qmul fund spread) (1#2) in
  [AOrder ag target true (qsub base margin) 1 ttlv; AOrder ag target false (qadd base margin) 1 ttlv].

Open Scope Q_scope.
(* exactly one buy and one sell on the target, symmetric around the base price, separated by fundamental x spread *)
Theorem mm_quotes ag target quotes mp fund spread ttlv :
  exists pb ps, mm_orders ag target quotes mp fund spread ttlv = [AOrder ag target true pb 1 ttlv; AOrder ag target false ps 1 ttlv] /\
    ps - pb == fund * spread /\ (pb + ps) / 2 == mm_base quotes mp.
Proof.
  unfold mm_orders. eexists. eexists. split; [reflexivity|]. rewrite qsub_eq, qadd_eq, !qmul_eq. split; field.
Qed.

Theorem mm_base_is_mid_of_best_quotes quotes mp b a :
  qmaxl (flat_map (fun q => match fst q with Some b => [b] | None => [] end) quotes) = Some b ->
  qminl (flat_map (fun q => match snd q with Some a => [a] | None => [] end) quotes) = Some a ->
  mm_base quotes mp == (b + a) / 2.
Proof. intros Hb Ha. unfold mm_base. rewrite Hb, Ha, qdiv_eq, qadd_eq. reflexivity. Qed.

Theorem mm_base_falls_back_to_market_price quotes mp :
  (qmaxl (flat_map (fun q => match fst q with Some b => [b] | None => [] end) quotes) = None \/
   qminl (flat_map (fun q => match snd q with Some a => [a] | None => [] end) quotes) = None) -> mm_base quotes mp = mp.
Proof. intros [H|H]; unfold mm_base; rewrite H; auto. destruct (qmaxl _); reflexivity. Qed.
Open Scope Z_scope.

(* ---------------- arbitrage agent ---------------- *)
(* index market: running flags, its market price, the computed index, the components (id, market price) *)
Definition arb_orders (ag idx : Z) (idx_running comps_running : bool) (mp index thr : Q) (comps : list (Z * Q)) (v ttlv : Z)
  : list aorder :=
  if negb (idx_running && comps_running) then [] else
  let n := Z.of_nat (length comps) in
  (if qltb mp index && qltb thr (qsub index mp)
   then AOrder ag idx true mp (n * v) ttlv :: map (fun c => AOrder ag (fst c) false (snd c) v ttlv) comps else []) ++
  (if qltb index mp && qltb thr (qsub mp index)
   then AOrder ag idx false mp (n * v) ttlv :: map (fun c => AOrder ag (fst c) true (snd c) v ttlv) comps else []).

Definition order_buy (o : aorder) : bool := match o with AOrder _ _ b _ _ _ => b end.
Definition order_vol (o : aorder) : Z := match o with AOrder _ _ _ _ v _ => v end.

Open Scope Q_scope.
(* acts only when everything runs and |index price - computed index| > threshold; then one index order of n x v against n
   component orders of v on the opposite side *)
Theorem arb_no_orders_within_threshold ag idx ir cr mp index thr comps v ttlv :
  0 <= thr -> (ir && cr = false \/ (Qabs (mp - index) <= thr)) -> arb_orders ag idx ir cr mp index thr comps v ttlv = [].
Proof.
  intros Ht [H|H]; unfold arb_orders; [rewrite H; reflexivity|].
  destruct (negb (ir && cr)); auto.
  apply Qabs_Qle_condition in H. destruct H as [H1 H2].
  assert (A : qltb thr (qsub index mp) = false) by (apply qltb_ge; rewrite qsub_eq; lra).
  assert (B : qltb thr (qsub mp index) = false) by (apply qltb_ge; rewrite qsub_eq; lra).
  rewrite A, B, !andb_false_r. reflexivity.
Qed.

Theorem arb_hedged_basket ag idx mp index thr comps v ttlv :
  0 <= thr -> thr < Qabs (mp - index) ->
  let os := arb_orders ag idx true true mp index thr comps v ttlv in
  let n := Z.of_nat (length comps) in
  exists side, os = AOrder ag idx side mp (n * v)%Z ttlv :: map (fun c => AOrder ag (fst c) (negb side) (snd c) v ttlv) comps /\
    (side = true <-> mp < index).
Proof.
  intros Ht H. cbv zeta. unfold arb_orders. simpl negb. cbv iota.
  destruct (Qlt_le_dec mp index) as [L|L].
  - assert (G : thr < index - mp).
    { rewrite Qabs_neg in H by lra. lra. }
    assert (A : qltb mp index = true) by (apply qltb_lt; auto).
    assert (B : qltb thr (qsub index mp) = true) by (apply qltb_lt; rewrite qsub_eq; auto).
    assert (C : qltb index mp = false) by (apply qltb_ge; lra).
    rewrite A, B, C. simpl. rewrite app_nil_r. exists true. split; [reflexivity|]. split; auto.
  - assert (G : thr < mp - index).
    { rewrite Qabs_pos in H by lra. lra. }
    assert (A : qltb mp index = false) by (apply qltb_ge; auto).
    assert (B : qltb index mp = true) by (apply qltb_lt; lra).
    assert (C : qltb thr (qsub mp index) = true) by (apply qltb_lt; rewrite qsub_eq; auto).
    rewrite A, B, C. simpl. exists false. split; [reflexivity|]. split; [discriminate|]. intros; lra.
Qed.
Open Scope Z_scope.

(* ---------------- executable cases ---------------- *)
Inductive acase :=
| AFcn (P : fcn_params) (ag mk time : Z) (lf lc g mp e : Q)
| AMm (ag target : Z) (quotes : list (option Q * option Q)) (mp fund spread : Q) (ttlv : Z)
| AArb (ag idx : Z) (ir cr : bool) (mp index thr : Q) (comps : list (Z * Q)) (v ttlv : Z).
Definition run_one_a (c : acase) : ov :=
  match c with
  | AFcn P ag mk time lf lc g mp e => VL [VA (fcn_elr P time lf lc g); VL (map ov_aorder (fcn_orders P ag mk mp e))]
  | AMm ag t qs mp f sp ttlv => VL (map ov_aorder_exact (mm_orders ag t qs mp f sp ttlv))
  | AArb ag idx ir cr mp index thr comps v ttlv => VL (map ov_aorder_exact (arb_orders ag idx ir cr mp index thr comps v ttlv))
  end.
(* one agent asked several times in a row (the market state may change in between) *)
Definition run_case_a (cs : list acase) : ov := VL (map run_one_a cs).
