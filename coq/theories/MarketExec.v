(* What one matching round of the Level-M model emits (C01). *)
Require Import Pams.Prelude Pams.Tick Pams.Match Pams.Market Pams.MatchQ Pams.MarketInv.
From Coq Require Import Sorted.
Open Scope Z_scope.

Definition log_of (m : market) (p : Q) (f : fillq) : record :=
  RExec (m_id m) (m_time m) (agent (fbuy f)) (agent (fsell f)) (oid (fbuy f)) (oid (fsell f)) p (fvol f).

Lemma apply_fills_logs p fs : forall m m' rs,
  apply_fills p m fs = Ok (m', rs) -> rs = map (log_of m p) fs.
Proof.
  induction fs as [|f r IH]; simpl; intros m m' rs H.
  - inversion H; auto.
  - destruct (apply_fill p m f) as [[m1 x]|] eqn:E1; [|discriminate]. simpl in H.
    destruct (apply_fills p m1 r) as [[m2 xs]|] eqn:E2; [|discriminate]. simpl in H. inversion H; subst.
    destruct (apply_fill_frame _ _ _ _ _ E1) as [_ [Hid [Ht _]]].
    rewrite (IH _ _ _ E2). f_equal.
    + unfold apply_fill in E1. destruct f as [v b s]. destruct (negb (m_running m)); [discriminate|].
      destruct (v <=? 0); [discriminate|].
      destruct (dec_vol (oid b) v (m_buys m) (m_gone m)) as [[bs g1]|]; [|discriminate]. simpl in E1.
      destruct (dec_vol (oid s) v (m_sells m) g1) as [[ss g2]|]; [|discriminate]. simpl in E1.
      inversion E1; subst. reflexivity.
    + apply map_ext. intros f'. unfold log_of. rewrite Hid, Ht. reflexivity.
Qed.

Lemma book_ok_bbook m : book_ok m -> bbookq (m_buys m) /\ sbookq (m_sells m).
Proof.
  intros [HB HS]. split; split.
  - apply HB.
  - apply (side_ok_side _ _ _ _ _ HB).
  - apply HS.
  - apply (side_ok_side _ _ _ _ _ HS).
Qed.

(* One round: there is one price p; the logs are exactly the walk's fills priced at p; every fill
   pairs an order resting on the buy side with one resting on the sell side; p honours both limits. *)
Theorem execution_fills m m' logs :
  book_ok m -> execution m = Ok (m', logs) ->
  logs = [] \/
  exists p fs, run_walk m = (Some p, fs) /\ logs = map (log_of m p) fs /\
    Forall (withinq p) fs /\
    Forall (fun f => In (fbuy f) (m_buys m) /\ In (fsell f) (m_sells m)) fs.
Proof.
  intros Hm. unfold execution. destruct (negb (executable m)).
  - intros H; inversion H; auto.
  - destruct (run_walk m) as [[p|] fs] eqn:EW; [|discriminate].
    destruct (apply_fills p m fs) as [[m1 lg]|] eqn:EA; [|discriminate]. simpl.
    destruct (executable m1); [discriminate|]. intros H; inversion H; subst. right.
    exists p, fs. split; auto. split; [eapply apply_fills_logs; eauto|].
    destruct (book_ok_bbook m Hm) as [HB HS]. split.
    + pose proof (walkq_price_within_limits (walk_fuel m) _ _ HB HS) as W. unfold run_walk in EW.
      rewrite EW in W. exact W.
    + unfold run_walk in EW.
      pose proof (walk_fills_from Q qltb (walk_fuel m) None None (m_buys m) (m_sells m) None []
                    (m_buys m) (m_sells m)) as F.
      rewrite EW in F. apply F; simpl; auto using incl_refl.
Qed.

(* the price rule of the round *)
Theorem execution_price_rule m p fs f :
  book_ok m -> run_walk m = (Some p, fs ++ [f]) ->
  rule_price (fbuy f) (fsell f) = Some p /\ (price (fbuy f) <> None \/ price (fsell f) <> None).
Proof.
  intros Hm HW. destruct (book_ok_bbook m Hm) as [HB HS].
  unfold run_walk in HW. eapply (walk_price_rule Q qltb qeqb); eauto; qhyps.
Qed.

(* a fill's orders are live resting orders of this market on the right sides with positive volume *)
Lemma fills_are_resting m f :
  book_ok m -> In (fbuy f) (m_buys m) -> In (fsell f) (m_sells m) ->
  isbuy (fbuy f) = true /\ isbuy (fsell f) = false /\ mkt (fbuy f) = m_id m /\ mkt (fsell f) = m_id m.
Proof.
  intros [HB HS] Ib Is. destruct HB as [_ EB _]. destruct HS as [_ ES _].
  rewrite Forall_forall in EB, ES. destruct (EB _ Ib) as [? [? [? [? ?]]]]. destruct (ES _ Is) as [? [? [? [? ?]]]]. auto.
Qed.
