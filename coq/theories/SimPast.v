(* C06 at the level of whole simulations: RECORDED HISTORY NEVER CHANGES.  From any well-formed state of a run (the invariant that the
   initial state satisfies and every atomic update preserves), after any number of further steps - orders, cancels, matching rounds,
   halts, shocks, clock updates, whatever the agents do - every market still has, for every time strictly before its clock in that
   state, exactly the values it had recorded then (market price, mid, last, fundamental, volume, turnover, order counts), and no clock
   has moved backwards.  Instance of the relational use of SimMarketLift: the invariant speaks about a FIXED earlier state. *)
Require Import Pams.Prelude Pams.Tick Pams.Match Pams.Market Pams.MatchQ Pams.MarketInv Pams.MarketExec Pams.MarketLife Pams.MarketSeries
               Pams.Sim Pams.SimLift Pams.SimInv Pams.SimClock Pams.SimMarks Pams.SimBooks Pams.SimMarketLift.
From RecordUpdate Require Import RecordSet.
Import RecordSetNotations.
Open Scope Z_scope.

(* m is a later version of m0: same id, clock not earlier, everything recorded before m0's clock unchanged *)
Definition later_of (m0 m : market) : Prop :=
  m_id m = m_id m0 /\ m_time m0 <= m_time m /\ forall i, 0 <= i < m_time m0 -> series_at m i = series_at m0 i.

Lemma later_refl m : later_of m m.
Proof. split; [reflexivity|]. split; [lia|auto]. Qed.

Lemma later_step m0 m o m' recs : book_ok m -> gone_mkt m -> later_of m0 m -> step_rec m o = Ok (m', recs) -> later_of m0 m'.
Proof.
  intros Hb Hg [Ei [Ht Hs]] E. destruct (step_rec_mkt _ _ _ _ Hb Hg E) as [_ [_ Ei']]. pose proof (step_rec_time_mono _ _ _ _ E) as Tm.
  split; [congruence|]. split; [lia|]. intros i Hi. rewrite <- Hs by exact Hi. eapply step_rec_preserves_past; eauto. lia.
Qed.

Lemma later_fund m0 m v : later_of m0 m -> later_of m0 (m <| m_fund := upd (m_fund m) (zi (m_time m)) (Some v) |>).
Proof.
  intros [Ei [Ht Hs]]. split; [exact Ei|]. split; [exact Ht|]. intros i Hi. rewrite <- Hs by exact Hi.
  unfold series_at. cbn. repeat f_equal. unfold geto. apply upd_nth_other. unfold zi. intros C.
  assert (Z.to_nat (m_time m) = Z.to_nat i) by exact C. lia.
Qed.

(* well-formed states: what the initial state satisfies and every atomic update preserves (SimMarketLift.run_lifted with the trivial
   market predicate) *)
Definition wf (s : sim) : Prop := lifted (fun _ _ => True) s.

Theorem wf_run c tape batches funds : NoDup (map mc_id (c_markets c)) -> wf (run c tape batches funds).
Proof. intros N. apply run_lifted; auto. Qed.
Lemma wf_init c tape batches funds : NoDup (map mc_id (c_markets c)) -> wf (init_sim c tape batches funds).
Proof.
  intros N. split; [reflexivity|]. intros _. split; [split|split].
  - unfold books_ok, init_sim. cbn. rewrite Forall_forall. intros y Hy. apply in_map_iff in Hy. destruct Hy as [m [<- _]]. cbn. apply life_ok_init.
  - intros e He. unfold init_sim in He. cbn in He. discriminate.
  - unfold mids, init_sim. cbn. rewrite map_map. cbn. exact N.
  - unfold init_sim. cbn. apply Forall_forall. intros y Hy. apply in_map_iff in Hy. destruct Hy as [m [<- Hm]].
    unfold mok, recs_of. cbn. split; [constructor|exact Logic.I].
Qed.
Lemma wf_boundary s e : boundary_event e -> wf s -> wf (flush (write s e)).
Proof. apply ML_boundary; auto. Qed.
Lemma wf_tick_all s : wf s -> wf (tick_all s).
Proof. apply ML_tick_all; auto. Qed.
Lemma wf_iterate n s : wf s -> wf (iterate n s).
Proof. apply iterate_lifted; auto. Qed.
Lemma wf_run_session s se : wf s -> wf (run_session s se).
Proof. apply run_session_lifted; auto. Qed.

Section From.
Variable s0 : sim.
Definition since (m : market) (_ : list record) : Prop := exists x0, In x0 (s_markets s0) /\ later_of (mk_m x0) m.

Lemma since_step m rs o m' recs : life_ok m -> gone_mkt m -> since m rs -> valid_op o -> step_rec m o = Ok (m', recs) -> since m' (rs ++ recs).
Proof. intros [Hb _] Hg [x0 [I0 L]] _ E. exists x0. split; [exact I0|]. eapply later_step; eauto. Qed.
Lemma since_fund m rs v : since m rs -> since (m <| m_fund := upd (m_fund m) (zi (m_time m)) (Some v) |>) rs.
Proof. intros [x0 [I0 L]]. exists x0. split; [exact I0|]. apply later_fund. exact L. Qed.

Lemma since_start : valid_tr s0 -> wf s0 -> lifted since s0.
Proof.
  intros V [P H]. split; [exact P|]. intros _. destruct (H V) as [BN [N M]]. split; [exact BN|]. split; [exact N|].
  rewrite Forall_forall in *. intros x Hx. destruct (M _ Hx) as [G _]. split; [exact G|]. exists x. split; [exact Hx|apply later_refl].
Qed.

(* after any number of further steps *)
Theorem past_is_fixed_over_steps n :
  wf s0 -> valid_tr s0 -> valid_tr (iterate n s0) ->
  mids (iterate n s0) = mids s0 /\
  forall x', In x' (s_markets (iterate n s0)) ->
    exists x, In x (s_markets s0) /\ m_id (mk_m x') = m_id (mk_m x) /\ m_time (mk_m x) <= m_time (mk_m x') /\
              forall i, 0 <= i < m_time (mk_m x) -> series_at (mk_m x') i = series_at (mk_m x) i.
Proof.
  intros W V0 V.
  pose proof (iterate_lifted since since_step since_fund n s0 (since_start V0 W)) as [_ H].
  destruct (H V) as [_ [N M]]. split.
  - apply mids_iterate. destruct W as [_ HW]. destruct (HW V0) as [_ [N0 _]]. exact N0.
  - intros x' Hx'. rewrite Forall_forall in M. destruct (M _ Hx') as [_ [x [Hx [E [T S]]]]]. exists x. auto.
Qed.

(* ... and over a whole further session *)
Theorem past_is_fixed_over_a_session se :
  wf s0 -> valid_tr s0 -> valid_tr (run_session s0 se) ->
  mids (run_session s0 se) = mids s0 /\
  forall x', In x' (s_markets (run_session s0 se)) ->
    exists x, In x (s_markets s0) /\ m_id (mk_m x') = m_id (mk_m x) /\ m_time (mk_m x) <= m_time (mk_m x') /\
              forall i, 0 <= i < m_time (mk_m x) -> series_at (mk_m x') i = series_at (mk_m x) i.
Proof.
  intros W V0 V.
  pose proof (run_session_lifted since since_step since_fund s0 se (since_start V0 W)) as [_ H].
  destruct (H V) as [_ [N M]]. split.
  - apply mids_run_session. destruct W as [_ HW]. destruct (HW V0) as [_ [N0 _]]. exact N0.
  - intros x' Hx'. rewrite Forall_forall in M. destruct (M _ Hx') as [_ [x [Hx [E [T S]]]]]. exists x. auto.
Qed.
End From.
