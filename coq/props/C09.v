(* C09 — Session rules: no fill in a session without execution, whatever events are configured; dispatch of rounds. *)
Require Import Pams.Prelude Pams.Match Pams.Market Pams.Sim Pams.SimLift Pams.SimInv Pams.SimProps Pams.SimConsult.
Open Scope Z_scope.

(* Every fill of every run lies in a matching round on its own market; that market was running when the round began; and
   the round took place in a session CONFIGURED with order execution.  Hence: in a session without order execution no fill
   occurs, for every set of configured events (trading halt rules, shocks, price limits, user probes), every seed, every
   agent behaviour.  (Session ids are distinct: they are positions in the session list.) *)
Theorem C09_no_fill_outside_sessions_configured_with_execution : forall c tape batches funds,
  NoDup (map sc_id (c_sessions c)) ->
  let s := run c tape batches funds in
  forall r x, In (EvTruth r x) (events_of s) -> is_fill r = true ->
  exists mk sid se, In (EvRound mk true sid) (events_of s) /\ fill_on mk r /\
                    In se (s_sessions s) /\ se_id se = sid /\ se_cfg_exec se = true.
Proof. exact every_fill_in_a_round_of_an_executing_session. Qed.
Print Assumptions C09_no_fill_outside_sessions_configured_with_execution.

(* the run-level invariant behind it (holds after every atomic update): a session's execution switch can only be on if the
   session is configured with execution; a trading halt only remembers sessions configured with execution; rounds only
   happen in such sessions; fills only occur as a block right after the round event of their market *)
Theorem C09_switch_invariant : forall c tape batches funds,
  NoDup (map sc_id (c_sessions c)) -> switch_inv (run c tape batches funds).
Proof. exact switch_inv_run. Qed.
Print Assumptions C09_switch_invariant.

(* a matching round follows an accepted request exactly when the session's execution switch is on:
   run_round is the identity when the switch is off, and begins a round on the request's market when it is on *)
Theorem C09_round_iff_switch_on : forall s mkid,
  (cur_switch s = false -> run_round s mkid = s) /\
  (cur_switch s = true -> forall x, find_mkt mkid (s_markets s) = Some x ->
     exists tr, s_trace (run_round s mkid) = tr ++ EvRound mkid (m_running (mk_m x)) (s_cur s) :: s_trace s).
Proof. exact round_iff_switch_on. Qed.
Print Assumptions C09_round_iff_switch_on.

(* in a session without order placement the step consults nobody: the order phase is skipped altogether *)
Theorem C09_no_placement_no_order_phase : forall s se,
  ok s = true -> cur_sess (fold_left step_begin (mids s) s) = Some se -> se_place se = false ->
  one_step s = (let s1 := fold_left step_begin (mids s) s in
                if negb (ok s1) then s1 else
                let s2 := fold_left step_end (mids s1) s1 in if negb (ok s2) then s2 else tick_all s2).
Proof. exact no_placement_no_order_phase. Qed.
Print Assumptions C09_no_placement_no_order_phase.

(* normal agents are consulted along the tape's permutation, each at most once (one walk over the list), and no more than
   maxNormalOrders non-empty batches are kept; empty batches do not count *)
Theorem C09_collect_respects_cap : forall ags s cap n acc,
  Z.of_nat (length acc) <= n ->
  Z.of_nat (length (snd (collect s ags cap n acc))) <= Z.max n cap.
Proof. exact collect_respects_cap. Qed.
Print Assumptions C09_collect_respects_cap.

Theorem C09_collected_batches_nonempty : forall ags s cap n acc,
  Forall (fun b => b <> []) acc -> Forall (fun b => b <> []) (snd (collect s ags cap n acc)).
Proof. exact collect_batches_wellformed. Qed.
Print Assumptions C09_collected_batches_nonempty.

(* within a step the normal agents that are asked for orders are a prefix of the runner's permuted list, in that order, each
   once (asking stops when maxNormalOrders of them have produced orders, or the run fails); [asked s] is the sequence of agents
   asked so far *)
Theorem C09_normal_agents_asked_in_permuted_order_each_once : forall ags s cap n acc,
  exists k, (k <= length ags)%nat /\ asked (fst (collect s ags cap n acc)) = asked s ++ map a_id (firstn k ags).
Proof. exact collect_asks_a_prefix. Qed.
Print Assumptions C09_normal_agents_asked_in_permuted_order_each_once.

Theorem C09_nobody_asked_twice_by_one_collection : forall ags s cap n acc, NoDup (map a_id ags) ->
  exists l, asked (fst (collect s ags cap n acc)) = asked s ++ l /\ NoDup l.
Proof. exact collect_asks_each_at_most_once. Qed.
Print Assumptions C09_nobody_asked_twice_by_one_collection.

(* the same for the high-frequency agents after a batch; handling the orders in between asks nobody *)
Theorem C09_high_frequency_agents_asked_in_permuted_order_each_once : forall ags s cap n,
  exists k, (k <= length ags)%nat /\ asked (hft_phase s ags cap n) = asked s ++ map a_id (firstn k ags).
Proof. exact hft_phase_asks_a_prefix. Qed.
Print Assumptions C09_high_frequency_agents_asked_in_permuted_order_each_once.

Theorem C09_handling_orders_asks_nobody : forall s r, asked (handle_request s r) = asked s.
Proof. exact request_asks_nobody. Qed.
Print Assumptions C09_handling_orders_asks_nobody.

