(* C08 — market price, quotes and step statistics are what book and fills imply (market level). *)
Require Import Pams.Prelude Pams.Match Pams.Market Pams.MatchQ Pams.MarketInv Pams.MarketSeries Pams.MarketPrice.
Open Scope Z_scope.

(* storage invariant in every reachable state (needed by the rules below; holds from creation on) *)
Theorem C08_storage_invariant_reachable : forall id tk mp0 ops,
  store_ok (final_state (init_market id tk mp0) ops).
Proof. intros. apply reachable_store_ok. apply store_ok_init. Qed.
Print Assumptions C08_storage_invariant_reachable.

(* the mid quote the book implies: defined iff both best orders are limit orders, then their mean *)
Theorem C08_book_mid_is_mean_of_best_limits : forall m x, book_mid m = Some x ->
  exists b s, best_price (m_buys m) = Some b /\ best_price (m_sells m) = Some s /\ (x == (s + b) / (2#1))%Q.
Proof. exact book_mid_value. Qed.
Print Assumptions C08_book_mid_is_mean_of_best_limits.

(* after every accepted order: mid refreshed from the book; last-trade price untouched; market price =
   last trade if any, else mid if defined, else its previous value - and unchanged if not running;
   the order counter of the order's side goes up by one, the fill counters do not move *)
Theorem C08_after_accepted_order : forall m ag mk buy p v ttlv m' r,
  series_ok m -> add_order m ag mk buy p v ttlv = Ok (m', r) ->
  let t := m_time m in
  geto (m_mid m') t = book_mid m' /\
  geto (m_last m') t = geto (m_last m) t /\
  geto (m_mp m') t =
    (if m_running m then
       match geto (m_last m) t with
       | Some l => Some l
       | None => match book_mid m' with Some x => Some x | None => geto (m_mp m) t end
       end
     else geto (m_mp m) t) /\
  getz (m_nbuy m') t = getz (m_nbuy m) t + (if buy then 1 else 0) /\
  getz (m_nsell m') t = getz (m_nsell m) t + (if buy then 0 else 1) /\
  getz (m_vol m') t = getz (m_vol m) t /\ getq (m_turn m') t = getq (m_turn m) t.
Proof. exact add_order_prices. Qed.
Print Assumptions C08_after_accepted_order.

Theorem C08_after_accepted_cancel : forall m i m' r,
  series_ok m -> cancel_order m i = Ok (m', r) ->
  let t := m_time m in
  geto (m_mid m') t = book_mid m' /\
  geto (m_last m') t = geto (m_last m) t /\
  geto (m_mp m') t =
    (if m_running m then
       match geto (m_last m) t with
       | Some l => Some l
       | None => match book_mid m' with Some x => Some x | None => geto (m_mp m) t end
       end
     else geto (m_mp m) t).
Proof. exact cancel_order_prices. Qed.
Print Assumptions C08_after_accepted_cancel.

(* after every fill (only possible while running): last-trade and market price are the fill price,
   mid refreshed from the book, executed volume += v, turnover += v * price, order counters unchanged *)
Theorem C08_after_fill : forall p m f m' r,
  series_ok m -> 0 <= m_time m -> apply_fill p m f = Ok (m', r) ->
  let t := m_time m in
  m_running m = true /\
  geto (m_last m') t = Some p /\ geto (m_mp m') t = Some p /\ geto (m_mid m') t = book_mid m' /\
  getz (m_vol m') t = getz (m_vol m) t + fvol f /\
  getq (m_turn m') t = qadd (getq (m_turn m) t) (qmul (qofz (fvol f)) p) /\
  getz (m_nbuy m') t = getz (m_nbuy m) t /\ getz (m_nsell m') t = getz (m_nsell m) t.
Proof. exact apply_fill_prices. Qed.
Print Assumptions C08_after_fill.

(* at the clock step: mid and last trade are carried over (even if orders expire), the market price is
   refreshed from (last trade, else mid, else itself) only while running, else carried *)
Theorem C08_at_clock_step : forall m f, store_ok m -> 0 <= m_time m ->
  let t := m_time m + 1 in
  let m' := fst (tick m f) in
  geto (m_fund m') t = Some f /\
  geto (m_last m') t = geto (m_last m) (t - 1) /\
  geto (m_mid m') t = geto (m_mid m) (t - 1) /\
  geto (m_mp m') t =
    (if m_running m then
       match geto (m_last m) (t - 1) with
       | Some l => Some l
       | None => match geto (m_mid m) (t - 1) with Some x => Some x | None => geto (m_mp m) (t - 1) end
       end
     else geto (m_mp m) (t - 1)).
Proof. exact tick_prices. Qed.
Print Assumptions C08_at_clock_step.

Example C08_nonvacuous :
  let ops := [OTick (100#1); ORun true; OAdd 1 0 false (Some (102#1)) 5 None; OAdd 2 0 true (Some (100#1)) 2 None] in
  let m := final_state (init_market 0 (1#1) (90#1)) ops in
  series_ok m /\ book_mid m = Some (101#1) /\ geto (m_mp m) 0 = Some (101#1) /\
  exists m' r, add_order m 3 0 true (Some (102#1)) 1 None = Ok (m', r) /\
  exists m'' lg, execution m' = Ok (m'', lg) /\ geto (m_mp m'') 0 = Some (102#1) /\ getz (m_vol m'') 0 = 1.
Proof.
  split; [apply C08_storage_invariant_reachable|]. split; [vm_compute; reflexivity|]. split; [vm_compute; reflexivity|].
  eexists; eexists; split; [vm_compute; reflexivity|]. eexists; eexists; split; [vm_compute; reflexivity|].
  vm_compute; split; reflexivity.
Qed.

Require Import Pams.Sim Pams.SimInv Pams.SimBooks Pams.SimMarketLift.

(* IN EVERY SIMULATION: the storage invariant - and the lifetime invariant of the books - hold for every market of every run
   (distinct market ids; accepted orders with positive volume and time-to-live, as Order.__init__ enforces), whatever the configuration,
   tape, agent behaviour and events.  So the per-operation rules above (C08_after_accepted_order / _cancel / _fill, C08_at_clock_step),
   whose premises are exactly these invariants, apply at every accepted order, cancel, fill and clock step of every simulation.
   Instance of SimMarketLift.market_invariant_of_every_run (stated in props/C04.v). *)
Theorem C08_storage_invariant_in_every_run : forall c tape batches funds,
  NoDup (map mc_id (c_markets c)) ->
  let s := run c tape batches funds in
  valid_tr s -> forall x, In x (s_markets s) -> store_ok (mk_m x) /\ MarketLife.life_ok (mk_m x).
Proof.
  intros c tape batches funds N s V x Hx. split; [exact (price_store_ok_in_every_run c tape batches funds N V x Hx)|].
  exact (markets_of_a_run_are_well_formed c tape batches funds V x Hx).
Qed.
Print Assumptions C08_storage_invariant_in_every_run.
