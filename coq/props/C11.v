(* C11 — Agent callbacks: each party told of its fills, after holdings have been updated for the whole round. *)
Require Import Pams.Prelude Pams.Match Pams.Market Pams.Sim Pams.SimLift Pams.SimInv Pams.SimProps Pams.SimCallbacks Pams.SimHoldCb.
Open Scope Z_scope.

(* what the notification of one fill emits: the buyer's callback, then the seller's (twice to the same agent for a
   self-trade), each carrying that fill's record and the agent's holdings at that moment; nothing else is notified *)
Theorem C11_fill_notifies_buyer_then_seller : forall s mkid mk t ba sa bi si p v b sl x,
  ok s = true -> find_agent ba (s_agents s) = Some b -> find_agent sa (s_agents s) = Some sl ->
  find_mkt mkid (s_markets s) = Some x ->
  let r := RExec mk t ba sa bi si p v in
  exists s2, notify_fill s mkid r = guard s2 (fun s => fire_exec_after s t mkid [VZ bi; VZ si]) /\
    s_trace s2 = EvCallback (a_id sl) 3 r (holdings_ov sl) (cur_switch s) (m_running (mk_m x)) ::
                 EvCallback (a_id b) 3 r (holdings_ov b) (cur_switch s) (m_running (mk_m x)) :: s_trace s /\
    s_agents s2 = s_agents s /\ s_err s2 = s_err s.
Proof. exact notify_fill_emits. Qed.
Print Assumptions C11_fill_notifies_buyer_then_seller.

(* holdings are updated for the WHOLE round before anybody is notified, and notifying changes no holdings *)
Theorem C11_notified_after_holdings_updated_for_whole_round : forall s mkid x m' logs,
  find_mkt mkid (s_markets s) = Some x -> cur_switch s = true -> execution (mk_m x) = Ok (m', logs) ->
  forall pre post, logs = pre ++ post ->
  s_agents (fold_left (fun s r => notify_fill s mkid r) pre (do_fills (emit s (EvRound mkid (m_running (mk_m x)) (s_cur s))) mkid m' logs))
  = fold_left apply_fill_holdings logs (s_agents s).
Proof. exact round_updates_holdings_before_notifying. Qed.
Print Assumptions C11_notified_after_holdings_updated_for_whole_round.

(* ---- the whole run ---- *)
(* [cbs] = the callbacks made, in order, as (agent, kind, record) with kind 1 submitted_order, 2 canceled_order,
   3 executed_order; [truths] = the records born in the markets, in order; [expected] = what they call for:
   the owner for an accepted order, the owner of the cancelled order for an accepted cancel, buyer then seller for a fill
   (twice the same agent for a self-trade), nobody for an expiry.  EXACTLY ONCE EACH, IN ORDER, NOTHING ELSE - for every
   configuration, every tape of runner decisions, every behaviour of normal and high-frequency agents, every fundamental path,
   whenever the run ends without an exception. *)
Theorem C11_callbacks_are_exactly_what_the_records_call_for : forall c tape batches funds,
  let s := run c tape batches funds in
  ok s = true -> cbs (events_of s) = expected (truths (events_of s)).
Proof. exact callbacks_are_exactly_what_the_records_call_for. Qed.
Print Assumptions C11_callbacks_are_exactly_what_the_records_call_for.

(* also while a run is under way or after it failed: at every request boundary nothing is owed (told [] s) *)
Theorem C11_nothing_owed_after_any_request : forall s r, told [] s -> told [] (handle_request s r).
Proof. exact told_request. Qed.
Print Assumptions C11_nothing_owed_after_any_request.

(* no agent is notified about an event it is not a party to, and every notification is about a record that exists *)
Theorem C11_only_parties_are_notified : forall c tape batches funds,
  let s := run c tape batches funds in
  ok s = true -> forall a k r, In (a, k, r) (cbs (events_of s)) -> party a r /\ In r (truths (events_of s)).
Proof. exact only_parties_are_notified. Qed.
Print Assumptions C11_only_parties_are_notified.


(* WHAT AN AGENT SEES WHEN CALLED BACK: in any run, for every callback, the holdings handed to the agent are its endowment
   folded, in order, with every fill born before that callback - hence with all fills of the round being notified *)
Theorem C11_callbacks_carry_holdings_updated_for_all_earlier_fills : forall c tape batches funds,
  let s := run c tape batches funds in
  let a0 := s_agents (init_sim c tape batches funds) in
  forall before a k r hold sw run after, events_of s = before ++ EvCallback a k r hold sw run :: after ->
    exists ag, find_agent a (fold_left apply_fill_holdings (fills before) a0) = Some ag /\ hold = holdings_ov ag.
Proof. exact callbacks_carry_updated_holdings. Qed.
Print Assumptions C11_callbacks_carry_holdings_updated_for_all_earlier_fills.

Example C11_run_nonvacuous :
  let c := mkCfg [mkMC 0 (1#1) (100#1) None 1] [mkAC 0 false (1000#1) [(0, 10)]; mkAC 1 false (1000#1) [(0, 10)]]
                 [mkSC 0 2 true true 2 1 (0#1)] [] in
  let tape := [TPerm [0; 1]; TPerm [0; 1]; TDraw (1#2); TDraw (1#2);
               TPerm [0; 1]; TPerm [0]; TDraw (1#2)]%nat in
  let batches := [(0, [RNew 1 0 0 false (Some (100#1)) 5 None]); (1, [RNew 2 1 0 true (Some (100#1)) 2 None]);
                  (0, [Sim.RCancel 1 0 0]); (1, [])] in
  let funds := [(0, 0, 100#1); (0, 1, 100#1); (0, 2, 100#1)] in
  let s := run c tape batches funds in
  ok s = true /\ map (fun x => (fst (fst x), snd (fst x))) (cbs (events_of s)) = [(0, 1); (1, 1); (1, 3); (0, 3); (0, 2)].
Proof. exact callbacks_example. Qed.
