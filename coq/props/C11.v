(* C11 — Agent callbacks: each party told of its fills, after holdings have been updated for the whole round. *)
Require Import Pams.Prelude Pams.Match Pams.Market Pams.Sim Pams.SimLift Pams.SimInv Pams.SimProps.
Open Scope Z_scope.

(* what the notification of one fill emits: the buyer's callback, then the seller's (twice to the same agent for a
   self-trade), each carrying that fill's record and the agent's holdings at that moment; nothing else is notified *)
Theorem C11_fill_notifies_buyer_then_seller : forall s mkid mk t ba sa bi si p v b sl x,
  ok s = true -> find_agent ba (s_agents s) = Some b -> find_agent sa (s_agents s) = Some sl ->
  find_mkt mkid (s_markets s) = Some x ->
  let r := RExec mk t ba sa bi si p v in
  exists s2, notify_fill s mkid r = guard s2 (fun s => fire_exec_after s t mkid [VZ bi; VZ si]) /\
    s_trace s2 = EvCallback (a_id sl) 3 r (holdings_ov sl) (cur_switch s) (m_running (mk_m x)) ::
                 EvCallback (a_id b) 3 r (holdings_ov b) (cur_switch s) (m_running (mk_m x)) :: s_trace s /\
    s_agents s2 = s_agents s /\ s_err s2 = s_err s.
Proof. exact notify_fill_emits. Qed.
Print Assumptions C11_fill_notifies_buyer_then_seller.

(* holdings are updated for the WHOLE round before anybody is notified, and notifying changes no holdings *)
Theorem C11_notified_after_holdings_updated_for_whole_round : forall s mkid x m' logs,
  find_mkt mkid (s_markets s) = Some x -> cur_switch s = true -> execution (mk_m x) = Ok (m', logs) ->
  forall pre post, logs = pre ++ post ->
  s_agents (fold_left (fun s r => notify_fill s mkid r) pre (do_fills (emit s (EvRound mkid (m_running (mk_m x)) (s_cur s))) mkid m' logs))
  = fold_left apply_fill_holdings logs (s_agents s).
Proof. exact round_updates_holdings_before_notifying. Qed.
Print Assumptions C11_notified_after_holdings_updated_for_whole_round.

(* NOTE (partial): the run-level statement "the callback stream equals, request by request, submitted/canceled for the owner
   followed by buyer+seller per fill" is decided by the correspondence of the callback events and by the monitor; its
   closed-form theorem over whole runs is not proved yet. *)
