(* C18 — Config expansion: inheritance, counts/ranges, names, random values, aliases. *)
Require Import Pams.Prelude Pams.Config Pams.FloatFacts.
From Coq Require Import PrimFloat.
Open Scope Z_scope.

(* json_extends ("extends" is key 0, not excluded): the result has no "extends" key, and for every other key k it holds
   value v iff the entry RESOLVES k to v: its own value if it defines k, else - unless k is excluded - what its parent
   resolves k to (nearest ancestor wins); for every inheritance graph *)
Theorem C18_extends_own_keys_then_nearest_ancestor : forall whole name target excl r, memz EXT excl = false ->
  json_extends whole name target excl = Ok r ->
  lookup EXT r = None /\ forall k v, k <> EXT -> (lookup k r = Some v <-> resolves whole excl target k v).
Proof. exact json_extends_spec. Qed.
Print Assumptions C18_extends_own_keys_then_nearest_ancestor.

(* it never loops: the fuel the model gives the loop (number of entries + 2) is never exhausted; cycles and missing parents
   come back as errors *)
Theorem C18_extends_terminates : forall whole name target excl, json_extends whole name target excl <> Err EOutOfFuel.
Proof. exact json_extends_terminates. Qed.
Print Assumptions C18_extends_terminates.

Theorem C18_missing_parent_is_an_error : forall whole name target excl p,
  lookup EXT target = Some p -> lookup_whole p whole = None -> json_extends whole name target excl = Err EConfig.
Proof. exact json_extends_missing_parent. Qed.
Print Assumptions C18_missing_parent_is_an_error.

Theorem C18_self_cycle_is_an_error : forall whole name target excl pd,
  lookup EXT target = Some name -> lookup_whole name whole = Some pd -> json_extends whole name target excl = Err EOther.
Proof. exact json_extends_self_loop. Qed.
Print Assumptions C18_self_cycle_is_an_error.

(* a group declared with a count n or an inclusive id range [a, b] creates exactly n resp. b - a + 1 entities ... *)
Theorem C18_group_size : forall g prefix next,
  let '(n, a, b) := gdims g in 0 <= n -> Z.of_nat (length (expand g prefix next)) = n.
Proof. exact expand_count. Qed.
Print Assumptions C18_group_size.

(* ... with consecutive global ids ... *)
Theorem C18_group_ids_consecutive : forall g prefix next,
  map fst (expand g prefix next) = map (fun k => next + Z.of_nat k) (seq 0 (length (expand g prefix next))).
Proof. exact expand_ids_consecutive. Qed.
Print Assumptions C18_group_ids_consecutive.

(* ... and pairwise different names (ranges of length 1 and 2 included) *)
Theorem C18_group_names_distinct : forall g prefix next, NoDup (map snd (expand g prefix next)).
Proof. exact expand_names_distinct. Qed.
Print Assumptions C18_group_names_distinct.

Theorem C18_accessible_markets_are_the_listed_groups : forall groups listed i,
  In i (accessible groups listed) <-> exists g ids, In g listed /\ group_ids g groups = Some ids /\ In i ids.
Proof. exact accessible_is_union. Qed.
Print Assumptions C18_accessible_markets_are_the_listed_groups.

(* randomised values fall in the documented support (exact arithmetic) *)
Theorem C18_uniform_support : forall a b u g l x, (0 <= u)%Q -> (u < 1)%Q -> (a < b)%Q ->
  jrandom (JUniform a b) u g l = Ok x -> (a <= x /\ x < b)%Q.
Proof. exact jrandom_uniform_support. Qed.
Print Assumptions C18_uniform_support.

Theorem C18_expon_support : forall lam u g l x, (0 < lam)%Q -> (0 < l)%Q -> jrandom (JExpon lam) u g l = Ok x -> (0 < x)%Q.
Proof. exact jrandom_expon_support. Qed.
Print Assumptions C18_expon_support.

(* ... but NOT in binary64: K1, known finding - the uniform support statement is refuted for floats by this witness *)
Theorem C18_uniform_support_refuted_in_binary64 :
  PrimFloat.ltb u_largest 1 = true /\ PrimFloat.eqb (u_largest * (200 - 100) + 100)%float 200%float = true.
Proof. exact (conj K1_draw_is_below_one K1_uniform_can_return_max). Qed.
Print Assumptions C18_uniform_support_refuted_in_binary64.

(* deprecated spellings set the same parameter as their replacement; both together are refused *)
Theorem C18_legacy_keys_equivalent : forall v r dm dr,
  session_hft (Some v) None (Some r) None dm dr = session_hft None (Some v) None (Some r) dm dr /\
  session_hft (Some v) None None (Some r) dm dr = session_hft (Some v) None (Some r) None dm dr /\
  session_hft None (Some v) (Some r) None dm dr = Ok (v, r).
Proof. exact legacy_keys_equivalent. Qed.
Print Assumptions C18_legacy_keys_equivalent.

(* a class name resolves iff exactly one class of that name is visible (namespaces + registered classes) *)
Theorem C18_class_name_resolves_iff_unique : forall spaces registered name,
  (exists c, find_class spaces registered name = Ok c) <->
  (length (filter (fun sp => memz name sp) spaces) + length (filter (Z.eqb name) registered) = 1)%nat.
Proof. exact find_class_unique. Qed.
Print Assumptions C18_class_name_resolves_iff_unique.

Example C18_nonvacuous :
  let whole := [(100, [(1, 10); (2, 20)]); (101, [(0, 100); (2, 21); (3, 30)]); (102, [(0, 101); (3, 31)])] in
  json_extends whole 102 [(0, 101); (3, 31)] [] = Ok [(1, 10); (2, 21); (3, 31)] /\
  expand (GRange 0 1) 7 4 = [(4, (7, Some 0)); (5, (7, Some 1))] /\ expand (GRange 5 5) 7 0 = [(0, (7, None))].
Proof. vm_compute. repeat split. Qed.
