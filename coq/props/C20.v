(* C20 — Built-in agents emit well-formed orders that follow their documented strategy (formulas proved; libm glue tested). *)
Require Import Pams.Prelude Pams.Agents Pams.AgentsR.
From Coq Require Import Reals.
Open Scope Z_scope.

(* FCN, fixed margin: buys exactly when the expected future price exceeds the market price, sells exactly when below,
   nothing at equality; one limit order of volume 1 with lifetime = time window, own id, that market; price = expected
   price shaded by the margin *)
Theorem C20_fcn_side_and_quote : forall P ag mk mp e,
  ((mp < mp * e)%Q -> exists p, fcn_orders P ag mk mp e = [AOrder ag mk true p 1 (fp_tw P)] /\ (p == (mp * e) * (1 - fp_margin P))%Q) /\
  ((mp * e < mp)%Q -> exists p, fcn_orders P ag mk mp e = [AOrder ag mk false p 1 (fp_tw P)] /\ (p == (mp * e) * (1 + fp_margin P))%Q) /\
  ((mp * e == mp)%Q -> fcn_orders P ag mk mp e = []).
Proof. exact fcn_side. Qed.
Print Assumptions C20_fcn_side_and_quote.

Theorem C20_fcn_quote_never_worse_than_expected_price : forall efp k, (0 <= efp)%Q -> (0 <= k)%Q -> (k <= 1)%Q ->
  (0 <= efp * (1 - k) /\ efp * (1 - k) <= efp /\ efp <= efp * (1 + k))%Q.
Proof. exact fcn_quote_shaded. Qed.
Print Assumptions C20_fcn_quote_never_worse_than_expected_price.

(* over the reals: expected price = market price x exp(expected log-return x window) is above / below / at the market price
   exactly when the expected log-return is positive / negative / zero ... *)
Theorem C20_fcn_side_is_sign_of_expected_return : forall mp elr tw, (0 < mp)%R -> (0 < tw)%R ->
  ((mp < mp * exp (elr * tw) <-> 0 < elr) /\ (mp * exp (elr * tw) < mp <-> elr < 0) /\ (mp * exp (elr * tw) = mp <-> elr = 0))%R.
Proof. exact fcn_side_is_sign_of_expected_return. Qed.
Print Assumptions C20_fcn_side_is_sign_of_expected_return.

(* ... and the expected log-return has the sign of the weighted combination of fundamental, chart and noise log-returns *)
Theorem C20_fcn_expected_return_sign : forall wf wc wn f c n,
  (0 <= wf -> 0 <= wc -> 0 <= wn -> 0 < wf + wc + wn ->
   let elr := (1 / (wf + wc + wn)) * (wf * f + wc * c + wn * n) in
   (0 < elr <-> 0 < wf * f + wc * c + wn * n) /\ (elr < 0 <-> wf * f + wc * c + wn * n < 0))%R.
Proof. exact fcn_expected_return_sign. Qed.
Print Assumptions C20_fcn_expected_return_sign.

(* market maker: exactly one buy and one sell on the target, symmetric around the base price, separated by fundamental x spread;
   base = mid of the best accessible limit quotes, else the target's market price *)
Theorem C20_market_maker_quotes : forall ag target quotes mp fund spread ttlv,
  exists pb ps, mm_orders ag target quotes mp fund spread ttlv = [AOrder ag target true pb 1 ttlv; AOrder ag target false ps 1 ttlv] /\
    (ps - pb == fund * spread)%Q /\ ((pb + ps) / 2 == mm_base quotes mp)%Q.
Proof. exact mm_quotes. Qed.
Print Assumptions C20_market_maker_quotes.

Theorem C20_market_maker_base_price : forall quotes mp,
  (forall b a, qmaxl (flat_map (fun q => match fst q with Some b => [b] | None => [] end) quotes) = Some b ->
               qminl (flat_map (fun q => match snd q with Some a => [a] | None => [] end) quotes) = Some a ->
               (mm_base quotes mp == (b + a) / 2)%Q) /\
  ((qmaxl (flat_map (fun q => match fst q with Some b => [b] | None => [] end) quotes) = None \/
    qminl (flat_map (fun q => match snd q with Some a => [a] | None => [] end) quotes) = None) -> mm_base quotes mp = mp).
Proof. intros. split; [intros; apply mm_base_is_mid_of_best_quotes; auto|apply mm_base_falls_back_to_market_price]. Qed.
Print Assumptions C20_market_maker_base_price.

(* arbitrage agent: nothing unless index and components all run and |index price - computed index| > threshold ... *)
Theorem C20_arbitrage_inactive_within_threshold : forall ag idx ir cr mp index thr comps v ttlv,
  (0 <= thr)%Q -> (ir && cr = false \/ (Qabs (mp - index) <= thr)%Q) -> arb_orders ag idx ir cr mp index thr comps v ttlv = [].
Proof. exact arb_no_orders_within_threshold. Qed.
Print Assumptions C20_arbitrage_inactive_within_threshold.

(* ... then one index order of n x v against n component orders of v on the opposite side; it buys the index iff the index
   price is below the computed index *)
Theorem C20_arbitrage_hedged_basket : forall ag idx mp index thr comps v ttlv,
  (0 <= thr)%Q -> (thr < Qabs (mp - index))%Q ->
  let os := arb_orders ag idx true true mp index thr comps v ttlv in
  let n := Z.of_nat (length comps) in
  exists side, os = AOrder ag idx side mp (n * v) ttlv :: map (fun c => AOrder ag (fst c) (negb side) (snd c) v ttlv) comps /\
    (side = true <-> (mp < index)%Q).
Proof. exact arb_hedged_basket. Qed.
Print Assumptions C20_arbitrage_hedged_basket.

Example C20_nonvacuous :
  arb_orders 7 2 true true (400#1) (410#1) (4#1) [(0, 400#1); (1, 420#1)] 3 2 =
    [AOrder 7 2 true (400#1) 6 2; AOrder 7 0 false (400#1) 3 2; AOrder 7 1 false (420#1) 3 2] /\
  mm_orders 1 0 [(Some (99#1), Some (103#1)); (Some (100#1), None)] (90#1) (100#1) (1#16) 2 =
    [AOrder 1 0 true (787#8) 1 2; AOrder 1 0 false (837#8) 1 2].
Proof. vm_compute. split; reflexivity. Qed.
