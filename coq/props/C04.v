(* C04 — Order accounting and lifetime: nothing lost, no fill after cancel or expiry (market level). *)
Require Import Pams.Prelude Pams.Match Pams.Market Pams.MatchQ Pams.MarketInv Pams.MarketExec Pams.MarketLife Pams.MarketAcct.
Open Scope Z_scope.

(* lifetime invariant of every reachable state, for ANY operation list whose submissions satisfy what
   the Order constructor enforces (positive volume, positive time-to-live): books sorted with unique
   ids and positive volumes; no id on both sides; every resting order within its lifetime
   (now <= accepted time + ttl); ids of departed orders below the id counter *)
Theorem C04_lifetime_invariant_reachable : forall id tk mp0 ops,
  Forall valid_op ops -> life_ok (final_state (init_market id tk mp0) ops).
Proof. intros. apply reachable_life_ok; auto. apply life_ok_init. Qed.
Print Assumptions C04_lifetime_invariant_reachable.

Theorem C04_resting_orders_have_positive_volume : forall m o,
  life_ok m -> In o (m_buys m) \/ In o (m_sells m) -> 0 < vol o.
Proof.
  intros m o [[[_ EB _] [_ ES _]] _] [H|H]; rewrite Forall_forall in EB, ES;
    [destruct (EB _ H) as [_ [_ [V _]]]|destruct (ES _ H) as [_ [_ [V _]]]]; exact V.
Qed.
Print Assumptions C04_resting_orders_have_positive_volume.

(* an order leaves the book exactly when the clock passes accepted time + ttl: the clock step to time t
   reports exactly the resting orders with accepted time + ttl + 1 = t, removes exactly those, and
   keeps every other resting order *)
Theorem C04_expiry_exactly_when_clock_passes : forall m f, life_ok m ->
  let t := m_time m + 1 in
  (forall o t', In (RExpire o t') (snd (tick m f)) <->
     t' = t /\ (In o (m_buys m) \/ In o (m_sells m)) /\ exists k, ttl o = Some k /\ placed o + k + 1 = t) /\
  (forall o, In o (m_buys (fst (tick m f))) <-> In o (m_buys m) /\ ~ (exists k, ttl o = Some k /\ placed o + k + 1 = t)) /\
  (forall o, In o (m_sells (fst (tick m f))) <-> In o (m_sells m) /\ ~ (exists k, ttl o = Some k /\ placed o + k + 1 = t)).
Proof. exact tick_expiry_exact. Qed.
Print Assumptions C04_expiry_exactly_when_clock_passes.

(* every fill names two orders resting at that moment, at a time within both lifetimes
   (time <= accepted time + ttl), with positive remaining volume *)
Theorem C04_fills_only_live_orders_within_lifetime : forall m o m' rs mk t ba sa bi si p v,
  life_ok m -> step_rec m o = Ok (m', rs) -> In (RExec mk t ba sa bi si p v) rs ->
  exists b s, In b (m_buys m) /\ In s (m_sells m) /\ oid b = bi /\ oid s = si /\ agent b = ba /\ agent s = sa /\
              t = m_time m /\ mk = m_id m /\ unexpired t b /\ unexpired t s /\ 0 < vol b /\ 0 < vol s.
Proof. exact fills_name_live_orders. Qed.
Print Assumptions C04_fills_only_live_orders_within_lifetime.

(* never filled after an accepted cancel, whatever operations follow *)
Theorem C04_no_fill_after_cancel : forall m i m1 r ops,
  life_ok m -> cancel_order m i = Ok (m1, r) -> Forall valid_op ops ->
  forall x, In x (trace m1 ops) -> ~ fill_names x i.
Proof. exact no_fill_after_cancel. Qed.
Print Assumptions C04_no_fill_after_cancel.

(* never filled after its expiry was reported, whatever operations follow *)
Theorem C04_no_fill_after_expiry : forall m f o t ops,
  life_ok m -> In (RExpire o t) (snd (tick m f)) -> Forall valid_op ops ->
  forall x, In x (trace (fst (tick m f)) ops) -> ~ fill_names x (oid o).
Proof. exact no_fill_after_expiry. Qed.
Print Assumptions C04_no_fill_after_expiry.

(* accepted at most once: the order ids accepted along any history are consecutive fresh integers;
   re-submission of an accepted object and submission to a foreign market are refused (state unchanged) *)
Theorem C04_accepted_ids_are_fresh_and_consecutive : forall ops m,
  exists n, accepted_ids (trace m ops) = map (fun k => m_next m + Z.of_nat k) (seq 0 n).
Proof. exact accepted_ids_increasing. Qed.
Print Assumptions C04_accepted_ids_are_fresh_and_consecutive.

Theorem C04_resubmission_and_foreign_market_refused : forall m i ag mk buy p v ttlv,
  step_rec m (OResubmit i) = Err EAlreadySubmitted /\
  (0 <= m_time m -> mk <> m_id m -> step_rec m (OAdd ag mk buy p v ttlv) = Err ENotThisMarket).
Proof.
  intros. split; [reflexivity|]. intros Ht Hm. cbn [step_rec]. unfold add_order.
  destruct (m_time m <? 0) eqn:E; [apply Z.ltb_lt in E; lia|].
  destruct (mk =? m_id m) eqn:E2; [apply Z.eqb_eq in E2; contradiction|]. reflexivity.
Qed.
Print Assumptions C04_resubmission_and_foreign_market_refused.

(* NOTHING IS LOST (the accounting identity of the property's first sentence, over whole lifetimes).  [accepted rs i] is the
   volume of the acceptance record of order i, [filled rs i] the sum of the fill records naming it, [term rs i] the volume
   reported by its FIRST cancellation / expiry record, [rest_vol m i] what rests under that id at the end.  From market
   setup, for every list of valid operations: accepted = fills + resting + first terminal volume; a resting order has had
   no terminal event; resting volume is never negative. *)
Theorem C04_nothing_lost : forall id tk mp0 ops, Forall valid_op ops ->
  let m := final_state (init_market id tk mp0) ops in
  let rs := trace (init_market id tk mp0) ops in
  forall i v0, accepted rs i = Some v0 ->
    v0 = filled rs i + rest_vol m i + tv rs i /\ (rest_vol m i <> 0 -> term rs i = None) /\ 0 <= rest_vol m i.
Proof. exact nothing_lost. Qed.
Print Assumptions C04_nothing_lost.

(* once an order has had its first terminal event reporting volume t, nothing rests and its fills sum to accepted - t,
   in every continuation (later cancels of the same order change nothing) *)
Theorem C04_terminal_volume_is_final : forall id tk mp0 ops, Forall valid_op ops ->
  let m := final_state (init_market id tk mp0) ops in
  let rs := trace (init_market id tk mp0) ops in
  forall i v0 t, accepted rs i = Some v0 -> term rs i = Some t -> rest_vol m i = 0 /\ filled rs i = v0 - t.
Proof. exact terminal_volume_is_final. Qed.
Print Assumptions C04_terminal_volume_is_final.

Example C04_accounting_nonvacuous :
  let ops := [OTick (100#1); ORun true; OTick (100#1);
              OAdd 1 0 false (Some (100#1)) 5 (Some 1); OAdd 2 0 true (Some (100#1)) 2 None;
              OExec; OCancel 1; OAdd 2 0 true (Some (99#1)) 7 None; OTick (100#1); OTick (100#1); OCancel 2; OCancel 0] in
  let m := final_state (init_market 0 (1#1) (100#1)) ops in
  let rs := trace (init_market 0 (1#1) (100#1)) ops in
  (accepted rs 0, filled rs 0, term rs 0, rest_vol m 0) = (Some 5, 2, Some 3, 0) /\
  (accepted rs 1, filled rs 1, term rs 1, rest_vol m 1) = (Some 2, 2, Some 0, 0) /\
  (accepted rs 2, filled rs 2, term rs 2, rest_vol m 2) = (Some 7, 0, Some 7, 0).
Proof. exact acct_example. Qed.

Example C04_nonvacuous :
  let ops := [OTick (100#1); ORun true; OAdd 1 0 false (Some (100#1)) 5 (Some 1); OAdd 2 0 true (Some (99#1)) 2 (Some 2);
              OTick (100#1)] in
  let m := final_state (init_market 0 (1#1) (100#1)) ops in
  Forall valid_op ops /\ m_time m = 1 /\
  snd (tick m (100#1)) = [RExpire (mkO 0 1 0 false (Some (100#1)) 5 0 (Some 1)) 2] /\
  map (@oid Q) (m_buys (fst (tick m (100#1)))) = [1] /\
  exists m1 r, cancel_order m 1 = Ok (m1, r) /\ m_buys m1 = [].
Proof.
  split; [repeat constructor; simpl; lia|]. split; [reflexivity|]. split; [vm_compute; reflexivity|].
  split; [vm_compute; reflexivity|]. eexists; eexists; split; vm_compute; reflexivity.
Qed.


Require Import Pams.Sim Pams.SimInv Pams.SimBooks Pams.SimMarketLift Pams.SimFillLimits.

(* NOTHING IS LOST IN ANY SIMULATION.  theories/SimMarketLift.v proves that a market of a run only ever changes through the Level-M
   operations (and a fundamental-price shock) and that the run's records naming it are its Level-M records, so EVERY invariant that
   the Level-M operations preserve holds for every market of every run (market_invariant_of_every_run).  With the accounting
   invariant: for every configuration with distinct market ids, every tape of runner decisions, every agent behaviour (normal and
   high-frequency), every set of events (halts, shocks, price limits) and every fundamental path, if the accepted orders have positive
   volume and time-to-live (Order.__init__ enforces it) then for every market of the final state and every order accepted on it:
   accepted volume = its fills + what still rests + the volume of its first cancellation / expiry record. *)
Theorem C04_nothing_lost_in_every_run : forall c tape batches funds,
  NoDup (map mc_id (c_markets c)) ->
  let s := run c tape batches funds in
  valid_tr s -> forall x, In x (s_markets s) ->
  let rs := of_mkt (m_id (mk_m x)) (truths (events_of s)) in
  forall i v0, accepted rs i = Some v0 ->
    v0 = filled rs i + rest_vol (mk_m x) i + tv rs i /\ (rest_vol (mk_m x) i <> 0 -> term rs i = None) /\ 0 <= rest_vol (mk_m x) i.
Proof. exact nothing_lost_in_every_run. Qed.
Print Assumptions C04_nothing_lost_in_every_run.

(* the general statement it is an instance of *)
Theorem C04_every_market_invariant_holds_in_every_run : forall (I : market -> list record -> Prop),
  (forall m rs o m' recs, life_ok m -> gone_mkt m -> I m rs -> valid_op o -> step_rec m o = Ok (m', recs) -> I m' (rs ++ recs)) ->
  (forall m rs v, I m rs -> I (RecordSet.set m_fund (fun _ => upd (m_fund m) (zi (m_time m)) (Some v)) m) rs) ->
  forall c tape batches funds,
  NoDup (map mc_id (c_markets c)) ->
  (forall mc, In mc (c_markets c) -> I (init_market (mc_id mc) (mc_tick mc) (mc_mp0 mc)) []) ->
  let s := run c tape batches funds in
  valid_tr s -> forall x, In x (s_markets s) -> I (mk_m x) (of_mkt (m_id (mk_m x)) (truths (events_of s))).
Proof. exact market_invariant_of_every_run. Qed.
Print Assumptions C04_every_market_invariant_holds_in_every_run.

(* accepted at most once, in every simulation: the ids of the acceptance records of a market, in the order of the run, are
   0, 1, 2, ... up to the market's id counter - so no order object is ever accepted twice and ids are handed out consecutively *)
Theorem C04_accepted_ids_consecutive_in_every_run : forall c tape batches funds,
  NoDup (map mc_id (c_markets c)) ->
  let s := run c tape batches funds in
  valid_tr s -> forall x, In x (s_markets s) ->
  accepted_ids (of_mkt (m_id (mk_m x)) (truths (events_of s))) = map Z.of_nat (seq 0 (Z.to_nat (m_next (mk_m x)))).
Proof. exact Pams.SimFillLimits.accepted_ids_consecutive_in_every_run. Qed.
Print Assumptions C04_accepted_ids_consecutive_in_every_run.

Example C04_run_nonvacuous :
  let c := mkCfg [mkMC 0 (1#1) (100#1) None 1] [mkAC 0 false (1000#1) [(0, 10)]; mkAC 1 false (1000#1) [(0, 10)]]
                 [mkSC 0 2 true true 2 1 (0#1)] [] in
  let tape := [TPerm [0; 1]; TPerm [0; 1]; TDraw (1#2); TDraw (1#2);
               TPerm [0; 1]; TPerm [0]; TDraw (1#2)]%nat in
  let batches := [(0, [RNew 1 0 0 false (Some (100#1)) 5 None]); (1, [RNew 2 1 0 true (Some (100#1)) 2 None]);
                  (0, [Sim.RCancel 1 0 0]); (1, [])] in
  let funds := [(0, 0, 100#1); (0, 1, 100#1); (0, 2, 100#1)] in
  let s := run c tape batches funds in
  valid_tr s /\ NoDup (map mc_id (c_markets c)) /\
  let rs := of_mkt 0 (truths (events_of s)) in
  (* order 0: 5 accepted, 2 filled, 3 reported by the cancel, nothing rests *)
  accepted rs 0 = Some 5 /\ filled rs 0 = 2 /\ tv rs 0 = 3 /\ accepted rs 1 = Some 2 /\ filled rs 1 = 2 /\ term rs 1 = None.
Proof.
  cbv zeta. split; [|split; [repeat constructor; simpl; tauto|vm_compute; repeat split]].
  unfold valid_tr. vm_compute truths. repeat constructor; simpl; try lia; intros k Hk; try discriminate; inversion Hk; lia.
Qed.
