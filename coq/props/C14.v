(* C14 — Shocks hit only their target market, in their window, with their magnitude. *)
Require Import Pams.Prelude Pams.Match Pams.Market Pams.Sim Pams.SimLift Pams.SimInv Pams.SimProps.
From RecordUpdate Require Import RecordSet.
Import RecordSetNotations.
Open Scope Z_scope.

(* order-mistake shock: an order for another market, or any order after the shock has been spent, passes unchanged *)
Theorem C14_mistake_leaves_other_orders_alone : forall s h e target off rate vol ttl' tag ag mk buy p v ttlv,
  find_event (h_ev h) (s_events s) = Some e -> es_kind e = KMistake target off rate vol ttl' ->
  (mk <> target \/ es_spent e = true) ->
  before_order_effect s h (RNew tag ag mk buy p v ttlv) = (s, RNew tag ag mk buy p v ttlv).
Proof. exact mistake_only_first_order_of_target. Qed.
Print Assumptions C14_mistake_leaves_other_orders_alone.

(* the first order for the target (shock not yet spent) becomes a limit order of the configured volume and lifetime at
   market price x (1 + rate), buying iff the rate is positive; and the shock is spent *)
Theorem C14_mistake_rewrites_first_target_order : forall s h e target off rate vol ttl' tag ag buy p v ttlv x base,
  find_event (h_ev h) (s_events s) = Some e -> es_kind e = KMistake target off rate vol ttl' -> es_spent e = false ->
  find_mkt target (s_markets s) = Some x -> mprice_at x (mtime x) = Some base ->
  snd (before_order_effect s h (RNew tag ag target buy p v ttlv)) =
    RNew tag ag target (qltb (0#1) rate) (Some (qmul base (one_plus rate))) vol (Some ttl') /\
  exists e', find_event (es_id e) (s_events (fst (before_order_effect s h (RNew tag ag target buy p v ttlv)))) = Some e' /\ es_spent e' = true.
Proof. exact mistake_rewrites_order. Qed.
Print Assumptions C14_mistake_rewrites_first_target_order.

(* the hook of an order-mistake shock is registered for exactly its trigger time; the hook of a fundamental shock for exactly
   the steps of its window, on its target market only; disabled shocks register nothing *)
Theorem C14_shock_hooks : forall e trigger,
  (ec_enabled e = false -> hooks_of_event e trigger = []) /\
  (forall target off rate vol ttl', ec_enabled e = true -> ec_kind e = KMistake target off rate vol ttl' ->
     hooks_of_event e trigger = [mkH (ec_id e) HOrder true (Some [trigger]) None false]) /\
  (forall target off len rate, ec_enabled e = true -> ec_kind e = KFundShock target off len rate ->
     hooks_of_event e trigger =
       [mkH (ec_id e) HMarket true (Some (map (fun i => trigger + Z.of_nat i) (seq 0 (Z.to_nat len)))) (Some target) false]).
Proof. exact shock_hooks. Qed.
Print Assumptions C14_shock_hooks.

(* trigger times count from the start of the event's own session, and session starts accumulate the previous sessions' steps *)
Theorem C14_trigger_counts_from_session_start : forall ss e x,
  find_sess (ec_session e) ss = Some x -> ev_trigger ss e = se_start x + ev_offset (ec_kind e).
Proof. exact trigger_counts_from_session_start. Qed.
Print Assumptions C14_trigger_counts_from_session_start.

Theorem C14_session_starts_accumulate : forall l start, map se_start (mk_sessions l start) = starts_from l start.
Proof. exact session_starts_accumulate. Qed.
Print Assumptions C14_session_starts_accumulate.

(* the fundamental shock multiplies the fundamental of its target at the current time by (1 + rate), touching nothing else *)
Theorem C14_fund_shock_effect : forall s e x target off len rate f,
  es_kind e = KFundShock target off len rate -> m_id (mk_m x) = target ->
  es_trigger e <= mtime x < es_trigger e + len -> geto (m_fund (mk_m x)) (mtime x) = Some f ->
  shock_before_step s e x =
  set_market s target ((mk_m x) <| m_fund := upd (m_fund (mk_m x)) (zi (mtime x)) (Some (qmul f (one_plus rate))) |>).
Proof. exact fund_shock_effect. Qed.
Print Assumptions C14_fund_shock_effect.

Example C14_nonvacuous :
  map se_start (mk_sessions [mkSC 0 4 true true 1 1 (1#1); mkSC 1 6 true true 1 1 (1#1); mkSC 2 5 true true 1 1 (1#1)] 0) = [0; 4; 10] /\
  hooks_of_event (mkEC 3 2 true (KFundShock 1 2 2 (1#4))) 12 = [mkH 3 HMarket true (Some [12; 13]) (Some 1) false].
Proof. vm_compute. split; reflexivity. Qed.
