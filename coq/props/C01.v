(* C01 — Trades honour both limits; one price per round, set by the resting side.
   Statements only; each closed by [exact]/[apply] of a lemma from theories/. *)
Require Import Pams.Prelude Pams.Match Pams.Market Pams.MatchQ Pams.MarketInv Pams.MarketExec.
Open Scope Z_scope.

(* Every state reachable from an empty market by ANY list of operations (submissions of positive
   volume, cancels, clock steps, matching rounds, running switches; rejected operations included)
   satisfies the book invariant: both sides priority-sorted, right side, unique ids, positive volumes. *)
Theorem C01_reachable_books_are_sorted : forall id tk mp0 ops,
  Forall valid_op ops -> book_ok (final_state (init_market id tk mp0) ops).
Proof. intros. apply reachable_ok; auto. apply book_ok_init. Qed.
Print Assumptions C01_reachable_books_are_sorted.

(* One matching round on any such state: one common price p; the emitted execution logs are
   exactly the walk's fills, each at p, each pairing an order resting on the buy side with one
   resting on the sell side; p <= every filled buy limit and >= every filled sell limit
   (market orders impose no bound: [withinq] only constrains sides whose limit is [Some]). *)
Theorem C01_round_one_price_within_both_limits : forall m m' logs,
  book_ok m -> execution m = Ok (m', logs) ->
  logs = [] \/
  exists p fs, run_walk m = (Some p, fs) /\ logs = map (log_of m p) fs /\
    Forall (withinq p) fs /\
    Forall (fun f => In (fbuy f) (m_buys m) /\ In (fsell f) (m_sells m)) fs.
Proof. exact execution_fills. Qed.
Print Assumptions C01_round_one_price_within_both_limits.

(* what [withinq] says, spelled out *)
Theorem C01_within_unfolded : forall p f, withinq p f <->
  (forall pb, price (fbuy f) = Some pb -> qltb pb p = false) /\
  (forall ps, price (fsell f) = Some ps -> qltb p ps = false).
Proof.
  intros p f. unfold withinq, within, ple. split; intros [H1 H2]; split; intros x Hx.
  - apply negb_true_iff. apply H1; auto.
  - apply negb_true_iff. apply H2; auto.
  - apply negb_true_iff. apply H1; auto.
  - apply negb_true_iff. apply H2; auto.
Qed.
Print Assumptions C01_within_unfolded.

(* the fills pair a buy order and a sell order of this market *)
Theorem C01_fill_pairs_buy_and_sell_of_this_market : forall m f,
  book_ok m -> In (fbuy f) (m_buys m) -> In (fsell f) (m_sells m) ->
  isbuy (fbuy f) = true /\ isbuy (fsell f) = false /\ mkt (fbuy f) = m_id m /\ mkt (fsell f) = m_id m.
Proof. exact fills_are_resting. Qed.
Print Assumptions C01_fill_pairs_buy_and_sell_of_this_market.

(* The price is the limit of the earlier-accepted (placed, then id) order of the LAST matched pair;
   the limit side's price when the counterpart is a market order; and the last pair always has a
   limit order. *)
Theorem C01_price_is_earlier_order_of_last_pair : forall m p fs f,
  book_ok m -> run_walk m = (Some p, fs ++ [f]) ->
  rule_price (fbuy f) (fsell f) = Some p /\ (price (fbuy f) <> None \/ price (fsell f) <> None).
Proof. exact execution_price_rule. Qed.
Print Assumptions C01_price_is_earlier_order_of_last_pair.

(* non-vacuity: a crossed book accumulated with matching off, cleared in one round with 3 fills at
   one price (the resting sell's limit 100, accepted earlier than the last buy) *)
Example C01_nonvacuous :
  let ops := [OTick (100#1); ORun false;
              OAdd 1 0 false (Some (100#1)) 5 None; OAdd 2 0 true (Some (102#1)) 2 None;
              OAdd 3 0 true None 1 None; OAdd 4 0 true (Some (101#1)) 4 None; ORun true] in
  let m := final_state (init_market 0 (1#1) (100#1)) ops in
  Forall valid_op ops /\
  exists m' p, execution m = Ok (m', map (log_of m p)
     [Fill 1 (mkO 2 3 0 true None 1 0 None) (mkO 0 1 0 false (Some (100#1)) 5 0 None);
      Fill 2 (mkO 1 2 0 true (Some (102#1)) 2 0 None) (mkO 0 1 0 false (Some (100#1)) 5 0 None);
      Fill 2 (mkO 3 4 0 true (Some (101#1)) 4 0 None) (mkO 0 1 0 false (Some (100#1)) 5 0 None)])
     /\ p == 100#1.
Proof.
  split; [repeat constructor|]. eexists. exists (100#1). split; [vm_compute; reflexivity|reflexivity].
Qed.


Require Import Pams.Sim Pams.SimInv Pams.SimBooks Pams.SimMarketLift Pams.SimFillLimits.

(* IN EVERY SIMULATION (theories/SimFillLimits.v, an instance of the generic lifting SimMarketLift.market_invariant_of_every_run):
   for every configuration with distinct market ids, every tape of runner decisions, every agent behaviour and every set of events, if
   the accepted orders have positive volume and time-to-live (Order.__init__ enforces it), then for every market of the run each fill
   among that market's records is preceded by the acceptance records of its buy order and of its sell order, names their agents, and
   its price is no higher than the limit the buy order was ACCEPTED with (after tick rounding) and no lower than the limit the sell order
   was accepted with; market orders impose no bound. *)
Theorem C01_fills_honour_accepted_limits_in_every_run : forall c tape batches funds,
  NoDup (map mc_id (c_markets c)) ->
  let s := run c tape batches funds in
  valid_tr s -> forall x, In x (s_markets s) ->
  forall before mk t ba sa bi si p v after,
    of_mkt (m_id (mk_m x)) (truths (events_of s)) = before ++ RExec mk t ba sa bi si p v :: after ->
    exists ob os, In (ROrder ob) before /\ In (ROrder os) before /\ oid ob = bi /\ oid os = si /\ isbuy ob = true /\ isbuy os = false /\
                  Match.agent ob = ba /\ Match.agent os = sa /\
                  (forall l, price ob = Some l -> (p <= l)%Q) /\ (forall l, price os = Some l -> (l <= p)%Q).
Proof. exact fills_honour_accepted_limits_in_every_run. Qed.
Print Assumptions C01_fills_honour_accepted_limits_in_every_run.

Example C01_run_nonvacuous :
  let c := mkCfg [mkMC 0 (1#1) (100#1) None 1] [mkAC 0 false (1000#1) [(0, 10)]; mkAC 1 false (1000#1) [(0, 10)]]
                 [mkSC 0 2 true true 2 1 (0#1)] [] in
  let tape := [TPerm [0; 1]; TPerm [0; 1]; TDraw (1#2); TDraw (1#2);
               TPerm [0; 1]; TPerm [0]; TDraw (1#2)]%nat in
  let batches := [(0, [RNew 1 0 0 false (Some (100#1)) 5 None]); (1, [RNew 2 1 0 true (Some (100#1)) 2 None]);
                  (0, [Sim.RCancel 1 0 0]); (1, [])] in
  let funds := [(0, 0, 100#1); (0, 1, 100#1); (0, 2, 100#1)] in
  let s := run c tape batches funds in
  exists o1 o2 t c1 tc, of_mkt 0 (truths (events_of s)) = [ROrder o1; ROrder o2; RExec 0 t 1 0 1 0 (100#1) 2; Market.RCancel c1 tc].
Proof. vm_compute. repeat eexists. Qed.
