(* C03 — A matching round clears every executable pair (and never fails: see the note at the end). *)
Require Import Pams.Prelude Pams.Match Pams.Market Pams.MatchQ Pams.MarketInv Pams.MarketExec Pams.MarketPost Pams.MarketRound Pams.MarketLife Pams.Sim Pams.SimBooks.
Open Scope Z_scope.

(* Immediately after a round that returned: if both sides are non-empty and at least one of the two
   best orders is a limit order, then both best orders are limit orders and best bid < best ask. *)
Theorem C03_after_round_best_quotes_uncrossed : forall m m' logs b bs s ss,
  execution m = Ok (m', logs) -> m_buys m' = b :: bs -> m_sells m' = s :: ss ->
  (price b <> None \/ price s <> None) ->
  exists pb ps, price b = Some pb /\ price s = Some ps /\ (pb < ps)%Q.
Proof. exact round_clears_book. Qed.
Print Assumptions C03_after_round_best_quotes_uncrossed.

(* the heads are the best orders: every reachable book is priority-sorted (C02) *)
Theorem C03_heads_are_best_in_reachable_books : forall id tk mp0 ops,
  Forall valid_op ops -> book_ok (final_state (init_market id tk mp0) ops).
Proof. intros. apply reachable_ok; auto. apply book_ok_init. Qed.
Print Assumptions C03_heads_are_best_in_reachable_books.

(* a round never produces a fill on a market that is not running *)
Theorem C03_no_fill_unless_running : forall m m' logs,
  execution m = Ok (m', logs) -> logs <> [] -> m_running m = true.
Proof. exact no_fill_when_not_running. Qed.
Print Assumptions C03_no_fill_unless_running.

(* THE ROUND NEVER FAILS: on every well-formed running market - books of any depth, market orders on one or both sides, crossed
   books accumulated while matching was off - the round returns; none of the assertions of Market._execution (walk
   assertions, `price is None`, the final "no executable orders remain"), Market._execute_orders or
   OrderBook.change_order_volume (negative volume) can fire *)
Theorem C03_round_never_fails : forall m, book_ok m -> m_running m = true -> exists m' logs, execution m = Ok (m', logs).
Proof. exact execution_never_errors. Qed.
Print Assumptions C03_round_never_fails.

(* ... for every state reachable by any operation list *)
Theorem C03_round_never_fails_on_reachable_books : forall id tk mp0 ops,
  Forall valid_op ops -> let m := final_state (init_market id tk mp0) ops in
  m_running m = true -> exists m' logs, execution m = Ok (m', logs).
Proof. intros. apply execution_never_errors; auto. apply reachable_ok; auto. apply book_ok_init. Qed.
Print Assumptions C03_round_never_fails_on_reachable_books.

(* on a market that is not running the only possible refusal is "market is not running" (no fill on a stopped market, C16) *)
Theorem C03_stopped_market_refuses_or_does_nothing : forall m, book_ok m -> m_running m = false ->
  execution m = Ok (m, []) \/ execution m = Err EAssertNotRunning.
Proof. exact execution_not_running. Qed.
Print Assumptions C03_stopped_market_refuses_or_does_nothing.

(* an executable book always yields a price (the `price is None` assertion): contrapositive *)
Theorem C03_walk_without_price_means_nothing_executable : forall m,
  book_ok m -> fst (run_walk m) = None -> executable m = false.
Proof. exact walk_without_price_means_not_executable. Qed.
Print Assumptions C03_walk_without_price_means_nothing_executable.

(* non-vacuity: a crossed book with a market order on top, accumulated with matching off, is cleared
   and leaves bid 99 < ask 101 *)
Example C03_nonvacuous :
  let ops := [OTick (100#1); ORun false;
              OAdd 1 0 false (Some (100#1)) 5 None; OAdd 1 0 false (Some (101#1)) 5 None;
              OAdd 2 0 true None 2 None; OAdd 2 0 true (Some (100#1)) 3 None; OAdd 2 0 true (Some (99#1)) 3 None;
              ORun true] in
  let m := final_state (init_market 0 (1#1) (100#1)) ops in
  exists m' logs, execution m = Ok (m', logs) /\ length logs = 2%nat /\
    map (@price Q) (m_buys m') = [Some (99#1)] /\ map (@price Q) (m_sells m') = [Some (101#1)].
Proof. eexists. eexists. split; [vm_compute; reflexivity|]. vm_compute. repeat split. Qed.

(* ---- whole simulations ---- *)
(* In EVERY run of the runner + simulator model - every configuration (markets, index markets, sessions, built-in and user events),
   every tape of runner decisions, every agent behaviour, every fundamental path - as long as the accepted orders have positive
   volume and time-to-live (Order.__init__ enforces it): the run never ends with an internal assertion of the matching engine
   (walk assertions, "price undefined", "executable orders remain", negative volume) ... *)
Theorem C03_no_round_of_any_simulation_fails : forall c tape batches funds,
  let s := run c tape batches funds in
  valid_tr s -> forall e, s_err s = Some e -> e <> EAssertWalk /\ e <> EAssertPrice /\ e <> EAssertPost /\ e <> EAssertNegVolume.
Proof. exact no_round_of_a_run_fails. Qed.
Print Assumptions C03_no_round_of_any_simulation_fails.

(* ... and every market of the run satisfies the lifetime invariant (sorted books, unique ids, positive volumes, every resting
   order within its lifetime), so the market-level theorems of C01, C02, C03, C04 and C08 apply to every market of every run *)
Theorem C03_markets_of_a_simulation_stay_well_formed : forall c tape batches funds,
  let s := run c tape batches funds in
  valid_tr s -> forall x, In x (s_markets s) -> life_ok (mk_m x).
Proof. exact markets_of_a_run_are_well_formed. Qed.
Print Assumptions C03_markets_of_a_simulation_stay_well_formed.

Example C03_run_nonvacuous :
  let c := mkCfg [mkMC 0 (1#1) (100#1) None 1] [mkAC 0 false (1000#1) [(0, 10)]; mkAC 1 false (1000#1) [(0, 10)]]
                 [mkSC 0 2 true true 2 1 (0#1)] [] in
  let tape := [TPerm [0; 1]; TPerm [0; 1]; TDraw (1#2); TDraw (1#2); TPerm [0; 1]; TPerm [0]; TDraw (1#2)]%nat in
  let batches := [(0, [RNew 1 0 0 false (Some (100#1)) 5 None]); (1, [RNew 2 1 0 true (Some (100#1)) 2 None]);
                  (0, [Sim.RCancel 1 0 0]); (1, [])] in
  let funds := [(0, 0, 100#1); (0, 1, 100#1); (0, 2, 100#1)] in
  let s := run c tape batches funds in
  valid_tr s /\ s_err s = None /\ length (SimInv.truths (s_trace s)) = 4%nat.
Proof. exact books_example. Qed.
