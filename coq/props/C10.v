(* C10 — Logger sees every order, cancel, fill and expiry exactly once, in order. *)
Require Import Pams.Prelude Pams.Match Pams.Market Pams.Sim Pams.SimLift Pams.SimInv Pams.SimProps.
Open Scope Z_scope.

(* For EVERY configuration, runner tape, agent behaviour and fundamental path: in a run that ends normally the sequence of
   records delivered to the logger (orders, cancels, fills, expiries) IS the sequence of records the markets produced -
   same records, same order, each exactly once. *)
Theorem C10_logger_sees_every_record_once_in_order : forall c tape batches funds,
  s_err (run c tape batches funds) = None ->
  delivered (events_of (run c tape batches funds)) = truths (events_of (run c tape batches funds)).
Proof. exact logger_sees_every_record_once_in_order. Qed.
Print Assumptions C10_logger_sees_every_record_once_in_order.

(* the invariant behind it, valid after every atomic update of every run (also runs that abort): what has been produced =
   what has been delivered ++ what is pending, and the pending list never holds anything but undelivered logs *)
Theorem C10_delivery_invariant : forall c tape batches funds, deliv_inv (run c tape batches funds).
Proof. exact deliv_inv_run. Qed.
Print Assumptions C10_delivery_invariant.

(* deadline: the pending list is emptied at every simulation / session boundary record (flush), so a record is delivered
   no later than the next session boundary *)
Theorem C10_flush_empties_pending : forall s e, s_pending (flush (write s e)) = [].
Proof. reflexivity. Qed.
Print Assumptions C10_flush_empties_pending.

Theorem C10_run_ends_flushed : forall c tape batches funds,
  s_err (run c tape batches funds) = None -> s_pending (run c tape batches funds) = [].
Proof. exact run_end_flushed. Qed.
Print Assumptions C10_run_ends_flushed.
