(* C10 — Logger sees every order, cancel, fill and expiry exactly once, in order. *)
Require Import Pams.Prelude Pams.Match Pams.Market Pams.Sim Pams.SimLift Pams.SimInv Pams.SimProps Pams.SimMarks.
Open Scope Z_scope.

(* For EVERY configuration, runner tape, agent behaviour and fundamental path: in a run that ends normally the sequence of
   records delivered to the logger (orders, cancels, fills, expiries) IS the sequence of records the markets produced -
   same records, same order, each exactly once. *)
Theorem C10_logger_sees_every_record_once_in_order : forall c tape batches funds,
  s_err (run c tape batches funds) = None ->
  delivered (events_of (run c tape batches funds)) = truths (events_of (run c tape batches funds)).
Proof. exact logger_sees_every_record_once_in_order. Qed.
Print Assumptions C10_logger_sees_every_record_once_in_order.

(* the invariant behind it, valid after every atomic update of every run (also runs that abort): what has been produced =
   what has been delivered ++ what is pending, and the pending list never holds anything but undelivered logs *)
Theorem C10_delivery_invariant : forall c tape batches funds, deliv_inv (run c tape batches funds).
Proof. exact deliv_inv_run. Qed.
Print Assumptions C10_delivery_invariant.

(* deadline: the pending list is emptied at every simulation / session boundary record (flush), so a record is delivered
   no later than the next session boundary *)
Theorem C10_flush_empties_pending : forall s e, s_pending (flush (write s e)) = [].
Proof. reflexivity. Qed.
Print Assumptions C10_flush_empties_pending.

Theorem C10_run_ends_flushed : forall c tape batches funds,
  s_err (run c tape batches funds) = None -> s_pending (run c tape batches funds) = [].
Proof. exact run_end_flushed. Qed.
Print Assumptions C10_run_ends_flushed.

(* ---- the begin / end records ---- *)
(* [marks] keeps the simulation / session / market-step begin and end records of the event stream.  For every configuration with
   distinct market ids, every tape of runner decisions, every agent behaviour and every fundamental path, a run that ends without
   exception wrote exactly: simulation begin; per session (configuration order) session begin, per step a step-begin record for
   every market then a step-end record for every market, session end; simulation end - and none of them is left in the queue. *)
Theorem C10_begin_end_records_of_a_run : forall c tape batches funds, NoDup (map mc_id (c_markets c)) ->
  let s := run c tape batches funds in
  let ids := map mc_id (c_markets c) in
  ok s = true ->
  marks (events_of s) = [MSimB] ++ flat_map (session_marks ids) (mk_sessions (c_sessions c) 0) ++ [MSimE] /\ marks (s_pending s) = [].
Proof. exact begin_end_records_of_a_run. Qed.
Print Assumptions C10_begin_end_records_of_a_run.

(* per step: one step-begin record per market, then - after the whole order phase, which writes none - one step-end record per
   market; the clock update writes none *)
Theorem C10_one_step_writes_begin_then_end_records : forall M s, wrote M s -> wrote (M ++ step_marks (mids s)) (one_step s).
Proof. exact one_step_wrote. Qed.
Print Assumptions C10_one_step_writes_begin_then_end_records.

Theorem C10_order_phase_writes_no_begin_end_record : forall M s, wrote M s -> wrote M (update_markets s).
Proof. exact wrote_update_markets. Qed.
Print Assumptions C10_order_phase_writes_no_begin_end_record.

Example C10_marks_nonvacuous :
  let c := mkCfg [mkMC 0 (1#1) (300#1) None 1; mkMC 1 (1#1) (300#1) None 1] []
                 [mkSC 7 1 false false 1 1 (0#1); mkSC 8 2 false false 1 1 (0#1)] [] in
  let funds := flat_map (fun t => [(0, t, 300#1); (1, t, 300#1)]) [0;1;2;3] in
  let s := run c [] [] funds in
  ok s = true /\ length (marks (events_of s)) = 18%nat /\
  firstn 7 (marks (events_of s)) = [MSimB; MSessB 7; MStep 9 0; MStep 9 1; MStep 10 0; MStep 10 1; MSessE 7].
Proof. exact marks_example. Qed.
