(* C15 — Price limit rule: accepted prices stay in the band; other markets untouched. *)
Require Import Pams.Prelude Pams.Tick Pams.Match Pams.Market Pams.Sim Pams.SimLift Pams.SimInv Pams.SimProps.
Open Scope Z_scope.

(* whatever the submitted price, the price after the rule lies in [p0 (1 - r), p0 (1 + r)] (p0 >= 0, r >= 0) *)
Theorem C15_clipped_price_in_band : forall ref rate p, (0 <= ref)%Q -> (0 <= rate)%Q ->
  (ref * (1 - rate) <= limited_price ref rate p /\ limited_price ref rate p <= ref * (1 + rate))%Q.
Proof. exact limited_price_in_band. Qed.
Print Assumptions C15_clipped_price_in_band.

(* prices strictly inside the band pass unchanged *)
Theorem C15_inside_band_unchanged : forall ref rate p, (0 <= ref)%Q -> (0 <= rate)%Q ->
  (ref * (1 - rate) < p)%Q -> (p < ref * (1 + rate))%Q -> limited_price ref rate p = p.
Proof. exact limited_price_inside_unchanged. Qed.
Print Assumptions C15_inside_band_unchanged.

(* on a target market: a market order passes unchanged, a limit order gets exactly the clipped price; volume, side, owner,
   lifetime and the rest of the simulation state are untouched *)
Theorem C15_rule_on_target_market : forall s h e targets rate tag ag mk buy p v ttlv x ref,
  find_event (h_ev h) (s_events s) = Some e -> es_kind e = KPriceLimit targets rate -> memz mk targets = true ->
  find_mkt mk (s_markets s) = Some x -> mprice_at x 0 = Some ref ->
  before_order_effect s h (RNew tag ag mk buy p v ttlv) =
  (s, RNew tag ag mk buy (match p with Some pr => Some (limited_price ref rate pr) | None => None end) v ttlv).
Proof. exact price_limit_on_target. Qed.
Print Assumptions C15_rule_on_target_market.

(* orders for markets that are not targets are accepted unchanged - and the rule does not fail on them *)
Theorem C15_non_target_markets_untouched : forall s h e targets rate tag ag mk buy p v ttlv,
  find_event (h_ev h) (s_events s) = Some e -> es_kind e = KPriceLimit targets rate -> memz mk targets = false ->
  before_order_effect s h (RNew tag ag mk buy p v ttlv) = (s, RNew tag ag mk buy p v ttlv).
Proof. exact price_limit_ignores_non_targets. Qed.
Print Assumptions C15_non_target_markets_untouched.

(* with tick rounding (C19) the accepted price stays within the band widened by one tick *)
Theorem C15_accepted_price_within_band_widened_by_one_tick : forall ref rate p tick buy,
  (0 <= ref)%Q -> (0 <= rate)%Q -> (0 < tick)%Q ->
  (ref * (1 - rate) - tick < round_price tick buy (limited_price ref rate p) /\
   round_price tick buy (limited_price ref rate p) < ref * (1 + rate) + tick)%Q.
Proof. exact band_after_rounding. Qed.
Print Assumptions C15_accepted_price_within_band_widened_by_one_tick.

Example C15_nonvacuous :
  limited_price (100#1) (1#8) (120#1) = 225#2 /\ limited_price (100#1) (1#8) (80#1) = 175#2 /\
  limited_price (100#1) (1#8) (110#1) = 110#1.
Proof. vm_compute. repeat split. Qed.
