(* C06 — one clock; no access to the future; recorded history never changes (market level). *)
Require Import Pams.Prelude Pams.Match Pams.Market Pams.MatchQ Pams.MarketInv Pams.MarketSeries Pams.Sim Pams.SimClock.
Open Scope Z_scope.

(* The eight recorded values (market, mid, last-trade, fundamental price, executed volume, turnover,
   buy and sell order counts) at any time strictly before the current time are never changed by ANY
   further list of operations (orders, cancels, rounds, clock steps, running switches, queries;
   rejected operations included), across the 100-step storage chunks. *)
Theorem C06_recorded_history_never_changes : forall ops m i,
  0 <= i < m_time m -> series_at (final_state m ops) i = series_at m i.
Proof. exact history_immutable. Qed.
Print Assumptions C06_recorded_history_never_changes.

(* the clock advances by exactly one at a clock step ... *)
Theorem C06_clock_step_advances_by_one : forall m f, m_time (fst (tick m f)) = m_time m + 1.
Proof. exact clock_step_by_one. Qed.
Print Assumptions C06_clock_step_advances_by_one.

(* ... and no operation ever moves it backwards *)
Theorem C06_clock_monotone : forall ops m, m_time m <= m_time (final_state m ops).
Proof. exact final_state_time_mono. Qed.
Print Assumptions C06_clock_monotone.

(* queries for a time later than the current time are refused; others are not *)
Theorem C06_future_refused : forall m t, t > m_time m -> q_at m t = verr EFuture.
Proof. exact future_refused. Qed.
Print Assumptions C06_future_refused.

Theorem C06_past_and_present_answered : forall m t, t <= m_time m -> q_at m t <> verr EFuture.
Proof. exact past_answered. Qed.
Print Assumptions C06_past_and_present_answered.

(* ---- run level (Level S model of runner + simulator + events) ---- *)

(* the whole step before the clock update (before/after-step hooks incl. trading-halt resume and fundamental shocks,
   consulting agents, every accepted order and cancel, every matching round with its hooks and callbacks) leaves
   every market's id and time alone ... *)
Theorem C06_order_phase_never_moves_a_clock : forall s, keeps s (update_markets s).
Proof. exact keeps_update_markets. Qed.
Print Assumptions C06_order_phase_never_moves_a_clock.

(* ... the clock update moves EVERY market (index markets included) by exactly one, none skipped, none twice ... *)
Theorem C06_clock_update_moves_all_markets_by_one : forall t s, clock_inv t s -> clock_inv (t + 1) (tick_all s).
Proof. exact tick_all_clock. Qed.
Print Assumptions C06_clock_update_moves_all_markets_by_one.

(* ... so one step is one tick of the single shared clock ... *)
Theorem C06_one_step_one_tick : forall t s, clock_inv t s -> clock_inv (t + 1) (one_step s).
Proof. exact one_step_clock. Qed.
Print Assumptions C06_one_step_one_tick.

(* ... a session spans exactly its configured number of steps ... *)
Theorem C06_session_spans_its_steps : forall t s se, 0 <= se_steps se -> clock_inv t s -> clock_inv (t + se_steps se) (run_session s se).
Proof. exact run_session_clock. Qed.
Print Assumptions C06_session_spans_its_steps.

(* ... every session is entered with all markets at its own start time = where the previous one ended ... *)
Theorem C06_sessions_follow_one_another : forall c tape batches funds,
  NoDup (map mc_id (c_markets c)) -> Forall (fun sc => 0 <= sc_steps sc) (c_sessions c) ->
  let s1 := tick_all (flush (write (init_sim c tape batches funds) EvSimBegin)) in
  sessions_from s1 (s_sessions s1) (fold_left run_session (s_sessions s1) s1).
Proof. exact run_sessions_chain. Qed.
Print Assumptions C06_sessions_follow_one_another.

(* ... and a run that does not fail ends with every market at the total number of configured steps: for every
   configuration, every tape of runner decisions, all agent behaviour, all fundamental paths *)
Theorem C06_run_ends_at_total_steps : forall c tape batches funds,
  NoDup (map mc_id (c_markets c)) -> Forall (fun sc => 0 <= sc_steps sc) (c_sessions c) ->
  clock_inv (total_steps (mk_sessions (c_sessions c) 0)) (run c tape batches funds).
Proof. exact run_clock. Qed.
Print Assumptions C06_run_ends_at_total_steps.

Example C06_run_nonvacuous :
  let c := mkCfg [mkMC 0 (1#1) (300#1) None 1; mkMC 1 (1#1) (300#1) (Some [0]) 1] []
                 [mkSC 0 2 false false 1 1 (0#1); mkSC 1 3 false false 1 1 (0#1)] [] in
  let funds := flat_map (fun t => [(0, t, 300#1)]) [0;1;2;3;4;5] in
  let s := run c [] [] funds in
  ok s = true /\ map snd (keys s) = [5; 5].
Proof. exact clock_example. Qed.

(* non-vacuity: crossing the storage chunk at t = 100 with a trade recorded at t = 1 *)
Example C06_nonvacuous :
  let pre := [OTick (100#1); ORun true; OTick (100#1);
              OAdd 1 0 false (Some (100#1)) 5 None; OAdd 2 0 true (Some (100#1)) 2 None; OExec; OTick (101#1)] in
  let m := final_state (init_market 0 (1#1) (100#1)) pre in
  let m2 := final_state m (repeat (OTick (7#1)) 120) in
  m_time m = 2 /\ m_time m2 = 122 /\ series_at m 1 = series_at m2 1 /\
  getz (m_vol m2) 1 = 2 /\ q_at m2 123 = verr EFuture.
Proof. vm_compute. repeat split. Qed.

Require Import Pams.SimLift Pams.SimInv Pams.SimBooks Pams.SimMarketLift Pams.SimPast.

(* RECORDED HISTORY NEVER CHANGES, IN ANY SIMULATION (theories/SimPast.v).  [wf] is the run invariant: the initial state satisfies it
   (wf_init) and the begin record, the clock update, any number of steps and whole sessions preserve it (wf_boundary, wf_tick_all,
   wf_iterate, wf_run_session) - for every configuration with distinct market ids, every tape, every agent behaviour, every event.
   From any such state, after ANY number of further steps (orders, cancels, matching rounds, halts, shocks, clock updates), given that
   accepted orders have positive volume and time-to-live: the markets are the same, no clock has moved backwards, and for every time
   strictly before a market's clock in the earlier state all eight recorded values are exactly what they were. *)
Theorem C06_recorded_history_never_changes_in_a_run : forall s0 n,
  wf s0 -> valid_tr s0 -> valid_tr (iterate n s0) ->
  mids (iterate n s0) = mids s0 /\
  forall x', In x' (s_markets (iterate n s0)) ->
    exists x, In x (s_markets s0) /\ m_id (mk_m x') = m_id (mk_m x) /\ m_time (mk_m x) <= m_time (mk_m x') /\
              forall i, 0 <= i < m_time (mk_m x) -> series_at (mk_m x') i = series_at (mk_m x) i.
Proof. exact past_is_fixed_over_steps. Qed.
Print Assumptions C06_recorded_history_never_changes_in_a_run.

Theorem C06_recorded_history_survives_a_session : forall s0 se,
  wf s0 -> valid_tr s0 -> valid_tr (run_session s0 se) ->
  mids (run_session s0 se) = mids s0 /\
  forall x', In x' (s_markets (run_session s0 se)) ->
    exists x, In x (s_markets s0) /\ m_id (mk_m x') = m_id (mk_m x) /\ m_time (mk_m x) <= m_time (mk_m x') /\
              forall i, 0 <= i < m_time (mk_m x) -> series_at (mk_m x') i = series_at (mk_m x) i.
Proof. exact past_is_fixed_over_a_session. Qed.
Print Assumptions C06_recorded_history_survives_a_session.

Theorem C06_every_state_of_a_run_is_well_formed : forall c tape batches funds,
  NoDup (map mc_id (c_markets c)) ->
  wf (init_sim c tape batches funds) /\
  (forall s e, boundary_event e -> wf s -> wf (flush (write s e))) /\ (forall s, wf s -> wf (tick_all s)) /\
  (forall n s, wf s -> wf (iterate n s)) /\ (forall s se, wf s -> wf (run_session s se)) /\ wf (run c tape batches funds).
Proof.
  intros c tape batches funds N. split; [apply wf_init; exact N|]. split; [exact wf_boundary|]. split; [exact wf_tick_all|].
  split; [exact wf_iterate|]. split; [exact wf_run_session|apply wf_run; exact N].
Qed.
Print Assumptions C06_every_state_of_a_run_is_well_formed.

(* premises met: after a first session of two steps with a trade at t = 1, a second session leaves times 0 and 1 as recorded *)
Example C06_past_nonvacuous :
  let c := mkCfg [mkMC 0 (1#1) (100#1) None 1] [mkAC 0 false (1000#1) [(0, 10)]; mkAC 1 false (1000#1) [(0, 10)]]
                 [mkSC 0 2 true true 2 1 (0#1); mkSC 1 2 true true 2 1 (0#1)] [] in
  let tape := [TPerm [0; 1]; TPerm [0; 1]; TDraw (1#2); TDraw (1#2); TPerm [0; 1]; TPerm [0]; TDraw (1#2);
               TPerm [0; 1]; TPerm [0; 1]; TDraw (1#2); TDraw (1#2); TPerm [0; 1]; TPerm []]%nat in
  let batches := [(0, [RNew 1 0 0 false (Some (100#1)) 5 None]); (1, [RNew 2 1 0 true (Some (100#1)) 2 None]);
                  (0, [Sim.RCancel 1 0 0]); (1, []);
                  (0, [RNew 3 0 0 false (Some (101#1)) 1 None]); (1, [RNew 4 1 0 true (Some (102#1)) 1 None]); (0, []); (1, [])] in
  let funds := [(0, 0, 100#1); (0, 1, 100#1); (0, 2, 100#1); (0, 3, 100#1); (0, 4, 100#1)] in
  let s1 := tick_all (flush (write (init_sim c tape batches funds) EvSimBegin)) in
  match s_sessions s1 with
  | se1 :: se2 :: _ =>
      let sa := run_session s1 se1 in let sb := run_session sa se2 in
      wf sa /\ valid_tr sa /\ valid_tr sb /\ ok sb = true /\
      map (fun x => m_time (mk_m x)) (s_markets sa) = [2] /\ map (fun x => m_time (mk_m x)) (s_markets sb) = [4] /\
      map (fun x => getz (m_vol (mk_m x)) 0) (s_markets sb) = [2]
  | _ => False
  end.
Proof.
  cbv zeta. match goal with |- match s_sessions ?s with _ => _ end => set (s1 := s) end.
  assert (W1 : wf s1).
  { apply wf_tick_all, wf_boundary; [exact Logic.I|]. apply wf_init. repeat constructor; simpl; tauto. }
  vm_compute (s_sessions s1). split; [apply wf_run_session; exact W1|].
  split; [unfold valid_tr; vm_compute truths; repeat constructor; simpl; try lia; intros k Hk; try discriminate; inversion Hk; lia|].
  split; [unfold valid_tr; vm_compute truths; repeat constructor; simpl; try lia; intros k Hk; try discriminate; inversion Hk; lia|].
  vm_compute. repeat split.
Qed.
