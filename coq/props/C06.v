(* C06 — one clock; no access to the future; recorded history never changes (market level). *)
Require Import Pams.Prelude Pams.Match Pams.Market Pams.MatchQ Pams.MarketInv Pams.MarketSeries.
Open Scope Z_scope.

(* The eight recorded values (market, mid, last-trade, fundamental price, executed volume, turnover,
   buy and sell order counts) at any time strictly before the current time are never changed by ANY
   further list of operations (orders, cancels, rounds, clock steps, running switches, queries;
   rejected operations included), across the 100-step storage chunks. *)
Theorem C06_recorded_history_never_changes : forall ops m i,
  0 <= i < m_time m -> series_at (final_state m ops) i = series_at m i.
Proof. exact history_immutable. Qed.
Print Assumptions C06_recorded_history_never_changes.

(* the clock advances by exactly one at a clock step ... *)
Theorem C06_clock_step_advances_by_one : forall m f, m_time (fst (tick m f)) = m_time m + 1.
Proof. exact clock_step_by_one. Qed.
Print Assumptions C06_clock_step_advances_by_one.

(* ... and no operation ever moves it backwards *)
Theorem C06_clock_monotone : forall ops m, m_time m <= m_time (final_state m ops).
Proof. exact final_state_time_mono. Qed.
Print Assumptions C06_clock_monotone.

(* queries for a time later than the current time are refused; others are not *)
Theorem C06_future_refused : forall m t, t > m_time m -> q_at m t = verr EFuture.
Proof. exact future_refused. Qed.
Print Assumptions C06_future_refused.

Theorem C06_past_and_present_answered : forall m t, t <= m_time m -> q_at m t <> verr EFuture.
Proof. exact past_answered. Qed.
Print Assumptions C06_past_and_present_answered.

(* non-vacuity: crossing the storage chunk at t = 100 with a trade recorded at t = 1 *)
Example C06_nonvacuous :
  let pre := [OTick (100#1); ORun true; OTick (100#1);
              OAdd 1 0 false (Some (100#1)) 5 None; OAdd 2 0 true (Some (100#1)) 2 None; OExec; OTick (101#1)] in
  let m := final_state (init_market 0 (1#1) (100#1)) pre in
  let m2 := final_state m (repeat (OTick (7#1)) 120) in
  m_time m = 2 /\ m_time m2 = 122 /\ series_at m 1 = series_at m2 1 /\
  getz (m_vol m2) 1 = 2 /\ q_at m2 123 = verr EFuture.
Proof. vm_compute. repeat split. Qed.
