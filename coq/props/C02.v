(* C02 — Fills follow price-time priority; order comparison is a strict total order. *)
Require Import Pams.Prelude Pams.Match Pams.Market Pams.MatchQ Pams.MarketInv Pams.MarketExec.
From Coq Require Import Sorted.
Open Scope Z_scope.

(* --- the comparison exposed on accepted orders of one side is a strict total order --- *)
Theorem C02_lt_irreflexive : forall a, oltq a a = false.
Proof. exact oltq_irrefl. Qed.
Print Assumptions C02_lt_irreflexive.

Theorem C02_lt_asymmetric : forall a b, isbuy a = isbuy b -> oltq a b = true -> oltq b a = false.
Proof. exact oltq_asym. Qed.
Print Assumptions C02_lt_asymmetric.

Theorem C02_lt_transitive : forall a b c, isbuy a = isbuy b -> isbuy b = isbuy c ->
  oltq a b = true -> oltq b c = true -> oltq a c = true.
Proof. exact oltq_trans. Qed.
Print Assumptions C02_lt_transitive.

Theorem C02_lt_total : forall a b, oid a <> oid b -> isbuy a = isbuy b ->
  oltq a b = true \/ oltq b a = true.
Proof. exact oltq_total. Qed.
Print Assumptions C02_lt_total.

(* --- and it is the ranking the property states: market orders first, then better price (higher
       bid / lower ask), then earlier acceptance time, then lower order id --- *)
Theorem C02_lt_is_the_ranking : forall a b,
  oltq a b = true <->
  match price a, price b with
  | None, Some _ => True
  | Some _, None => False
  | None, None => placed a < placed b \/ (placed a = placed b /\ oid a < oid b)
  | Some pa, Some pb =>
      (if isbuy a then qltb pb pa = true else qltb pa pb = true) \/
      (qeqb pa pb = true /\ (placed a < placed b \/ (placed a = placed b /\ oid a < oid b)))
  end.
Proof. exact oltq_ranking. Qed.
Print Assumptions C02_lt_is_the_ranking.

(* --- every reachable book is sorted by it (any op list), so the best order is the unique minimum --- *)
Theorem C02_reachable_books_sorted : forall id tk mp0 ops,
  Forall valid_op ops ->
  let m := final_state (init_market id tk mp0) ops in
  sortedq (m_buys m) /\ sortedq (m_sells m) /\
  NoDup (map (@oid Q) (m_buys m)) /\ NoDup (map (@oid Q) (m_sells m)).
Proof.
  intros id tk mp0 ops Hv m.
  assert (H : book_ok m) by (apply reachable_ok; auto; apply book_ok_init).
  destruct H as [[? ? ?] [? ? ?]]. auto.
Qed.
Print Assumptions C02_reachable_books_sorted.

Theorem C02_best_order_has_priority_over_all_others : forall x l y,
  sortedq (x :: l) -> In y l -> oltq x y = true.
Proof. exact sorted_head_min. Qed.
Print Assumptions C02_best_order_has_priority_over_all_others.

(* --- within a round each side of the (priority-sorted) book is consumed as a prefix: the book
       splits into done ++ cur ++ rest with every order of [done] filled completely, at most one
       order [cur] partially, and no order of [rest] (all of lower priority) filled at all.  Hence
       no order receives a fill while a higher-priority order keeps unfilled volume. --- *)
Theorem C02_fills_consume_each_side_as_a_prefix : forall fuel (B S : list O),
  NoDup (map (@oid Q) B) -> NoDup (map (@oid Q) S) ->
  let fs := snd (walk Q qltb fuel None None B S None []) in
  (exists done cur rest, B = done ++ cur ++ rest /\ (length cur <= 1)%nat /\
     Forall (fun x => filled_of fbuy fs (oid x) = vol x) done /\
     Forall (fun x => filled_of fbuy fs (oid x) = 0) rest) /\
  (exists done cur rest, S = done ++ cur ++ rest /\ (length cur <= 1)%nat /\
     Forall (fun x => filled_of fsell fs (oid x) = vol x) done /\
     Forall (fun x => filled_of fsell fs (oid x) = 0) rest).
Proof. intros. apply walk_respects_priority; auto. Qed.
Print Assumptions C02_fills_consume_each_side_as_a_prefix.

Example C02_nonvacuous :
  let b1 := mkO 1 0 0 true (Some (101#1)) 2 0 None in
  let b2 := mkO 2 0 0 true (Some (101#1)) 3 1 None in
  let b3 := mkO 3 0 0 true None 1 2 None in
  let b4 := mkO 4 0 0 true (Some (100#1)) 1 0 None in
  oltq b3 b1 = true /\ oltq b1 b2 = true /\ oltq b2 b4 = true /\ sortedq [b3; b1; b2; b4] /\
  map (fun f : fillq => (oid (fbuy f), fvol f))
      (snd (walk Q qltb 10 None None [b3; b1; b2; b4] [mkO 9 1 0 false (Some (100#1)) 4 3 None] None [])) =
  [(3, 1); (1, 2); (2, 1)].
Proof. vm_compute. repeat split; repeat constructor. Qed.


Require Import Pams.Sim Pams.SimInv Pams.SimBooks.

(* IN EVERY SIMULATION (theories/SimBooks.v): for every configuration, tape of runner decisions, agent behaviour and set of events whose
   accepted orders have positive volume and time-to-live, both books of every market are sorted by that ranking with distinct ids at the
   end of the run - and at every atomic update on the way (the invariant is lifted through the whole runner) - so the order the matching
   walk takes first is always the one with the highest priority, and the prefix theorem above applies to every round of every run. *)
Theorem C02_books_of_every_simulation_are_priority_sorted : forall c tape batches funds,
  let s := run c tape batches funds in
  valid_tr s -> forall x, In x (s_markets s) ->
  sortedq (m_buys (mk_m x)) /\ sortedq (m_sells (mk_m x)) /\
  NoDup (map (@oid Q) (m_buys (mk_m x))) /\ NoDup (map (@oid Q) (m_sells (mk_m x))).
Proof.
  intros c tape batches funds s V x Hx.
  destruct (markets_of_a_run_are_well_formed c tape batches funds V x Hx) as [[[? ? ?] [? ? ?]] _]. auto.
Qed.
Print Assumptions C02_books_of_every_simulation_are_priority_sorted.
