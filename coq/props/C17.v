(* C17 — Index market values are share-weighted averages of their components. *)
Require Import Pams.Prelude Pams.Match Pams.Market Pams.Sim Pams.SimLift Pams.SimInv Pams.SimProps.
Open Scope Z_scope.

(* whatever value is taken per component (market price at a time for the index value; fundamental value for the new time
   when the clock advances), the index market's value is (sum_i value_i * shares_i) / (sum_i shares_i) over its components,
   for any number of components and any (unequal) outstanding shares; it is undefined when a component is unknown,
   has no value, or the shares sum to zero *)
Theorem C17_index_is_share_weighted_average : forall s comps get x, wavg s comps get = Some x ->
  exists l : list (Q * Z),
    Forall2 (fun i pz => exists c, find_mkt i (s_markets s) = Some c /\ get c = Some (fst pz) /\ mk_shares c = snd pz) comps l /\
    sum_z (map snd l) <> 0 /\
    (x == sum_q (map (fun pz => fst pz * inject_Z (snd pz)) l) / inject_Z (sum_z (map snd l)))%Q.
Proof. exact index_is_share_weighted_average. Qed.
Print Assumptions C17_index_is_share_weighted_average.

(* the clock of an index market is stepped after all plain markets, with the weighted average of the components' fundamentals
   for the NEW time (which exist because the components were stepped first) *)
Theorem C17_index_markets_stepped_last : forall s,
  tick_all s = fold_left tick_market (filter is_index (s_markets (fold_left tick_market (filter (fun x => negb (is_index x)) (s_markets s)) s)))
                         (fold_left tick_market (filter (fun x => negb (is_index x)) (s_markets s)) s).
Proof. reflexivity. Qed.
Print Assumptions C17_index_markets_stepped_last.

Example C17_nonvacuous :
  let s := init_sim (mkCfg [mkMC 0 (1#1) (100#1) None 100; mkMC 1 (1#1) (200#1) None 300; mkMC 2 (1#1) (100#1) (Some [0; 1]) 100] [] [] []) [] [] [] in
  wavg s [0; 1] (fun c => mprice_at c 0) = Some (175#1).
Proof. vm_compute. reflexivity. Qed.
