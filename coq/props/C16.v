(* C16 — Trading halt rule: no fills on a stopped market; halt and resume on schedule. *)
Require Import Pams.Prelude Pams.Match Pams.Market Pams.MarketPost Pams.Sim Pams.SimLift Pams.SimInv Pams.SimProps Pams.SimHalt.
From RecordUpdate Require Import RecordSet.
Import RecordSetNotations.
Open Scope Z_scope.

(* no fill is ever recorded on a market that is not running: market level ... *)
Theorem C16_no_fill_when_market_not_running : forall m m' logs,
  execution m = Ok (m', logs) -> logs <> [] -> m_running m = true.
Proof. exact no_fill_when_not_running. Qed.
Print Assumptions C16_no_fill_when_market_not_running.

(* ... and run level: every fill of every run belongs to a round event whose market was running (flag = true) *)
Theorem C16_every_fill_in_a_round_on_a_running_market : forall c tape batches funds,
  NoDup (map sc_id (c_sessions c)) ->
  let s := run c tape batches funds in
  forall r x, In (EvTruth r x) (events_of s) -> is_fill r = true ->
  exists mk sid se, In (EvRound mk true sid) (events_of s) /\ fill_on mk r /\
                    In se (s_sessions s) /\ se_id se = sid /\ se_cfg_exec se = true.
Proof. exact every_fill_in_a_round_of_an_executing_session. Qed.
Print Assumptions C16_every_fill_in_a_round_on_a_running_market.

(* the halt decision after a fill *)
Theorem C16_halt_at_once_when_line_crossed : forall s e mkid targets rate len x ref now,
  es_kind e = KHalt targets rate len -> find_mkt mkid (s_markets s) = Some x ->
  mprice_at x 0 = Some ref -> mprice_at x (mtime x) = Some now -> m_running (mk_m x) = true -> memz mkid targets = true ->
  (Qabs (qmul (qmul ref rate) (qofz (es_count e + 1))) <= Qabs (qsub ref now))%Q ->
  halt_after_execution s e mkid =
    (let s1 := set_market s mkid ((mk_m x) <| m_running := false |>) in
     let s2 := s1 <| s_sessions := upd_sess (s_cur s1) (fun z => z <| se_exec := false |>) (s_sessions s1) |> in
     s2 <| s_events := upd_event (es_id e)
              (fun e => e <| es_started := mtime x |> <| es_count := es_count e + 1 |> <| es_halted := Some (mkid, s_cur s2) |>)
              (s_events s2) |>).
Proof. exact halt_trigger. Qed.
Print Assumptions C16_halt_at_once_when_line_crossed.

Theorem C16_no_halt_below_line_or_off_target : forall s e mkid targets rate len x ref now,
  es_kind e = KHalt targets rate len -> find_mkt mkid (s_markets s) = Some x ->
  mprice_at x 0 = Some ref -> mprice_at x (mtime x) = Some now ->
  (m_running (mk_m x) = false \/ memz mkid targets = false \/
   (Qabs (qsub ref now) < Qabs (qmul (qmul ref rate) (qofz (es_count e + 1))))%Q) ->
  halt_after_execution s e mkid = s.
Proof. exact halt_no_trigger. Qed.
Print Assumptions C16_no_halt_below_line_or_off_target.

(* stays stopped for the configured number of further steps ... *)
Theorem C16_halt_holds_until_length_passed : forall s e x targets rate len,
  es_kind e = KHalt targets rate len -> mtime x <= es_started e + len -> halt_before_step s e x = s.
Proof. exact halt_holds. Qed.
Print Assumptions C16_halt_holds_until_length_passed.

(* ... and resumes at the step after (or is forgotten if its session has ended) *)
Theorem C16_resume_at_step_after : forall s e x targets rate len hs,
  es_kind e = KHalt targets rate len -> memz (m_id (mk_m x)) targets = true ->
  mtime x > es_started e + len -> es_halted e = Some (m_id (mk_m x), hs) ->
  halt_before_step s e x =
    (let s1 := if hs =? s_cur s then
                 (set_market s (m_id (mk_m x)) ((mk_m x) <| m_running := true |>))
                   <| s_sessions := upd_sess (s_cur s) (fun z => z <| se_exec := true |>) (s_sessions s) |>
               else s in
     s1 <| s_events := upd_event (es_id e) (fun e => e <| es_halted := None |> <| es_started := 0 |>) (s_events s1) |>).
Proof. exact halt_resume. Qed.
Print Assumptions C16_resume_at_step_after.

(* orders can still be placed during the halt: acceptance does not depend on the running flag *)
Theorem C16_orders_accepted_while_stopped : forall m ag buy p v ttlv,
  0 <= m_time m -> exists m' r, add_order m ag (m_id m) buy p v ttlv = Ok (m', r).
Proof. exact orders_accepted_while_stopped. Qed.
Print Assumptions C16_orders_accepted_while_stopped.

(* ---- whole sessions and runs (configurations with one trading-halt rule) ---- *)
(* [halt_inv]: event ids are distinct, only the halt rule ever holds a record, and whenever it holds a record naming the current
   session, matching is switched off for the session and the recorded market is stopped.  It is preserved by every atomic update
   of a step - consulting agents, accepting orders and cancels, every round with its hooks and callbacks, the before-step hooks
   (the resume clears the record), the clock - hence by any number of steps of a session: the halted market stays stopped until
   the rule's own before-step hook lets go of the record (C16_resume_at_step_after says when) or the session ends. *)
Theorem C16_halt_invariant_preserved_by_a_step : forall s, halt_inv s -> halt_inv (one_step s).
Proof. exact halt_inv_one_step. Qed.
Print Assumptions C16_halt_invariant_preserved_by_a_step.

Theorem C16_halted_market_stays_stopped : forall n s, halt_inv s ->
  forall e mk x, In e (s_events (iterate n s)) -> es_halted e = Some (mk, s_cur (iterate n s)) ->
    cur_switch (iterate n s) = false /\
    (find_mkt mk (s_markets (iterate n s)) = Some x -> m_running (mk_m x) = false).
Proof. exact halted_market_stays_stopped. Qed.
Print Assumptions C16_halted_market_stays_stopped.

(* the invariant holds in every run: every configuration with distinct event and session ids and one halt rule, every tape, every
   agent behaviour, every fundamental path *)
Theorem C16_halt_invariant_in_every_run : forall c tape batches funds,
  NoDup (map ec_id (c_events c)) -> NoDup (map sc_id (c_sessions c)) -> ~ In (-1) (map sc_id (c_sessions c)) ->
  (forall e1 e2, In e1 (c_events c) -> In e2 (c_events c) -> is_halt (ec_kind e1) = true -> is_halt (ec_kind e2) = true -> ec_id e1 = ec_id e2) ->
  halt_inv (run c tape batches funds).
Proof. exact halt_inv_run. Qed.
Print Assumptions C16_halt_invariant_in_every_run.

Example C16_run_nonvacuous :
  let c := mkCfg [mkMC 0 (1#1) (100#1) None 1] [mkAC 0 false (1000#1) [(0, 10)]; mkAC 1 false (1000#1) [(0, 10)]]
                 [mkSC 0 2 true true 2 1 (0#1)] [mkEC 7 0 true (KHalt [0] (1#100) 5)] in
  let tape := [TPerm [0; 1]; TPerm [0; 1]; TDraw (1#2); TDraw (1#2); TPerm [0; 1]; TPerm [0; 1]; TDraw (1#2); TDraw (1#2)]%nat in
  let batches := [(0, [RNew 1 0 0 false (Some (103#1)) 5 None]); (1, [RNew 2 1 0 true (Some (103#1)) 2 None]);
                  (0, [RNew 3 0 0 false (Some (101#1)) 1 None]); (1, [RNew 4 1 0 true (Some (104#1)) 1 None])] in
  let funds := [(0, 0, 100#1); (0, 1, 100#1); (0, 2, 100#1)] in
  let s := run c tape batches funds in
  ok s = true /\ map es_halted (s_events s) = [Some (0, 0)] /\ s_cur s = 0 /\
  map (fun x => m_running (mk_m x)) (s_markets s) = [false] /\ cur_switch s = false.
Proof. exact halt_example. Qed.
