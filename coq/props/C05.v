(* C05 — Cash and shares are conserved; holdings equal endowment plus own fills. *)
Require Import Pams.Prelude Pams.Match Pams.Market Pams.Sim Pams.SimLift Pams.SimInv Pams.SimProps Pams.SimHoldCb Pams.SimConserve.
Open Scope Z_scope.

(* For EVERY configuration (markets, index markets, agents, sessions, any set of built-in and probe events), every tape of
   runner decisions (= every seed and activation order), every agent behaviour and every delivered fundamental path:
   at the end of the run the agents' holdings are the initial endowment folded, in order, with exactly the fills of the run.
   Nothing else (orders, cancels, expiries, hooks, halts, shocks, clock steps) ever changes holdings. *)
Theorem C05_holdings_are_endowment_folded_with_fills : forall c tape batches funds,
  s_agents (run c tape batches funds) =
  fold_left apply_fill_holdings (fills (events_of (run c tape batches funds))) (s_agents (init_sim c tape batches funds)).
Proof. exact holdings_are_endowment_plus_fills. Qed.
Print Assumptions C05_holdings_are_endowment_folded_with_fills.

(* the same identity is an invariant: it holds at every atomic update of the run (SimLift.run_pres), in particular at
   every notification: holdings are updated for the whole round before anybody is told *)
Theorem C05_round_updates_holdings_before_notifying : forall s mkid x m' logs,
  find_mkt mkid (s_markets s) = Some x -> cur_switch s = true -> execution (mk_m x) = Ok (m', logs) ->
  forall pre post, logs = pre ++ post ->
  s_agents (fold_left (fun s r => notify_fill s mkid r) pre (do_fills (emit s (EvRound mkid (m_running (mk_m x)) (s_cur s))) mkid m' logs))
  = fold_left apply_fill_holdings logs (s_agents s).
Proof. exact round_updates_holdings_before_notifying. Qed.
Print Assumptions C05_round_updates_holdings_before_notifying.

(* each fill moves price x volume of cash buyer -> seller and volume shares seller -> buyer: totals unchanged *)
Theorem C05_one_fill_conserves_cash_and_shares : forall ags mk t ba sa bi si p v b s,
  NoDup (map a_id ags) -> find_agent ba ags = Some b -> find_agent sa ags = Some s -> holds mk b -> holds mk s ->
  let ags' := apply_fill_holdings ags (RExec mk t ba sa bi si p v) in
  (total_cash ags' == total_cash ags)%Q /\ (forall m, total_asset m ags' = total_asset m ags) /\
  map a_id ags' = map a_id ags.
Proof. exact fill_conserves_cash_and_shares. Qed.
Print Assumptions C05_one_fill_conserves_cash_and_shares.


(* CONSERVATION OVER A WHOLE RUN.  For every configuration whose agent ids are distinct and whose agents all hold a (possibly zero)
   position in every market - outside this guard the real code raises KeyError in Simulator._update_agents_for_execution, which the
   model does not reproduce - every tape, every agent behaviour, every set of events and every fundamental path: a run that ends
   without exception leaves the total cash and, market by market, the total number of shares exactly as they were at the start, and
   the population of agents is the same.  Proof: every fill of such a run names a configured market and two existing agents
   (SimConserve.fills_known, from the callback theorem of C11 and a lifted invariant), so the pairwise transfer applies to each. *)
Theorem C05_a_run_conserves_cash_and_shares : forall c tape batches funds,
  let s0 := init_sim c tape batches funds in
  let s := run c tape batches funds in
  NoDup (map a_id (s_agents s0)) -> covers (mids s0) (s_agents s0) -> ok s = true ->
  (total_cash (s_agents s) == total_cash (s_agents s0))%Q /\
  (forall m, total_asset m (s_agents s) = total_asset m (s_agents s0)) /\
  map a_id (s_agents s) = map a_id (s_agents s0).
Proof. exact run_conserves_cash_and_shares. Qed.
Print Assumptions C05_a_run_conserves_cash_and_shares.

(* the premises are met by a run with a fill: 2 shares go from agent 0 to agent 1 at 100, cash 200 the other way *)
Example C05_run_nonvacuous :
  let c := mkCfg [mkMC 0 (1#1) (100#1) None 1] [mkAC 0 false (1000#1) [(0, 10)]; mkAC 1 false (1000#1) [(0, 10)]]
                 [mkSC 0 2 true true 2 1 (0#1)] [] in
  let tape := [TPerm [0; 1]; TPerm [0; 1]; TDraw (1#2); TDraw (1#2);
               TPerm [0; 1]; TPerm [0]; TDraw (1#2)]%nat in
  let batches := [(0, [RNew 1 0 0 false (Some (100#1)) 5 None]); (1, [RNew 2 1 0 true (Some (100#1)) 2 None]);
                  (0, [Sim.RCancel 1 0 0]); (1, [])] in
  let funds := [(0, 0, 100#1); (0, 1, 100#1); (0, 2, 100#1)] in
  let s0 := init_sim c tape batches funds in
  let s := run c tape batches funds in
  ok s = true /\ NoDup (map a_id (s_agents s0)) /\ covers (mids s0) (s_agents s0) /\
  map a_cash (s_agents s) = [1200#1; 800#1] /\ map a_assets (s_agents s) = [[(0, 8)]; [(0, 12)]].
Proof.
  cbv zeta. split; [vm_compute; reflexivity|]. split.
  - vm_compute. repeat constructor; simpl; intuition discriminate.
  - split; [|vm_compute; auto]. intros a mk Ha Hm. vm_compute in Ha, Hm.
    destruct Hm as [<-|[]]. destruct Ha as [<-|[<-|[]]]; vm_compute; discriminate.
Qed.


(* WHAT AN AGENT SEES WHEN CALLED BACK: in any run, for every callback, the holdings handed to the agent are its endowment
   folded, in order, with every fill born before that callback - hence with all fills of the round being notified *)
Theorem C05_callbacks_carry_holdings_updated_for_all_earlier_fills : forall c tape batches funds,
  let s := run c tape batches funds in
  let a0 := s_agents (init_sim c tape batches funds) in
  forall before a k r hold sw run after, events_of s = before ++ EvCallback a k r hold sw run :: after ->
    exists ag, find_agent a (fold_left apply_fill_holdings (fills before) a0) = Some ag /\ hold = holdings_ov ag.
Proof. exact callbacks_carry_updated_holdings. Qed.
Print Assumptions C05_callbacks_carry_holdings_updated_for_all_earlier_fills.

Example C05_nonvacuous :
  let ags := [mkA 0 false (1000#1) [(0, 50)]; mkA 1 false (1000#1) [(0, 50)]] in
  let ags' := apply_fill_holdings ags (RExec 0 3 0 1 7 8 (101#2) 4) in
  map a_cash ags' = [798#1; 1202#1] /\ map a_assets ags' = [[(0, 54)]; [(0, 46)]] /\
  (* self-trade: nothing moves *)
  apply_fill_holdings ags (RExec 0 3 1 1 7 8 (101#2) 4) = ags.
Proof. vm_compute. repeat split. Qed.
