(* C12 — Fundamentals: positive geometric walk; changes never alter history (structure + real-number laws; partial). *)
Require Import Pams.Prelude Pams.Fund Pams.FundAlgebra.
From Coq Require Import Reals.
Open Scope Z_scope.

(* --- structure (any price type; what a generation round produces is an oracle tape) --- *)
(* reading any price - which may extend the horizon by any number of generation chunks - never changes a value at or
   below the regeneration point *)
Theorem C12_reads_never_change_final_values : forall V vdef (s : fstate V) m t m' i, wf V s -> (i <= f_until V s)%nat ->
  nth i (price_list V m' (f_prices V (fst (get V vdef s m t)))) vdef = nth i (price_list V m' (f_prices V s)) vdef.
Proof. exact get_keeps_prefix. Qed.
Print Assumptions C12_reads_never_change_final_values.

(* changing a parameter (volatility, drift, correlation) at time t alters no value at any time <= t, whatever is read later *)
Theorem C12_parameter_change_keeps_history : forall V vdef (s : fstate V) t m t2 m' i,
  wf V s -> (t <= f_until V s)%nat -> (i <= t)%nat ->
  nth i (price_list V m' (f_prices V (fst (get V vdef (change V s t) m t2)))) vdef = nth i (price_list V m' (f_prices V s)) vdef.
Proof. exact change_keeps_history. Qed.
Print Assumptions C12_parameter_change_keeps_history.

(* a shock at time t multiplies the target's value at t by the scale and changes no other value at any time <= t of any
   market; later values are regenerated from the new level *)
Theorem C12_shock_scales_only_target_at_t : forall V vmul vdef (s : fstate V) m t scale m2 t2 m' i,
  wf V s -> (t <= f_until V s)%nat -> (i <= t)%nat -> In m (map fst (f_prices V s)) ->
  nth i (price_list V m' (f_prices V (fst (get V vdef (shock V vmul vdef s m t scale) m2 t2)))) vdef =
  if (m' =? m) && (i =? t)%nat then vmul (nth t (price_list V m (f_prices V s)) vdef) scale
  else nth i (price_list V m' (f_prices V s)) vdef.
Proof. exact shock_effect. Qed.
Print Assumptions C12_shock_scales_only_target_at_t.

(* reads terminate: t + 1 generation rounds always reach time t *)
Theorem C12_read_reaches_time : forall V fuel t (s : fstate V),
  (length (f_tape V s) >= fuel)%nat -> (t < f_until V s + fuel * chunk)%nat -> (t < f_until V (ensure V fuel t s))%nat.
Proof. exact get_reaches_time. Qed.
Print Assumptions C12_read_reaches_time.

(* --- real-number laws (standard library real axioms) --- *)
Theorem C12_prices_strictly_positive : forall p0 s, (0 < p0)%R -> (0 < p0 * exp s)%R.
Proof. exact price_positive. Qed.
Print Assumptions C12_prices_strictly_positive.

Theorem C12_zero_volatility_path : forall p0 d t, (p0 * exp (sumR (repeat d t)) = p0 * exp (d * INR t))%R.
Proof. exact zero_volatility_path. Qed.
Print Assumptions C12_zero_volatility_path.

Theorem C12_regeneration_continues_the_path : forall p0 l1 l2,
  ((p0 * exp (sumR l1)) * exp (sumR l2) = p0 * exp (sumR (l1 ++ l2)))%R.
Proof. exact regeneration_continues_the_path. Qed.
Print Assumptions C12_regeneration_continues_the_path.

Theorem C12_log_return_of_consecutive_prices : forall p0 s r, (0 < p0)%R -> ln ((p0 * exp (s + r)) / (p0 * exp s)) = r.
Proof. exact log_return_of_consecutive_prices. Qed.
Print Assumptions C12_log_return_of_consecutive_prices.

Theorem C12_cholesky_rows_give_vol_and_corr : forall (Li Lj : list R) vi vj cij,
  (dot Li Li = vi * 1 * vi -> dot Lj Lj = vj * 1 * vj -> dot Li Lj = vi * cij * vj -> 0 < vi -> 0 < vj ->
   sqrt (dot Li Li) = vi /\ sqrt (dot Lj Lj) = vj /\ dot Li Lj / (vi * vj) = cij)%R.
Proof. exact cholesky_rows_give_vol_and_corr. Qed.
Print Assumptions C12_cholesky_rows_give_vol_and_corr.
