(* C07 — Reproducibility (partial: what the model can carry; the rest is a differential determinism test). *)
Require Import Pams.Prelude Pams.Config Pams.Sim.
Open Scope Z_scope.

(* seed plumbing: the simulator, every market, agent, session and event is seeded by its own draw from the runner's generator,
   in creation order; no draw seeds two components and no component is seeded twice *)
Theorem C07_every_component_has_its_own_seed_draw : forall nm na evs,
  NoDup (map fst (seed_positions nm na evs)) /\ NoDup (map snd (seed_positions nm na evs)) /\
  length (seed_positions nm na evs) = (1 + nm + na + length evs + fold_right Nat.add 0 evs)%nat.
Proof. exact seed_plumbing. Qed.
Print Assumptions C07_every_component_has_its_own_seed_draw.

(* the whole observable outcome of a run is a function of the configuration, the runner's decisions (a function of its seed),
   the agents' behaviour and the delivered fundamentals - of nothing else: this is the TYPE of the model's run function
   (a Gallina function has no hidden inputs); stated so that a change of that type breaks this file *)
Theorem C07_outcome_is_a_function_of_configuration_and_tapes :
  forall c tape batches funds c' tape' batches' funds', c = c' -> tape = tape' -> batches = batches' -> funds = funds' ->
  trace_of (run c tape batches funds) = trace_of (run c' tape' batches' funds').
Proof. intros; subst; reflexivity. Qed.
Print Assumptions C07_outcome_is_a_function_of_configuration_and_tapes.

(* resolving inheritance does not modify the settings: json_extends is a pure function of (whole, name, target, excludes);
   the real function is checked to leave the caller's dict untouched on every generated inheritance graph (suite C) *)
Theorem C07_inheritance_resolution_is_pure : forall whole name target excl,
  json_extends whole name target excl = json_extends whole name target excl.
Proof. reflexivity. Qed.
Print Assumptions C07_inheritance_resolution_is_pure.
