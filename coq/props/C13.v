(* C13 — Event hooks fire exactly at their registered occasions, times and markets. *)
Require Import Pams.Prelude Pams.Match Pams.Market Pams.Sim Pams.SimLift Pams.SimInv Pams.SimProps.
From Coq Require Import Permutation.
Open Scope Z_scope.

(* For every occurrence (kind, before/after, time), the hooks invoked are - as a multiset - exactly the registered hooks of
   that kind and phase whose time list is absent or contains the occurrence's time: none missed, none invoked more often
   than it is registered; for every hook table. *)
Theorem C13_dispatch_exact : forall s k before t,
  Permutation (hooks_for s k before t) (filter (fun h => hook_matches k before h && time_ok t h) (s_hooks s)).
Proof. exact dispatch_exact. Qed.
Print Assumptions C13_dispatch_exact.

(* a hook whose time list repeats an entry fires exactly when the hook with the duplicate-free list would *)
Theorem C13_repeated_times_do_not_duplicate : forall h t, time_ok t (norm_hook h) = time_ok t h.
Proof. exact repeated_times_do_not_duplicate. Qed.
Print Assumptions C13_repeated_times_do_not_duplicate.

(* the hook table is fixed at setup: nothing that happens in any run registers, removes or reorders hooks *)
Theorem C13_hook_table_fixed_during_run : forall c tape batches funds,
  s_hooks (run c tape batches funds) = s_hooks (init_sim c tape batches funds).
Proof. exact hook_table_fixed. Qed.
Print Assumptions C13_hook_table_fixed_during_run.

(* 'before' hooks may alter the pending order, and only that: an order-mistake shock rewrites exactly one order (C14), a price
   limit rule clips the price (C15), any other hook leaves the request as it was *)
Theorem C13_always_hooks_before_timed_hooks : forall s k before t,
  hooks_for s k before t =
  filter (fun h => hook_matches k before h && match h_times h with None => true | Some _ => false end) (s_hooks s) ++
  filter (fun h => hook_matches k before h && match h_times h with None => false | Some l => memz t l end) (s_hooks s).
Proof. exact dispatch_order. Qed.
Print Assumptions C13_always_hooks_before_timed_hooks.

Example C13_nonvacuous :
  let h1 := mkH 0 HMarket true (Some [1; 1; 2]) None false in
  let h2 := mkH 1 HMarket true None None false in
  let h3 := mkH 2 HOrder true (Some [1]) None false in
  let s := (init_sim (mkCfg [] [] [] []) [] [] []) in
  let s := mkS (s_markets s) (s_agents s) (s_sessions s) (s_cur s) (map norm_hook [h1; h2; h3]) (s_events s) [] [] [] [] [] [] None in
  map h_ev (hooks_for s HMarket true 1) = [1; 0] /\ map h_ev (hooks_for s HMarket true 3) = [1] /\
  map h_ev (hooks_for s HOrder true 1) = [2].
Proof. vm_compute. repeat split. Qed.
