(* C13 — Event hooks fire exactly at their registered occasions, times and markets. *)
Require Import Pams.Prelude Pams.Match Pams.Market Pams.Sim Pams.SimLift Pams.SimInv Pams.SimProps Pams.SimHooks Pams.SimMarks Pams.SimStepHooks.
From Coq Require Import Permutation.
Open Scope Z_scope.

(* For every occurrence (kind, before/after, time), the hooks invoked are - as a multiset - exactly the registered hooks of
   that kind and phase whose time list is absent or contains the occurrence's time: none missed, none invoked more often
   than it is registered; for every hook table. *)
Theorem C13_dispatch_exact : forall s k before t,
  Permutation (hooks_for s k before t) (filter (fun h => hook_matches k before h && time_ok t h) (s_hooks s)).
Proof. exact dispatch_exact. Qed.
Print Assumptions C13_dispatch_exact.

(* a hook whose time list repeats an entry fires exactly when the hook with the duplicate-free list would *)
Theorem C13_repeated_times_do_not_duplicate : forall h t, time_ok t (norm_hook h) = time_ok t h.
Proof. exact repeated_times_do_not_duplicate. Qed.
Print Assumptions C13_repeated_times_do_not_duplicate.

(* the hook table is fixed at setup: nothing that happens in any run registers, removes or reorders hooks *)
Theorem C13_hook_table_fixed_during_run : forall c tape batches funds,
  s_hooks (run c tape batches funds) = s_hooks (init_sim c tape batches funds).
Proof. exact hook_table_fixed. Qed.
Print Assumptions C13_hook_table_fixed_during_run.

(* 'before' hooks may alter the pending order, and only that: an order-mistake shock rewrites exactly one order (C14), a price
   limit rule clips the price (C15), any other hook leaves the request as it was *)
Theorem C13_always_hooks_before_timed_hooks : forall s k before t,
  hooks_for s k before t =
  filter (fun h => hook_matches k before h && match h_times h with None => true | Some _ => false end) (s_hooks s) ++
  filter (fun h => hook_matches k before h && match h_times h with None => false | Some l => memz t l end) (s_hooks s).
Proof. exact dispatch_order. Qed.
Print Assumptions C13_always_hooks_before_timed_hooks.

(* ---- the whole run (order phase) ---- *)
(* [ustream] keeps, in order, the calls of user-written events' hooks around orders, cancels and fills (UProbe event kind phase),
   the acceptances (UAcc) and the agent callbacks (UCb); [expectedu H K] computes from the records born in the markets what they
   call for under the hook table H fixed at setup (K says which events are user-written): per accepted order its before-hooks,
   the acceptance, the owner's callback, its after-hooks; the same for an accepted cancel; per fill the two callbacks and the
   after-execution hooks - each hook list being the always-hooks then the hooks registered for that time, each once.
   EXACTLY ONCE PER MATCHING OCCURRENCE, in this order, nothing else: for every configuration with distinct market ids, every hook
   table, every tape of runner decisions, every agent behaviour, every fundamental path, whenever the run ends without exception. *)
Theorem C13_hooks_fire_exactly_at_their_occurrences : forall c tape batches funds, NoDup (map mc_id (c_markets c)) ->
  let s0 := init_sim c tape batches funds in
  let s := run c tape batches funds in
  ok s = true -> ustream (events_of s) = expectedu (s_hooks s0) (kinds s0) (truths (events_of s)).
Proof. exact hooks_fire_exactly_at_their_occurrences. Qed.
Print Assumptions C13_hooks_fire_exactly_at_their_occurrences.

(* one request: 'before' hooks run before the acceptance takes effect, the after-hooks after the owner was told *)
Theorem C13_one_request_calls_its_hooks_around_the_acceptance : forall s r,
  NoDup (map fst (SimClock.keys s)) -> good s (handle_request s r).
Proof. exact handle_request_good. Qed.
Print Assumptions C13_one_request_calls_its_hooks_around_the_acceptance.

Example C13_run_nonvacuous :
  let c := mkCfg [mkMC 0 (1#1) (100#1) None 1] [mkAC 0 false (1000#1) [(0, 10)]; mkAC 1 false (1000#1) [(0, 10)]]
                 [mkSC 0 2 true true 2 1 (0#1)]
                 [mkEC 5 0 true (KProbe [mkHS HOrder true None None false; mkHS HOrder false (Some [0]) None false;
                                         mkHS HCancel true (Some [1]) None false; mkHS HExec false None None false;
                                         mkHS HExec false (Some [7]) None false; mkHS HMarket true None None false])] in
  let tape := [TPerm [0; 1]; TPerm [0; 1]; TDraw (1#2); TDraw (1#2); TPerm [0; 1]; TPerm [0]; TDraw (1#2)]%nat in
  let batches := [(0, [RNew 1 0 0 false (Some (100#1)) 5 None]); (1, [RNew 2 1 0 true (Some (100#1)) 2 None]);
                  (0, [Sim.RCancel 1 0 0]); (1, [])] in
  let funds := [(0, 0, 100#1); (0, 1, 100#1); (0, 2, 100#1)] in
  let s := run c tape batches funds in
  ok s = true /\
  map (fun u => match u with UProbe ev k b => (ev, hkind_code k, b) | UAcc _ => (-1, 0, false) | UCb a k _ => (-2, a * 10 + k, false) end)
      (ustream (events_of s)) =
  [(5, 1, true); (-1, 0, false); (-2, 1, false); (5, 1, false);
   (5, 1, true); (-1, 0, false); (-2, 11, false); (5, 1, false);
   (-2, 13, false); (-2, 3, false); (5, 3, false);
   (5, 2, true); (-1, 0, false); (-2, 2, false)].
Proof. exact hooks_example. Qed.

(* ---- the whole run (session and market-step hooks) ---- *)
(* [toks] keeps, in order, the begin / end records of the simulation, its sessions and market steps and the calls of user-written
   events' session and market-step hooks; [sessions_toks H K Sk ids 0 sessions] computes them from the configuration alone: per
   session its before-hooks (time = session start), the begin record, per step t and market the before-step hooks accepted by the
   hook's class / instance filter (time t) and the step-begin record, then - after the order phase, which makes no such call - per
   market the step-end record and the after-step hooks, finally the after-session hooks (time = start + steps - 1) and the end
   record.  EXACTLY ONCE PER MATCHING OCCURRENCE: for every configuration with distinct market ids and non-negative session
   lengths, every hook table, tape, agent behaviour and fundamental path, whenever the run ends without exception. *)
Theorem C13_session_and_step_hooks_fire_exactly_at_their_occurrences : forall c tape batches funds,
  NoDup (map mc_id (c_markets c)) -> Forall (fun sc => 0 <= sc_steps sc) (c_sessions c) ->
  let s0 := init_sim c tape batches funds in
  let s := run c tape batches funds in
  ok s = true ->
  toks (events_of s) =
    [TMark MSimB] ++ sessions_toks (s_hooks s0) (kinds s0) (SimClock.skels s0) (map mc_id (c_markets c)) 0 (mk_sessions (c_sessions c) 0) ++ [TMark MSimE].
Proof. exact run_toks. Qed.
Print Assumptions C13_session_and_step_hooks_fire_exactly_at_their_occurrences.

Example C13_step_hooks_nonvacuous :
  let c := mkCfg [mkMC 0 (1#1) (100#1) None 1; mkMC 1 (1#1) (100#1) (Some [0]) 1] []
                 [mkSC 3 2 false false 1 1 (0#1)]
                 [mkEC 5 3 true (KProbe [mkHS HSession true None None false; mkHS HSession false (Some [0]) None false;
                                         mkHS HMarket true (Some [1]) None false; mkHS HMarket false None None true;
                                         mkHS HMarket true None (Some 1) false])] in
  let funds := [(0, 0, 100#1); (0, 1, 100#1); (0, 2, 100#1)] in
  let s := run c [] [] funds in
  ok s = true /\
  toks (events_of s) =
  [TMark MSimB; TProbe 5 HSession true (-1); TMark (MSessB 3);
   TMark (MStep 9 0); TProbe 5 HMarket true 1; TMark (MStep 9 1);
   TMark (MStep 10 0); TMark (MStep 10 1); TProbe 5 HMarket false 1;
   TProbe 5 HMarket true 0; TMark (MStep 9 0); TProbe 5 HMarket true 1; TProbe 5 HMarket true 1; TMark (MStep 9 1);
   TMark (MStep 10 0); TMark (MStep 10 1); TProbe 5 HMarket false 1;
   TMark (MSessE 3); TMark MSimE].
Proof. exact step_hooks_example. Qed.

Example C13_nonvacuous :
  let h1 := mkH 0 HMarket true (Some [1; 1; 2]) None false in
  let h2 := mkH 1 HMarket true None None false in
  let h3 := mkH 2 HOrder true (Some [1]) None false in
  let s := (init_sim (mkCfg [] [] [] []) [] [] []) in
  let s := mkS (s_markets s) (s_agents s) (s_sessions s) (s_cur s) (map norm_hook [h1; h2; h3]) (s_events s) [] [] [] [] [] [] None in
  map h_ev (hooks_for s HMarket true 1) = [1; 0] /\ map h_ev (hooks_for s HMarket true 3) = [1] /\
  map h_ev (hooks_for s HOrder true 1) = [2].
Proof. vm_compute. repeat split. Qed.
