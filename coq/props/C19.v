(* C19 — Off-grid limit prices round to the tick grid, never more aggressively.
   Only statements, each closed by [exact <lemma>], with Print Assumptions beneath. *)
Require Import Pams.Prelude Pams.Tick.
Open Scope Q_scope.

Theorem C19_on_grid_unchanged : forall tick is_buy p,
  on_grid tick p = true -> round_price tick is_buy p = p.
Proof. exact on_grid_unchanged. Qed.
Print Assumptions C19_on_grid_unchanged.

Theorem C19_on_grid_means_multiple : forall tick p, 0 < tick ->
  (on_grid tick p = true <-> exists k : Z, p == inject_Z k * tick).
Proof. exact on_grid_spec. Qed.
Print Assumptions C19_on_grid_means_multiple.

Theorem C19_result_on_grid : forall tick is_buy p, 0 < tick ->
  exists k : Z, round_price tick is_buy p == inject_Z k * tick.
Proof. exact round_on_grid. Qed.
Print Assumptions C19_result_on_grid.

Theorem C19_buy_rounds_down_by_less_than_a_tick : forall tick p, 0 < tick ->
  round_price tick true p <= p /\ p - tick < round_price tick true p.
Proof. exact buy_rounds_down. Qed.
Print Assumptions C19_buy_rounds_down_by_less_than_a_tick.

Theorem C19_sell_rounds_up_by_less_than_a_tick : forall tick p, 0 < tick ->
  p <= round_price tick false p /\ round_price tick false p < p + tick.
Proof. exact sell_rounds_up. Qed.
Print Assumptions C19_sell_rounds_up_by_less_than_a_tick.

Theorem C19_off_grid_is_moved : forall tick is_buy p, 0 < tick ->
  on_grid tick p = false -> ~ round_price tick is_buy p == p.
Proof. exact off_grid_moves. Qed.
Print Assumptions C19_off_grid_is_moved.

Theorem C19_idempotent : forall tick b b' p, 0 < tick ->
  round_price tick b' (round_price tick b p) = round_price tick b p.
Proof. exact round_idempotent. Qed.
Print Assumptions C19_idempotent.

(* non-vacuity: concrete instances with tick = 1/4 *)
Example C19_nonvacuous :
  0 < 1#4 /\ on_grid (1#4) (13#8) = false /\
  round_price (1#4) true (13#8) == 3#2 /\ round_price (1#4) false (13#8) == 7#4 /\
  on_grid (1#4) (7#4) = true.
Proof. vm_compute. repeat split; discriminate || reflexivity. Qed.
