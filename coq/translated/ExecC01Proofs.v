(* Theorems about the GENERATED text of the three decision kernels of Market._execution (ExecGen.v, regenerated from /repo every run):
   the test that stops the walk, the volume of a fill and the price decision are those of the model's matching walk (Match.walk at
   exact rationals), the function the C01 / C02 / C03 theorems are about. *)
Require Import Pams.Prelude Pams.Match Pams.Market Pams.MatchQ Pams.OrderPy Pams.CellsPy.
Require Import PamsGen.ExecGen.
From Coq Require Import QArith.
Open Scope Z_scope.

(* the walk stops at a pair exactly when both are limit orders and the bid is below the ask: the negation of the model's [crossing] *)
Theorem gen_stop_is_not_crossing : forall b s : O,
  stop_gen (price b) (price s) = POk (negb (crossing Q qltb b s)).
Proof.
  intros b s. unfold stop_gen, crossing. destruct (price b) as [pb|], (price s) as [ps|]; simpl; try reflexivity.
  rewrite negb_involutive. reflexivity.
Qed.
Print Assumptions gen_stop_is_not_crossing.

Theorem gen_volume_is_min : forall bt st, volume_gen bt st = Z.min bt st.
Proof. reflexivity. Qed.

(* the price decision of one matched pair: the model's choose_price - a market order leaves the price to the limit side, two market
   orders leave it unchanged, between two limit orders the earlier accepted (accept time, then id) decides - and the pair is appended
   exactly once; two orders with the same id at the same time, or an order without id, are refused (AssertionError) *)
Theorem gen_price_is_choose_price : forall (b s : O) old, oid b <> oid s ->
  price_gen old (price b) (price s) (placed b) (placed s) (Some (oid b)) (Some (oid s)) = POk (choose_price b s old, 1%nat).
Proof.
  intros b s old N. unfold price_gen, choose_price. destruct (price b) as [pb|], (price s) as [ps|]; simpl; try reflexivity.
  destruct (placed b =? placed s); simpl; [|destruct (placed b <? placed s); reflexivity].
  destruct (oid b <? oid s) eqn:L; simpl; [reflexivity|].
  assert (G : oid s <? oid b = true) by (apply Z.ltb_lt; apply Z.ltb_ge in L; lia). rewrite G. reflexivity.
Qed.
Print Assumptions gen_price_is_choose_price.

Theorem gen_price_refuses_equal_ids : forall pb ps t i old,
  price_gen old (Some pb) (Some ps) t t (Some i) (Some i) = PErr PyAssertionError /\
  price_gen old (Some pb) (Some ps) t t None (Some i) = PErr PyAssertionError.
Proof. intros. unfold price_gen. simpl. rewrite Z.eqb_refl, Z.ltb_irrefl. simpl. split; reflexivity. Qed.
Print Assumptions gen_price_refuses_equal_ids.

Example gen_exec_example :
  price_gen None (Some (100#1)) (Some (99#1)) 3 5 (Some 7) (Some 2) = POk (Some (100#1), 1%nat) /\   (* the buy was accepted earlier *)
  price_gen None (Some (100#1)) (Some (99#1)) 5 5 (Some 7) (Some 2) = POk (Some (99#1), 1%nat) /\    (* same step: the lower id *)
  price_gen (Some (98#1)) None None 5 5 (Some 7) (Some 2) = POk (Some (98#1), 1%nat) /\              (* two market orders *)
  price_gen None None (Some (99#1)) 1 5 (Some 7) (Some 2) = POk (Some (99#1), 1%nat) /\
  stop_gen (Some (99#1)) (Some (100#1)) = POk true /\ stop_gen (Some (100#1)) (Some (100#1)) = POk false /\ stop_gen None (Some (100#1)) = POk false.
Proof. vm_compute. repeat split. Qed.
