(* Theorems about the GENERATED text of OrderBook.add / _remove / cancel / change_order_volume and of the put-back in Market._execution
   (BookGen.v, regenerated from /repo every run): the queue discipline - whenever one of them returns, the queue is a heap again - and what
   they do to the elements. *)
Require Import Pams.Prelude Pams.Match Pams.Market Pams.MarketAcct Pams.OrderPy Pams.ExpirePy Pams.HeapPy.
Require Import PamsGen.BookGen.
From Coq Require Import Lia.
Open Scope Z_scope.

Ltac step_res :=
  match goal with
  | H : bind ?r _ = Ok _ |- _ => let E := fresh "E" in destruct r eqn:E; cbn [bind] in H; [|discriminate H]
  | H : (if ?c then Err _ else _) = Ok _ |- _ => let E := fresh "E" in destruct c eqn:E; [discriminate H|]
  | H : (if ?c then _ else _) = Ok _ |- _ => let E := fresh "E" in destruct c eqn:E
  | H : match ?x with Some _ => _ | None => _ end = Ok _ |- _ => let E := fresh "E" in destruct x eqn:E
  | H : Ok _ = Ok _ |- _ => inversion H; subst; clear H
  | H : Err _ = Ok _ |- _ => discriminate H
  | p : (_ * _)%type |- _ => destruct p
  end.

Lemma hpop_spec h x q : hpop h = Ok (x, q) -> is_heap h = true /\ is_heap q = true /\ items q = remove_id (oid x) (items h).
Proof.
  unfold hpop, htop. destruct (is_heap h); [|discriminate]. destruct (by_priority (items h)) as [|y r]; [discriminate|].
  cbn [bind]. intros H. inversion H; subst. auto.
Qed.

Lemma oeq_oid a b : oeq a b = true -> oid a = oid b.
Proof. unfold oeq. intros H. apply andb_prop in H. destruct H as [H _]. apply andb_prop in H. destruct H as [H _]. apply Z.eqb_eq. exact H. Qed.

(* OrderBook._remove: on a heap, whichever way it goes (the order is on top: heappop; it is not: list.remove then heapify) the queue is a
   heap afterwards and has lost exactly that order *)
Theorem gen_remove_keeps_the_heap : forall b o b' o', remove_gen b o = Ok (b', o') ->
  is_heap (b_q b') = true /\ items (b_q b') = remove_id (oid o) (items (b_q b)) /\ o' = o.
Proof.
  intros b o b' o' H. unfold remove_gen in H.
  repeat step_res; cbn in *.
  all: try (match goal with E : hpop _ = Ok _ |- _ => apply hpop_spec in E; destruct E as [_ [Hh Hi]] end).
  all: try (match goal with E : hremove _ _ = Ok _ |- _ => unfold hremove in E; destruct (hmem _ _); [inversion E; subst; cbn|discriminate E] end).
  all: repeat split; try assumption; try reflexivity.
  all: rewrite Hi; f_equal; apply oeq_oid; apply Bool.negb_false_iff; assumption.
Qed.
Print Assumptions gen_remove_keeps_the_heap.

(* ... and in the model's view (the elements by priority) that is the model's remove_id on its sorted list *)
Theorem gen_remove_is_the_models_remove_id : forall b o b' o',
  Forall (fun z : O => isbuy z = b_side b) (items (b_q b)) -> NoDup (map (@oid Q) (items (b_q b))) ->
  remove_gen b o = Ok (b', o') ->
  is_heap (b_q b') = true /\ by_priority (items (b_q b')) = remove_id (oid o) (by_priority (items (b_q b))).
Proof.
  intros b o b' o' Hs Hn H. destruct (gen_remove_keeps_the_heap _ _ _ _ H) as [Hh [Hi _]]. split; [exact Hh|].
  rewrite Hi. apply (by_priority_remove (b_side b)); assumption.
Qed.
Print Assumptions gen_remove_is_the_models_remove_id.

(* OrderBook.add: an order of the book's side is stamped with the book's time and pushed - the queue stays a heap, has exactly that
   order more, and the model's view (the elements by priority) is the model's `insert` *)
Theorem gen_add_pushes : forall b o b' o', add_gen b o = Ok (b', o') ->
  isbuy o = b_side b /\ o' = with_placed o (b_time b) /\ is_heap (b_q b') = is_heap (b_q b) /\
  items (b_q b') = o' :: items (b_q b) /\ by_priority (items (b_q b')) = insert o' (by_priority (items (b_q b))).
Proof.
  intros b o b' o' H. unfold add_gen in H. repeat step_res; cbn in *.
  all: split; [apply Bool.eqb_prop; apply Bool.negb_false_iff; assumption|]; repeat split; reflexivity.
Qed.
Print Assumptions gen_add_pushes.

(* ... and it FILES the order under accept time + time to live: the index keeps "every order is filed under its accept time plus its
   time to live" (what the expiry theorems of the seventeenth translator assume), keeps distinct keys, an order with a time to live is
   filed, one without is not *)
Theorem gen_add_files_under_accept_time_plus_ttl : forall b o b' o', filed_ok (b_tbl b) -> NoDup (map fst (b_tbl b)) ->
  add_gen b o = Ok (b', o') ->
  filed_ok (b_tbl b') /\ NoDup (map fst (b_tbl b')) /\
  match ttl o' with
  | Some d => exists l, In (placed o' + d, l) (b_tbl b') /\ In o' l
  | None => b_tbl b' = b_tbl b
  end.
Proof.
  intros b o b' o' F ND H. unfold add_gen in H.
  destruct (negb (Bool.eqb (isbuy o) (b_side b))); [discriminate|].
  set (o1 := with_placed o (b_time b)) in *. cbn [bq_set b_tbl b_q] in H.
  destruct (ttl o1) as [d|] eqn:Et; cbn [bind] in H.
  - set (k := placed o1 + d) in *.
    set (t1 := if negb (xhas k (b_tbl b)) then xset k [] (b_tbl b) else b_tbl b).
    assert (H1 : forall kk l, In (kk, l) t1 -> (kk = k /\ l = []) \/ In (kk, l) (b_tbl b)).
    { unfold t1. intros kk l Hi. destruct (negb (xhas k (b_tbl b))); [|right; exact Hi].
      destruct (xset_entries _ _ _ _ _ Hi) as [[-> ->]|[Hi' _]]; auto. }
    assert (ND1 : NoDup (map fst t1)) by (unfold t1; destruct (negb (xhas k (b_tbl b))); [apply xset_keys|]; exact ND).
    assert (Hh : xhas k t1 = true).
    { unfold t1. destruct (xhas k (b_tbl b)) eqn:E; cbn [negb]; [exact E|]. apply xhas_in. exists []. apply xset_has. }
    destruct (negb (xhas k (b_tbl b))) eqn:En; cbn [bind btbl_set bq_set b_tbl b_side b_time b_q] in H.
    all: change (placed o1 + d) with k in H; unfold xappend in H; unfold t1 in Hh, H1, ND1; rewrite Hh in H;
         cbn [bind btbl_set bq_set b_tbl] in H; inversion H; subst b' o'; clear H; cbn [b_tbl].
    all: rewrite Et; split; [|split; [apply xset_keys; assumption|eexists; split; [apply xset_has|apply in_app_iff; right; left; reflexivity]]].
    all: intros kk l x Hi Hx; destruct (xset_entries _ _ _ _ _ Hi) as [[-> ->]|[Hi' _]];
         [apply in_app_iff in Hx; destruct Hx as [Hx|[<-|[]]];
          [destruct (xget_entry _ _ _ Hx) as [l0 [Hl0 Hx0]]; destruct (H1 _ _ Hl0) as [[_ ->]|Hl1]; [destruct Hx0|exact (F _ _ _ Hl1 Hx0)]
          |exists d; split; [exact Et|reflexivity]]
         |destruct (H1 _ _ Hi') as [[_ ->]|Hl1]; [destruct Hx|exact (F _ _ _ Hl1 Hx)]].
  - inversion H; subst b' o'; clear H. cbn [b_tbl]. rewrite Et. auto.
Qed.
Print Assumptions gen_add_files_under_accept_time_plus_ttl.

(* OrderBook._remove takes the order out of its bucket and of no other: the index stays filed and its keys distinct *)
Theorem gen_remove_keeps_the_index_filed : forall b o b' o', filed_ok (b_tbl b) -> NoDup (map fst (b_tbl b)) ->
  remove_gen b o = Ok (b', o') -> filed_ok (b_tbl b') /\ NoDup (map fst (b_tbl b')).
Proof.
  intros b o b' o' F ND H. unfold remove_gen in H.
  repeat step_res; cbn [bq_set btbl_set b_tbl] in *.
  all: try (split; assumption).
  all: match goal with E : xunfile ?k ?x ?t = Ok ?t' |- _ =>
         unfold xunfile in E; destruct (xhas k t); [|discriminate E]; destruct (existsb _ _); [|discriminate E]; inversion E; subst; clear E end.
  all: split; [|apply xset_keys; exact ND].
  all: intros kk l x Hi Hx; destruct (xset_entries _ _ _ _ _ Hi) as [[-> ->]|[Hi' _]];
       [apply MarketInv.In_remove_id in Hx; destruct (xget_entry _ _ _ Hx) as [l0 [Hl0 Hx0]]; exact (F _ _ _ Hl0 Hx0)|exact (F _ _ _ Hi' Hx)].
Qed.
Print Assumptions gen_remove_keeps_the_index_filed.

(* OrderBook.cancel and OrderBook.change_order_volume: whenever they return, the queue is a heap again *)
Theorem gen_cancel_keeps_the_heap : forall b o b' o', is_heap (b_q b) = true -> cancel_gen b o = Ok (b', o') ->
  is_heap (b_q b') = true /\ items (b_q b') = (if hmem o (b_q b) then remove_id (oid o) (items (b_q b)) else items (b_q b)).
Proof.
  intros b o b' o' Hh H. unfold cancel_gen in H. destruct (hmem o (b_q b)) eqn:Em.
  - change (bind (remove_gen b o) (fun p => Ok p) = Ok (b', o')) in H || idtac.
    repeat step_res; cbn in *.
    all: try (match goal with E : hpop _ = Ok _ |- _ => apply hpop_spec in E; destruct E as [_ [Hq Hi]] end).
    all: try (match goal with E : hremove _ _ = Ok _ |- _ => unfold hremove in E; destruct (hmem _ _); [inversion E; subst; cbn|discriminate E] end).
    all: repeat split; try assumption; try reflexivity.
    all: rewrite Hi; f_equal; apply oeq_oid; apply Bool.negb_false_iff; assumption.
  - cbn [bind] in H. inversion H; subst. split; [exact Hh|reflexivity].
Qed.
Print Assumptions gen_cancel_keeps_the_heap.

Theorem gen_change_volume_keeps_the_heap : forall b o d b' o', is_heap (b_q b) = true -> change_order_volume_gen b o d = Ok (b', o') ->
  is_heap (b_q b') = true /\ vol o' = vol o + d /\ 0 <= vol o'.
Proof.
  intros b o d b' o' Hh H. unfold change_order_volume_gen in H.
  repeat step_res; cbn in *.
  all: try (match goal with E : hpop _ = Ok _ |- _ => apply hpop_spec in E; destruct E as [_ [Hq Hi]] end).
  all: try (match goal with E : hremove _ _ = Ok _ |- _ => unfold hremove in E; destruct (hmem _ _); [inversion E; subst; cbn|discriminate E] end).
  all: repeat split; try assumption; try reflexivity; try lia.
Qed.
Print Assumptions gen_change_volume_keeps_the_heap.

(* the end of a matching round: the popped orders are put back in front of what is left - a list display, which is not a heap - and BOTH
   queues are made heaps again before anything reads them *)
Theorem gen_putback_restores_both_heaps : forall pb ps qb qs,
  let '(qb', qs') := putback_gen pb ps qb qs in
  is_heap qb' = true /\ is_heap qs' = true /\ items qb' = pb ++ items qb /\ items qs' = ps ++ items qs.
Proof. intros. cbv. repeat split. Qed.
Print Assumptions gen_putback_restores_both_heaps.

(* non-vacuity: three buy orders pushed; the middle one (not on top) is cancelled: still a heap, the two others left, best first in the
   model's view; a queue after list.remove WITHOUT heapify is not known to be a heap, and its [0] is refused *)
Example gen_book_example :
  let b0 := mkBook true 0 (mkHq [] true) [] in
  let o (p : positive) (i : Z) := mkO i 7 0 true (Some (Z.pos p # 1)) 1 0 None in
  match add_gen b0 (o 100%positive 0) with
  | Ok (b1, _) => match add_gen b1 (o 102%positive 1) with
    | Ok (b2, _) => match add_gen b2 (o 101%positive 2) with
      | Ok (b3, o3) => match cancel_gen b3 o3 with
        | Ok (b4, _) => is_heap (b_q b4) = true /\ map (@oid Q) (by_priority (items (b_q b4))) = [1; 0] /\
                        (exists q, hremove o3 (b_q b3) = Ok q /\ htop q = Err EAssertWalk)
        | _ => False end
      | _ => False end
    | _ => False end
  | _ => False end.
Proof. vm_compute. repeat split. eexists. split; reflexivity. Qed.
