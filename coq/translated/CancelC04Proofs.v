(* Theorems about the GENERATED text of Market._cancel_order (CancelGen.v, regenerated from /repo every run). *)
Require Import Pams.Prelude Pams.Match Pams.Market Pams.MarketInv Pams.OrderPy Pams.CancelPy.
Require Import PamsGen.CancelGen.
From Coq Require Import Lia.
From RecordUpdate Require Import RecordSet.
Import RecordSetNotations.
Open Scope Z_scope.

Ltac red_cancel := cbv -[Z.add Z.sub Z.opp Z.leb Z.ltb Z.eqb upd getz getq geto zi update_market_price
                         find_id remove_id app].

(* the order object named by a cancel is the order as the market holds it: resting on its own side, or remembered among the orders
   that left the book *)
Definition names (m : market) (o : O) : Prop :=
  (isbuy o = true /\ find_id (oid o) (m_buys m) = Some o) \/
  (isbuy o = false /\ find_id (oid o) (m_buys m) = None /\ find_id (oid o) (m_sells m) = Some o) \/
  (find_id (oid o) (m_buys m) = None /\ find_id (oid o) (m_sells m) = None /\ find_id (oid o) (m_gone m) = Some o).

(* the acceptance of a cancel, as the source does it, IS the model's cancel_order: an order still resting leaves its side and is remembered
   as it was; an order that already left changes nothing in the book; either way mid and market price are refreshed and exactly one record
   carrying the order as it is now and the time of the cancel is reported *)
Theorem gen_cancel_order_is_cancel_order : forall m o, 0 <= m_time m -> mkt o = m_id m -> names m o ->
  cancel_order_gen m o = cancel_order m (oid o).
Proof.
  intros m o Ht Hm Hn. unfold cancel_order_gen, cancel_order.
  destruct (m_time m <? 0) eqn:E; [lia|]. clear E Ht.
  destruct o as [i ag mk buy p v pl tt]. destruct m as [id tk t run nx bs ss mp la mi fu vo tu nb ns go].
  cbn [mkt m_id] in Hm. subst mk.
  unfold names in Hn. cbn [isbuy oid m_buys m_sells m_gone] in Hn.
  destruct Hn as [[Hb Hf]|[[Hb [Hn Hf]]|[Hn1 [Hn2 Hg]]]].
  - subst buy. red_cancel. rewrite Z.eqb_refl, Hf. red_cancel. reflexivity.
  - subst buy. red_cancel. rewrite Z.eqb_refl, Hn, Hf. red_cancel. reflexivity.
  - red_cancel. rewrite Z.eqb_refl, Hn1, Hn2, Hg. destruct buy; red_cancel; rewrite ?Hn1, ?Hn2; reflexivity.
Qed.
Print Assumptions gen_cancel_order_is_cancel_order.

(* non-vacuity: a resting buy order is cancelled - it leaves the book, the record carries it with its volume and the cancel time; the same
   cancel again finds it among the orders that left and reports it once more without touching the book *)
Example gen_cancel_order_example :
  let m0 := fst (tick (init_market 0 (1#1) (100#1)) (100#1)) in
  match add_order m0 7 0 true (Some (100#1)) 3 None with
  | Ok (m1, ROrder o) =>
      names m1 o /\
      match cancel_order_gen m1 o with
      | Ok (m2, RCancel o' 0) => o' = o /\ m_buys m2 = [] /\ names m2 o /\
                                 match cancel_order_gen m2 o with Ok (m3, RCancel o'' 0) => o'' = o /\ m_buys m3 = [] /\ m_gone m3 = [o] | _ => False end
      | _ => False
      end
  | _ => False
  end.
Proof.
  vm_compute. split; [left; split; reflexivity|]. split; [reflexivity|]. split; [reflexivity|].
  split; [right; right; repeat split|]. repeat split.
Qed.
