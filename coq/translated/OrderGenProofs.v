(* Theorems about the GENERATED comparator (OrderGen.v, regenerated from pams/order.py on every run).
   Compiled by the C02 / C04 checks after regeneration; not part of the static build. *)
Require Import Pams.Prelude Pams.Match Pams.Market Pams.MatchQ Pams.OrderPy.
Require Import PamsGen.OrderGen.
Open Scope Z_scope.

Lemma qeqb_sym a b : qeqb a b = qeqb b a.
Proof.
  destruct (qeqb a b) eqn:E1, (qeqb b a) eqn:E2; auto.
  - apply qeqb_eq in E1. assert (qeqb b a = true) by (apply qeqb_eq; symmetry; exact E1). congruence.
  - apply qeqb_eq in E2. assert (qeqb a b = true) by (apply qeqb_eq; symmetry; exact E2). congruence.
Qed.

Ltac kinds Ka Kb :=
  try (exfalso; destruct Ka as [K1 K2]; first [specialize (K1 eq_refl); discriminate | specialize (K2 eq_refl); discriminate]);
  try (exfalso; destruct Kb as [K1 K2]; first [specialize (K1 eq_refl); discriminate | specialize (K2 eq_refl); discriminate]).

(* THE HAND-WRITTEN RANKING IS THE CODE'S `<`: on orders as the market holds them, of one side, the generated __lt__
   never raises and equals oltq of the abstractions - the relation every matching / priority theorem is about *)
Theorem gen_lt_is_oltq a b : accepted_py a -> accepted_py b -> p_buy a = p_buy b ->
  lt_gen a b = POk (oltq (abs_order a) (abs_order b)).
Proof.
  intros [[ia Ia] [[ta Ta] Ka]] [[ib Ib] [[tb Tb] Kb]] S.
  unfold lt_gen, gt_lt_gen, check_comparability_gen, oltq, olt, time_lt, abs_order. cbn [price placed oid isbuy].
  rewrite S, Bool.eqb_reflx, Ia, Ib, Ta, Tb. cbn [zdef negb pif pseq is_none pand por].
  destruct (p_kind a), (p_kind b), (p_price a) as [pa|] eqn:Pa, (p_price b) as [pb|] eqn:Pb; cbn; kinds Ka Kb.
  - destruct (ta =? tb); reflexivity.
  - reflexivity.
  - reflexivity.
  - destruct (qeqb pa pb); cbn; [destruct (ta =? tb); reflexivity|]. destruct (p_buy b); reflexivity.
Qed.

(* `>` is the converse of `<` *)
Theorem gen_gt_is_converse a b : accepted_py a -> accepted_py b -> p_buy a = p_buy b ->
  gt_gen a b = POk (oltq (abs_order b) (abs_order a)).
Proof.
  intros [[ia Ia] [[ta Ta] Ka]] [[ib Ib] [[tb Tb] Kb]] S.
  unfold gt_gen, gt_lt_gen, check_comparability_gen, oltq, olt, time_lt, abs_order. cbn [price placed oid isbuy].
  rewrite S, Bool.eqb_reflx, Ia, Ib, Ta, Tb. cbn [zdef negb pif pseq is_none pand por].
  destruct (p_kind a), (p_kind b), (p_price a) as [pa|] eqn:Pa, (p_price b) as [pb|] eqn:Pb; cbn; kinds Ka Kb.
  - rewrite (Z.eqb_sym tb ta). destruct (ta =? tb); reflexivity.
  - reflexivity.
  - reflexivity.
  - rewrite (qeqb_sym pb pa). destruct (qeqb pa pb); cbn; [rewrite (Z.eqb_sym tb ta); destruct (ta =? tb); reflexivity|].
    destruct (p_buy b); reflexivity.
Qed.

(* orders of different sides cannot be compared: the operators raise ValueError *)
Theorem gen_mixed_sides_refused a b gt : p_buy a <> p_buy b ->
  gt_lt_gen a b gt = PErr PyValueError /\ eq_gen a b = PErr PyValueError.
Proof.
  intros S. unfold gt_lt_gen, eq_gen, check_comparability_gen.
  assert (E : Bool.eqb (p_buy a) (p_buy b) = false) by (destruct (p_buy a), (p_buy b); auto; congruence).
  rewrite E. cbn. auto.
Qed.

(* `==` is consistent with the order: equal orders are neither < nor >; orders with different ids are not equal *)
Theorem gen_eq_spec a b : p_buy a = p_buy b ->
  eq_gen a b = POk (oz_eqb (p_id a) (p_id b) && oq_eqb (p_price a) (p_price b) && oz_eqb (p_placed a) (p_placed b) &&
                    kind_eqb (p_kind a) (p_kind b)).
Proof.
  intros S. unfold eq_gen, check_comparability_gen. rewrite S, Bool.eqb_reflx. cbn.
  destruct (oz_eqb (p_id a) (p_id b)), (oq_eqb (p_price a) (p_price b)), (oz_eqb (p_placed a) (p_placed b)),
    (kind_eqb (p_kind a) (p_kind b)); reflexivity.
Qed.

Theorem gen_trichotomy a b : accepted_py a -> accepted_py b -> p_buy a = p_buy b -> p_id a <> p_id b ->
  eq_gen a b = POk false /\
  ((lt_gen a b = POk true /\ gt_gen a b = POk false) \/ (lt_gen a b = POk false /\ gt_gen a b = POk true)).
Proof.
  intros Ha Hb S Ni. rewrite (gen_lt_is_oltq a b Ha Hb S), (gen_gt_is_converse a b Ha Hb S), (gen_eq_spec a b S).
  destruct Ha as [[ia Ia] _], Hb as [[ib Ib] _].
  assert (Ne : ia <> ib) by (intros C; apply Ni; congruence).
  split.
  - rewrite Ia, Ib. cbn. apply Z.eqb_neq in Ne. rewrite Ne. reflexivity.
  - assert (Hid : oid (abs_order a) <> oid (abs_order b)) by (unfold abs_order; cbn; rewrite Ia, Ib; cbn; exact Ne).
    assert (Hs : isbuy (abs_order a) = isbuy (abs_order b)) by (unfold abs_order; cbn; exact S).
    destruct (oltq_total _ _ Hid Hs) as [L|G].
    + left. rewrite L. split; auto. f_equal. apply oltq_asym; auto.
    + right. rewrite G. split; auto. f_equal. apply oltq_asym; auto.
Qed.

(* le / ge are "== or <" / "== or >" *)
Theorem gen_le_ge a b : accepted_py a -> accepted_py b -> p_buy a = p_buy b -> p_id a <> p_id b ->
  le_gen a b = lt_gen a b /\ ge_gen a b = gt_gen a b /\ ne_gen a b = POk true.
Proof.
  intros Ha Hb S Ni. destruct (gen_trichotomy a b Ha Hb S Ni) as [E _].
  unfold le_gen, ge_gen, ne_gen. rewrite E. cbn. auto.
Qed.

(* is_expired is the model's expiry test: strictly later than acceptance time + time-to-live *)
Theorem gen_is_expired a t : (exists p, p_placed a = Some p) ->
  is_expired_gen a t = POk (expired t (abs_order a)).
Proof.
  intros [p Hp]. unfold is_expired_gen, expired, abs_order. cbn [ttl placed]. rewrite Hp. cbn.
  destruct (p_ttl a); reflexivity.
Qed.

Theorem gen_is_expired_unplaced a t : p_placed a = None -> is_expired_gen a t = PErr PyException.
Proof. intros H. unfold is_expired_gen. rewrite H. reflexivity. Qed.

Example gen_nonvacuous :
  let a := mkPy 1 0 true LIMIT_ORDER 5 (Some 3) (Some (100#1)) (Some 7) (Some 2) in
  let b := mkPy 2 0 true LIMIT_ORDER 5 (Some 3) (Some (100#1)) (Some 9) None in
  let m := mkPy 2 0 true MARKET_ORDER 5 (Some 4) None (Some 11) None in
  lt_gen a b = POk true /\ gt_gen a b = POk false /\ lt_gen m a = POk true /\ eq_gen a b = POk false /\
  is_expired_gen a 5 = POk false /\ is_expired_gen a 6 = POk true.
Proof. vm_compute. repeat split. Qed.

Print Assumptions gen_lt_is_oltq.
Print Assumptions gen_gt_is_converse.
Print Assumptions gen_mixed_sides_refused.
Print Assumptions gen_eq_spec.
Print Assumptions gen_trichotomy.
Print Assumptions gen_le_ge.
Print Assumptions gen_is_expired.
Print Assumptions gen_is_expired_unplaced.
