(* Theorems about the GENERATED text of Market._execute_orders (FillGen.v, regenerated from /repo every run). *)
Require Import Pams.Prelude Pams.Match Pams.Market Pams.OrderPy Pams.FillPy.
Require Import PamsGen.FillGen.
From Coq Require Import Lia.
From RecordUpdate Require Import RecordSet.
Import RecordSetNotations.
Open Scope Z_scope.

Ltac red_fill := cbv -[Z.add Z.sub Z.opp Z.leb Z.ltb Z.eqb dec_vol upd getz getq geto zi qadd qmul qofz update_market_price negb is_none
                       oid agent mkt placed vol].

(* one fill, as the source does it, IS the model's apply_fill on two orders of this market: refused on a stopped market and for a
   non-positive volume; both orders lose the volume (leaving the book at zero); the last-trade price of the step becomes the price, the
   step's executed volume grows by the volume and its turnover by volume x price; the mid and market price are refreshed; one record with
   the market, the time, both agents, both order ids, the price and the volume is reported *)
Theorem gen_execute_orders_is_apply_fill : forall m p v b s, mkt b = m_id m -> mkt s = m_id m ->
  execute_orders_gen m p v b s = apply_fill p m (Fill v b s).
Proof.
  intros m p v b s Hb Hs. unfold execute_orders_gen, apply_fill. rewrite Hb, Hs, !Z.eqb_refl.
  destruct m as [id tk t run nx bs ss mp la mi fu vo tu nb ns go].
  red_fill. rewrite !Z.opp_involutive.
  destruct run; [|reflexivity]. cbn [negb]. destruct (v <=? 0); [reflexivity|].
  destruct (dec_vol (oid b) v bs go) as [[l g]|e]; [|reflexivity]. red_fill.
  destruct (dec_vol (oid s) v ss g) as [[l' g']|e]; [|reflexivity]. red_fill.
  reflexivity.
Qed.
Print Assumptions gen_execute_orders_is_apply_fill.

(* non-vacuity and a concrete reading: two resting orders of market 0 that cross; the fill of 3 at 100 leaves 2 of the buy order, removes
   the sell order, and records price, volume and turnover of the step *)
Example gen_execute_orders_example :
  let b := mkO 0 7 0 true (Some (100#1)) 5 0 None in
  let s := mkO 1 8 0 false (Some (100#1)) 3 0 None in
  let m0 := fst (tick (init_market 0 (1#1) (100#1)) (100#1)) in
  let m := m0 <| m_running := true |> <| m_buys := [b] |> <| m_sells := [s] |> in
  match execute_orders_gen m (100#1) 3 b s with
  | Ok (m', RExec 0 0 7 8 0 1 _ 3) =>
      map vol (m_buys m') = [2] /\ m_sells m' = [] /\ getz (m_vol m') 0 = 3 /\ geto (m_last m') 0 = Some (100#1)
  | _ => False
  end.
Proof. vm_compute. repeat split. Qed.
