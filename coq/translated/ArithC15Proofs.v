(* Theorems about the GENERATED arithmetic kernels (ArithGen.v, regenerated from /repo on every run: only the units of this
   property are generated).  Compiled by the check after regeneration; not part of the static build. *)
Require Import Pams.Prelude Pams.Tick Pams.Match Pams.Market Pams.OrderPy Pams.Sim.
From Coq Require Import QArith Qround.
Require Import PamsGen.ArithGen.
Open Scope Z_scope.

(* C15: the model's clipping function IS PriceLimitRule.get_limited_price (read over exact rationals) *)
Theorem gen_limited_price_is_model ref rate p :
  limited_price_gen ref rate (Some p) false = POk (Some (limited_price ref rate p)).
Proof. unfold limited_price_gen, limited_price, one_plus. destruct (qleb _ _); reflexivity. Qed.

(* market orders pass through; a market that is not a target of the rule is refused *)
Theorem gen_limited_price_market_order ref rate : limited_price_gen ref rate None false = POk None.
Proof. reflexivity. Qed.
Theorem gen_limited_price_foreign_market ref rate p : limited_price_gen ref rate p true = PErr PyAssertionError.
Proof. reflexivity. Qed.

Example arith_c15_nonvacuous :
  limited_price_gen (100#1) (1#10) (Some (150#1)) false = POk (Some (limited_price (100#1) (1#10) (150#1))) /\
  limited_price (100#1) (1#10) (150#1) == 110#1.
Proof. vm_compute. split; reflexivity. Qed.

Print Assumptions gen_limited_price_is_model.
Print Assumptions gen_limited_price_market_order.
Print Assumptions gen_limited_price_foreign_market.
