(* Theorems about the GENERATED text of pams/utils/json_extends.py (DictGen.v, regenerated from /repo every run). *)
Require Import Pams.Prelude Pams.Match Pams.Market Pams.OrderPy Pams.Config.
Require Import PamsGen.DictGen.
Open Scope Z_scope.

(* the loop of the source, turn by turn, is the model's jext - the function the C18 theorems (own keys, then the nearest ancestor
   defining the key; termination; missing parent; cycles) are about *)
Lemma gen_loop_is_model : forall fuel whole excl hist results,
  jext_loop_gen fuel whole excl (hist, results) =
  match jext fuel whole excl hist results with
  | Ok r => POk r
  | Err EOutOfFuel => PErr PyException
  | Err _ => PErr PyValueError
  end.
Proof.
  induction fuel as [|f IH]; intros whole excl hist results; [reflexivity|].
  cbn [jext_loop_gen jext]. unfold jext_turn_gen.
  destruct (lookup EXT results) as [parent|]; [|reflexivity].
  destruct (lookup_whole parent whole) as [pd|]; [|reflexivity].
  destruct (memz parent hist); [reflexivity|]. apply IH.
Qed.

Theorem gen_json_extends_is_model : forall whole name target excl,
  json_extends_gen (S (S (length whole))) whole name target excl =
  match json_extends whole name target excl with Ok r => POk r | Err _ => PErr PyValueError end.
Proof.
  intros. unfold json_extends_gen, json_extends. rewrite gen_loop_is_model.
  pose proof (json_extends_terminates whole name target excl) as T. unfold json_extends in T.
  destruct (jext _ _ _ _ _) as [r|e]; [reflexivity|]. destruct e; try reflexivity. congruence.
Qed.
Print Assumptions gen_json_extends_is_model.

(* hence the source's result obeys the specification: own keys first, then the nearest ancestor that defines the key *)
Theorem gen_json_extends_spec : forall whole name target excl r, memz EXT excl = false ->
  json_extends_gen (S (S (length whole))) whole name target excl = POk r ->
  json_extends whole name target excl = Ok r.
Proof.
  intros whole name target excl r _ H. rewrite gen_json_extends_is_model in H.
  destruct (json_extends whole name target excl); [inversion H; reflexivity|discriminate].
Qed.
Print Assumptions gen_json_extends_spec.

Example gen_json_extends_example :
  (* 1: {ext: 2, 5: 50}   2: {ext: 3, 5: 51, 6: 60}   3: {6: 61, 7: 70} *)
  let whole := [(1, [(0, 2); (5, 50)]); (2, [(0, 3); (5, 51); (6, 60)]); (3, [(6, 61); (7, 70)])] in
  json_extends_gen 5 whole 1 [(0, 2); (5, 50)] [] = POk [(6, 60); (7, 70); (5, 50)] /\
  json_extends_gen 5 whole 1 [(0, 9)] [] = PErr PyValueError /\ json_extends_gen 5 whole 1 [(0, 1)] [] = PErr PyValueError.
Proof. vm_compute. repeat split. Qed.
