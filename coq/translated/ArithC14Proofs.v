(* Theorems about the GENERATED text of the shocks' hooks (ArithGen.v, regenerated from /repo every run). *)
Require Import Pams.Prelude Pams.Tick Pams.Match Pams.Market Pams.OrderPy Pams.Sim Pams.SimProps.
Require Import PamsGen.ArithGen.
From Coq Require Import QArith.
From RecordUpdate Require Import RecordSet.
Import RecordSetNotations.
Open Scope Z_scope.

Definition val {A} (d : A) (r : pres A) : A := match r with POk a => a | PErr _ => d end.

(* FundamentalPriceShock.hooked_before_step_for_market, as the source says it now, is the model's shock_before_step: outside the
   window or on another market the hook raises; otherwise the fundamental value of the current time is multiplied by the scale *)
Theorem gen_fund_shock_is_model : forall s e x target off len rate,
  es_kind e = KFundShock target off len rate ->
  shock_before_step s e x =
    match fund_shock_scale_gen (mtime x) (es_trigger e) len (negb (m_id (mk_m x) =? target)) rate with
    | PErr _ => fail s EHook
    | POk scale =>
        match geto (m_fund (mk_m x)) (mtime x) with
        | None => fail s EAssertNone
        | Some f => set_market s target ((mk_m x) <| m_fund := upd (m_fund (mk_m x)) (zi (mtime x)) (Some (qmul f scale)) |>)
        end
    end.
Proof.
  intros s e x target off len rate K. unfold shock_before_step, fund_shock_scale_gen. rewrite K. cbv zeta.
  destruct (negb ((es_trigger e <=? mtime x) && (mtime x <? es_trigger e + len))); [reflexivity|].
  destruct (negb (m_id (mk_m x) =? target)); reflexivity.
Qed.
Print Assumptions gen_fund_shock_is_model.

Theorem gen_fund_shock_scale : forall time trigger len not_target rate,
  fund_shock_scale_gen time trigger len not_target rate =
  if (trigger <=? time) && (time <? trigger + len) && negb not_target then POk (one_plus rate) else PErr PyAssertionError.
Proof.
  intros. unfold fund_shock_scale_gen, one_plus. cbv zeta.
  destruct ((trigger <=? time) && (time <? trigger + len)); cbn [negb andb]; [|reflexivity]. destruct not_target; reflexivity.
Qed.
Print Assumptions gen_fund_shock_scale.

(* OrderMistakeShock.hooked_before_order, as the source says it now, is the model's rewrite of the request: on the target market,
   while the rule is unspent, the order becomes a limit order at market price x (1 + rate), buying iff rate > 0, with the configured
   volume and time-to-live, and the rule is spent; otherwise the order is untouched *)
Theorem gen_mistake_is_model : forall s h e tag ag mk buy p v ttlv target off rate vol ttl' x base,
  find_event (h_ev h) (s_events s) = Some e -> es_kind e = KMistake target off rate vol ttl' ->
  find_mkt mk (s_markets s) = Some x -> mprice_at x (mtime x) = Some base ->
  let om := negb (mk =? target) in
  let sp := es_spent e in
  before_order_effect s h (RNew tag ag mk buy p v ttlv) =
    (if val false (mistake_fires_gen om sp base rate ttl' vol false)
     then s <| s_events := upd_event (es_id e) (fun e => e <| es_spent := true |>) (s_events s) |> else s,
     RNew tag ag mk (val buy (mistake_is_buy_gen om sp base rate ttl' vol buy))
                    (val p (mistake_price_gen om sp base rate ttl' vol p))
                    (val v (mistake_volume_gen om sp base rate ttl' vol v))
                    (val ttlv (mistake_ttl_gen om sp base rate ttl' vol ttlv))).
Proof.
  intros s h e tag ag mk buy p v ttlv target off rate vol ttl' x base Fe K Fx Hb om sp. subst om sp.
  unfold before_order_effect. rewrite Fe, K.
  unfold mistake_fires_gen, mistake_is_buy_gen, mistake_price_gen, mistake_volume_gen, mistake_ttl_gen. cbv zeta.
  destruct (negb (mk =? target)); [reflexivity|]. destruct (es_spent e); [reflexivity|]. cbn [negb val].
  rewrite Fx, Hb. unfold one_plus. reflexivity.
Qed.
Print Assumptions gen_mistake_is_model.

(* Market.change_fundamental_price, as the source says it now: the level of the current time is multiplied by the scale - stored both in
   the market's own series and in Fundamentals.prices - and the regeneration point of the fundamentals moves to the current time
   UNCONDITIONALLY (Fund.shock: [mkF t ...]), so that every later value is generated again from the new level *)
Theorem gen_change_fundamental_price : forall scale cur time,
  shock_level_gen scale cur time = POk (qmul cur scale) /\ shock_until_gen scale cur time = POk time.
Proof. intros. split; reflexivity. Qed.
Print Assumptions gen_change_fundamental_price.

(* with the scale the shock hook passes, the new level is the one the model's shock_before_step stores *)
Theorem gen_shock_level_is_model : forall time trigger len rate cur sc,
  fund_shock_scale_gen time trigger len false rate = POk sc -> shock_level_gen sc cur time = POk (qmul cur (one_plus rate)).
Proof.
  intros time trigger len rate cur sc H. rewrite gen_fund_shock_scale in H. destruct (_ && _); [|discriminate]. inversion H; subst. reflexivity.
Qed.
Print Assumptions gen_shock_level_is_model.

Example gen_shock_example :
  fund_shock_scale_gen 5 5 2 false (-1#10) = POk (9#10) /\ fund_shock_scale_gen 7 5 2 false (-1#10) = PErr PyAssertionError /\
  fund_shock_scale_gen 6 5 2 true (-1#10) = PErr PyAssertionError /\
  mistake_price_gen false false (300#1) (-1#2) 7 100 None = POk (Some (150#1)) /\
  mistake_is_buy_gen false false (300#1) (-1#2) 7 100 true = POk false /\
  mistake_price_gen true false (300#1) (-1#2) 7 100 (Some (5#1)) = POk (Some (5#1)) /\
  mistake_volume_gen false true (300#1) (-1#2) 7 100 3 = POk 3 /\ mistake_ttl_gen false false (300#1) (-1#2) 7 100 None = POk (Some 7).
Proof. vm_compute. repeat split. Qed.
