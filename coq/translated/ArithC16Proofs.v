(* Theorems about the GENERATED text of the two decisions of TradingHaltRule (ArithGen.v, regenerated from /repo every run). *)
Require Import Pams.Prelude Pams.Tick Pams.Match Pams.Market Pams.OrderPy Pams.Sim Pams.SimProps.
Require Import PamsGen.ArithGen.
From Coq Require Import QArith.
From RecordUpdate Require Import RecordSet.
Import RecordSetNotations.
Open Scope Z_scope.

(* the decision after a fill, as the source says it now: the market must be running, |p0 - p| must reach |p0 x rate x (count + 1)|,
   and the market must be a target *)
Theorem gen_halt_decision : forall ref now rate count running in_targets,
  halt_decision_gen ref now rate count running in_targets =
  POk (running && qleb (qabs (qmul (qmul ref rate) (qofz (count + 1)))) (qabs (qsub ref now)) && in_targets).
Proof.
  intros. unfold halt_decision_gen, qofz. destruct running; [|reflexivity]. cbn [andb].
  destruct (qleb _ _); reflexivity.
Qed.
Print Assumptions gen_halt_decision.

(* ... and it is the decision of the model's TradingHaltRule (Sim.halt_after_execution, the function all C16 theorems are about):
   the model halts exactly when the generated decision says so *)
Theorem gen_halt_decision_is_model : forall s e mkid targets rate len x ref now,
  es_kind e = KHalt targets rate len -> find_mkt mkid (s_markets s) = Some x ->
  mprice_at x 0 = Some ref -> mprice_at x (mtime x) = Some now ->
  halt_after_execution s e mkid =
    match halt_decision_gen ref now rate (es_count e) (m_running (mk_m x)) (memz mkid targets) with
    | POk true =>
       (let s1 := set_market s mkid ((mk_m x) <| m_running := false |>) in
        let s2 := s1 <| s_sessions := upd_sess (s_cur s1) (fun z => z <| se_exec := false |>) (s_sessions s1) |> in
        s2 <| s_events := upd_event (es_id e)
                 (fun e => e <| es_started := mtime x |> <| es_count := es_count e + 1 |> <| es_halted := Some (mkid, s_cur s2) |>)
                 (s_events s2) |>)
    | _ => s
    end.
Proof.
  intros s e mkid targets rate len x ref now K Fx H0 Hn. rewrite gen_halt_decision.
  unfold halt_after_execution. rewrite K, Fx, H0, Hn.
  destruct (m_running (mk_m x)); cbn [negb andb]; [|reflexivity].
  destruct (qleb _ _); cbn [andb]; [|reflexivity]. destruct (memz mkid targets); reflexivity.
Qed.
Print Assumptions gen_halt_decision_is_model.

(* the decision before a step: the clock must have passed start + length, and the market must be a target *)
Theorem gen_resume_decision : forall time started len in_targets,
  resume_decision_gen time started len in_targets = POk ((time >? started + len) && in_targets).
Proof. intros. unfold resume_decision_gen. rewrite Z.gtb_ltb. destruct (_ <? _); reflexivity. Qed.
Print Assumptions gen_resume_decision.

Theorem gen_resume_decision_is_model : forall s e x targets rate len,
  es_kind e = KHalt targets rate len ->
  resume_decision_gen (mtime x) (es_started e) len (memz (m_id (mk_m x)) targets) = POk false ->
  halt_before_step s e x = s.
Proof.
  intros s e x targets rate len K H. rewrite gen_resume_decision in H. injection H as H.
  unfold halt_before_step. rewrite K, H. reflexivity.
Qed.
Print Assumptions gen_resume_decision_is_model.

Example gen_halt_example :
  halt_decision_gen (300#1) (285#1) (5#100) 0 true true = POk true /\      (* exactly on the line *)
  halt_decision_gen (300#1) (286#1) (5#100) 0 true true = POk false /\
  halt_decision_gen (300#1) (285#1) (5#100) 1 true true = POk false /\     (* second line is twice as far *)
  halt_decision_gen (300#1) (270#1) (5#100) 1 true true = POk true /\
  halt_decision_gen (300#1) (200#1) (5#100) 0 false true = POk false /\
  halt_decision_gen (300#1) (200#1) (5#100) 0 true false = POk false /\
  resume_decision_gen 7 4 2 true = POk true /\ resume_decision_gen 6 4 2 true = POk false.
Proof. vm_compute. repeat split. Qed.
