(* Theorems about the GENERATED arithmetic kernels (ArithGen.v, regenerated from pams/events/price_limit_rule.py and
   pams/market.py on every run).  Compiled by the C15 / C19 checks after regeneration; not part of the static build. *)
Require Import Pams.Prelude Pams.Tick Pams.Match Pams.Market Pams.OrderPy Pams.Sim.
From Coq Require Import QArith Qround.
Require Import PamsGen.ArithGen.
Open Scope Z_scope.

(* C15: the model's clipping function IS PriceLimitRule.get_limited_price (read over exact rationals) *)
Theorem gen_limited_price_is_model ref rate p :
  limited_price_gen ref rate (Some p) false = POk (Some (limited_price ref rate p)).
Proof. unfold limited_price_gen, limited_price, one_plus. destruct (qleb _ _); reflexivity. Qed.

(* market orders pass through; a market that is not a target of the rule is refused *)
Theorem gen_limited_price_market_order ref rate : limited_price_gen ref rate None false = POk None.
Proof. reflexivity. Qed.
Theorem gen_limited_price_foreign_market ref rate p : limited_price_gen ref rate p true = PErr PyAssertionError.
Proof. reflexivity. Qed.

(* C19: the tick level of the source is the model's (floor for buys, ceiling for sells), and the price of a level is
   level x tick - hence the source's rounded price is the model's round_price on off-grid prices *)
Theorem gen_tick_level_is_model tick buy p : tick_level_gen p buy tick = POk (tick_level tick buy p).
Proof.
  unfold tick_level_gen, tick_lower_gen, tick_upper_gen, tick_level, qdiv.
  destruct buy; f_equal; [apply Qfloor_comp|apply Qceiling_comp]; apply Qred_correct.
Qed.

Theorem gen_to_price_is_model tick k : exists q, to_price_gen k tick = POk q /\ Qeq q (qmul (inject_Z k) tick).
Proof. eexists. split; [reflexivity|]. unfold qmul. rewrite !Qred_correct. ring. Qed.

Theorem gen_rounding_is_model tick buy p : on_grid tick p = false ->
  exists k q, tick_level_gen p buy tick = POk k /\ to_price_gen k tick = POk q /\ Qeq q (round_price tick buy p).
Proof.
  intros G. exists (tick_level tick buy p). eexists. split; [apply gen_tick_level_is_model|]. split; [reflexivity|].
  unfold round_price. rewrite G. unfold qmul. rewrite !Qred_correct. ring.
Qed.

Example arith_nonvacuous :
  limited_price_gen (100#1) (1#10) (Some (150#1)) false = POk (Some (qmin (qmax (150#1) (qmul (100#1) (qsub (inject_Z 1) (1#10)))) (qmul (100#1) (qadd (inject_Z 1) (1#10))))) /\
  tick_level_gen (201#2) true (1#1) = POk 100 /\ tick_level_gen (201#2) false (1#1) = POk 101.
Proof. vm_compute. repeat split. Qed.

Print Assumptions gen_limited_price_is_model.
Print Assumptions gen_limited_price_market_order.
Print Assumptions gen_limited_price_foreign_market.
Print Assumptions gen_tick_level_is_model.
Print Assumptions gen_to_price_is_model.
Print Assumptions gen_rounding_is_model.
