(* Theorems about the GENERATED text of ArbitrageAgent._submit_orders and MarketMakerAgent.submit_orders (OrdersGen.v, regenerated from
   /repo every run). *)
Require Import Pams.Prelude Pams.Match Pams.Market Pams.OrderPy Pams.Agents.
Require Import PamsGen.OrdersGen.
From Coq Require Import QArith.
Open Scope Z_scope.

(* the arbitrage agent, as the source says it now, is the model's arb_orders - the function the C20 theorems are about - on an
   accessible index market whose components have equal outstanding shares; it orders nothing on any other market and refuses
   (NotImplementedError) components with different outstanding shares while everything is running *)
Theorem gen_arbitrage_is_model : forall ir cr mp index thr ag idx v ttlv comps,
  arb_orders_gen false false ir cr false mp index thr ag idx v ttlv comps = POk (arb_orders ag idx ir cr mp index thr comps v ttlv).
Proof.
  intros. unfold arb_orders_gen, arb_orders. cbv zeta.
  replace (negb ir || negb cr) with (negb (ir && cr)) by (destruct ir, cr; reflexivity).
  destruct (negb (ir && cr)); [reflexivity|]. f_equal.
  destruct (qltb mp index && qltb thr (qsub index mp)); destruct (qltb index mp && qltb thr (qsub mp index)); simpl; rewrite ?app_nil_r, <- ?app_assoc; reflexivity.
Qed.
Print Assumptions gen_arbitrage_is_model.

Theorem gen_arbitrage_guards : forall ni na ir cr sd mp index thr ag idx v ttlv comps,
  (ni = true \/ na = true \/ ir = false \/ cr = false ->
     arb_orders_gen ni na ir cr sd mp index thr ag idx v ttlv comps = POk []) /\
  (arb_orders_gen false false true true true mp index thr ag idx v ttlv comps = PErr PyNotImplementedError).
Proof.
  intros. split; [|reflexivity]. unfold arb_orders_gen. intros [-> | [-> | [-> | ->]]]; try reflexivity.
  - destruct ni; reflexivity.
  - destruct ni, na; reflexivity.
  - destruct ni, na, ir; reflexivity.
Qed.
Print Assumptions gen_arbitrage_guards.

(* the market maker: given the base price its own get_base_price returns (None -> the target's market price), the two quotes are the
   model's mm_orders *)
Definition base_of (quotes : list (option Q * option Q)) : option Q :=
  match qmaxl (flat_map (fun q => match fst q with Some b => [b] | None => [] end) quotes),
        qminl (flat_map (fun q => match snd q with Some a => [a] | None => [] end) quotes) with
  | Some b, Some a => Some (qdiv (qadd b a) (2#1))
  | _, _ => None
  end.

Theorem gen_market_maker_is_model : forall quotes mp fund spread ag target ttlv,
  mm_orders_gen (base_of quotes) mp fund spread ag target ttlv = POk (mm_orders ag target quotes mp fund spread ttlv).
Proof.
  intros. unfold mm_orders_gen, mm_orders, mm_base, base_of. cbv zeta.
  destruct (qmaxl _) as [b|]; [destruct (qminl _) as [a|]|]; reflexivity.
Qed.
Print Assumptions gen_market_maker_is_model.

Example gen_orders_example :
  arb_orders_gen false false true true false (100#1) (103#1) (2#1) 7 2 5 9 [(0, 101#1); (1, 105#1)] =
    POk [AOrder 7 2 true (100#1) 10 9; AOrder 7 0 false (101#1) 5 9; AOrder 7 1 false (105#1) 5 9] /\
  arb_orders_gen false false true true false (100#1) (101#1) (2#1) 7 2 5 9 [(0, 101#1); (1, 105#1)] = POk [] /\
  mm_orders_gen None (300#1) (400#1) (1#100) 3 0 2 = POk [AOrder 3 0 true (298#1) 1 2; AOrder 3 0 false (302#1) 1 2].
Proof. vm_compute. repeat split. Qed.
