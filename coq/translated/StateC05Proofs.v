(* Theorems about the GENERATED text of Simulator._update_agents_for_execution (StateGen.v, regenerated from /repo every run). *)
Require Import Pams.Prelude Pams.Match Pams.Market Pams.OrderPy Pams.Sim Pams.SimProps Pams.SimConserve Pams.StatePy.
Require Import PamsGen.StateGen.
From RecordUpdate Require Import RecordSet.
Import RecordSetNotations.
Open Scope Z_scope.

Lemma aug_asset_is_add st r k v st' :
  aug_asset st r k (fun cur => cur + v) = POk st' ->
  st' = upd_agent r (fun a => a <| a_assets := add_asset k v (a_assets a) |>) st.
Proof.
  unfold aug_asset. destruct (find_agent r st) as [a|]; [|discriminate]. destruct (assoc k (a_assets a)); [|discriminate].
  intros H. inversion H. reflexivity.
Qed.

Lemma aug_asset_is_sub st r k v st' :
  aug_asset st r k (fun cur => cur - v) = POk st' ->
  st' = upd_agent r (fun a => a <| a_assets := add_asset k (- v) (a_assets a) |>) st.
Proof.
  unfold aug_asset. destruct (find_agent r st) as [a|]; [|discriminate]. destruct (assoc k (a_assets a)); [|discriminate].
  intros H. inversion H. unfold upd_agent. apply map_ext. intros x. destruct (a_id x =? r); auto.
Qed.

(* whenever the code's loop body does not raise, it did to the agents exactly what the model's apply_fill_holdings does *)
Theorem gen_step_is_model st log st' :
  update_agents_step_gen st log = POk st' -> st' = apply_fill_holdings st (rec_of_log log).
Proof.
  unfold update_agents_step_gen, id2agent_get, pbind.
  destruct (find_agent (lg_buy_agent_id log) st); [|discriminate].
  destruct (find_agent (lg_sell_agent_id log) st); [|discriminate]. cbv zeta.
  match goal with |- match ?x with _ => _ end = _ -> _ => destruct x as [s1|] eqn:E1; [|discriminate] end.
  match goal with |- match ?x with _ => _ end = _ -> _ => destruct x as [s2|] eqn:E2; [|discriminate] end.
  intros H. inversion H. subst st'. apply aug_asset_is_sub in E2. apply aug_asset_is_add in E1. subst s2 s1.
  unfold apply_fill_holdings, rec_of_log, aug_cash, qofz. reflexivity.
Qed.
Print Assumptions gen_step_is_model.

Theorem gen_update_is_model : forall logs st st',
  update_agents_gen st logs = POk st' -> st' = fold_left apply_fill_holdings (map rec_of_log logs) st.
Proof.
  unfold update_agents_gen. induction logs as [|l r IH]; simpl; intros st st' H; [inversion H; reflexivity|].
  destruct (update_agents_step_gen st l) as [s1|] eqn:E; simpl in H; [|discriminate].
  apply gen_step_is_model in E. subst s1. apply IH. exact H.
Qed.
Print Assumptions gen_update_is_model.

(* ---------------- the guard: when the code raises ---------------- *)
Lemma find_agent_upd i r f st : (forall a, a_id (f a) = a_id a) ->
  find_agent i (upd_agent r f st) = match find_agent i st with Some a => Some (if a_id a =? r then f a else a) | None => None end.
Proof.
  intros Hf. unfold upd_agent. induction st as [|y l IH]; simpl; auto.
  destruct (a_id y =? r) eqn:E1; [rewrite Hf|]; destruct (a_id y =? i); auto; rewrite E1; reflexivity.
Qed.

Definition party_ok (st : store) (i mk : Z) : Prop := exists a, find_agent i st = Some a /\ holds mk a.

Lemma party_ok_upd st i mk r f : (forall a, a_id (f a) = a_id a) -> (forall a, holds mk a <-> holds mk (f a)) ->
  (party_ok (upd_agent r f st) i mk <-> party_ok st i mk).
Proof.
  intros Hf Hh. unfold party_ok. rewrite find_agent_upd; auto. destruct (find_agent i st) as [a|].
  - split.
    + intros [x [E H]]. exists a. split; [reflexivity|]. injection E as <-. destruct (a_id a =? r); [apply (proj2 (Hh a))|]; exact H.
    + intros [x [E H]]. injection E as <-. eexists. split; [reflexivity|]. destruct (a_id a =? r); [apply (proj1 (Hh a))|]; exact H.
  - split; intros [x [E _]]; discriminate.
Qed.

Lemma holds_add_iff mk k v a : holds mk a <-> holds mk (a <| a_assets := add_asset k v (a_assets a) |>).
Proof. unfold holds. cbn. rewrite assoc_add_asset. destruct (assoc mk (a_assets a)); split; intros H; congruence. Qed.

Lemma party_ok_add st i mk r k v :
  party_ok (upd_agent r (fun a => a <| a_assets := add_asset k v (a_assets a) |>) st) i mk <-> party_ok st i mk.
Proof. apply party_ok_upd; [reflexivity|intros a; apply holds_add_iff]. Qed.

Lemma aug_asset_ok st r k f : party_ok st r k -> exists st', aug_asset st r k f = POk st'.
Proof. intros [a [F H]]. unfold aug_asset. rewrite F. unfold holds in H. destruct (assoc k (a_assets a)); [eauto|congruence]. Qed.

Lemma aug_asset_err st r k f : ~ party_ok st r k -> aug_asset st r k f = PErr PyKeyError.
Proof.
  intros N. unfold aug_asset. destruct (find_agent r st) as [a|] eqn:F; auto.
  destruct (assoc k (a_assets a)) eqn:A; auto. exfalso. apply N. exists a. split; auto. unfold holds. congruence.
Qed.

(* the loop body raises (KeyError) exactly when a party of the fill is unknown or does not hold the market's asset;
   otherwise it returns the model's new holdings *)
Theorem gen_step_guard st log :
  (party_ok st (lg_buy_agent_id log) (lg_market_id log) /\ party_ok st (lg_sell_agent_id log) (lg_market_id log) ->
     update_agents_step_gen st log = POk (apply_fill_holdings st (rec_of_log log))) /\
  (~ (party_ok st (lg_buy_agent_id log) (lg_market_id log) /\ party_ok st (lg_sell_agent_id log) (lg_market_id log)) ->
     update_agents_step_gen st log = PErr PyKeyError).
Proof.
  set (ba := lg_buy_agent_id log). set (sa := lg_sell_agent_id log). set (mk := lg_market_id log).
  set (amt := qmul (lg_price log) (inject_Z (lg_volume log))).
  set (s1 := aug_cash (aug_cash st ba (fun cur => qsub cur amt)) sa (fun cur => qadd cur amt)).
  assert (P1 : forall i, party_ok s1 i mk <-> party_ok st i mk).
  { intros i. unfold s1, aug_cash. rewrite !party_ok_upd; try tauto; intros a; unfold holds; cbn; tauto. }
  assert (Shape : update_agents_step_gen st log =
            match find_agent ba st, find_agent sa st with
            | Some _, Some _ => pbind (aug_asset s1 ba mk (fun cur => cur + lg_volume log)) (fun st2 =>
                                pbind (aug_asset st2 sa mk (fun cur => cur - lg_volume log)) (fun st3 => POk st3))
            | _, _ => PErr PyKeyError
            end).
  { unfold update_agents_step_gen, id2agent_get, pbind. fold ba sa mk.
    destruct (find_agent ba st); [|reflexivity]. destruct (find_agent sa st); reflexivity. }
  split.
  - intros [Hb Hs]. destruct Hb as [b [Fb Hb]]. destruct Hs as [s [Fs Hs]].
    assert (Hb1 : party_ok s1 ba mk) by (apply P1; exists b; auto).
    destruct (aug_asset_ok s1 ba mk (fun cur => cur + lg_volume log) Hb1) as [s2 E2].
    assert (Hs2 : party_ok s2 sa mk).
    { pose proof (aug_asset_is_add _ _ _ _ _ E2) as X. rewrite X.
      apply party_ok_add. apply P1. exists s; auto. }
    destruct (aug_asset_ok s2 sa mk (fun cur => cur - lg_volume log) Hs2) as [s3 E3].
    assert (E : update_agents_step_gen st log = POk s3) by (rewrite Shape, Fb, Fs, E2; simpl; rewrite E3; reflexivity).
    rewrite E. f_equal. apply gen_step_is_model. exact E.
  - intros N. rewrite Shape. destruct (find_agent ba st) as [b|] eqn:Fb; [|reflexivity]. destruct (find_agent sa st) as [s|] eqn:Fs; [|reflexivity].
    destruct (assoc mk (a_assets b)) eqn:Ab.
    + assert (Hb : party_ok st ba mk) by (exists b; split; auto; unfold holds; congruence).
      assert (Hb1 : party_ok s1 ba mk) by (apply P1; auto).
      destruct (aug_asset_ok s1 ba mk (fun cur => cur + lg_volume log) Hb1) as [s2 E2]. rewrite E2. simpl.
      pose proof (aug_asset_is_add _ _ _ _ _ E2) as X. rewrite aug_asset_err; [reflexivity|].
      intros Hs2. apply N. split; [exact Hb|]. apply P1. rewrite X in Hs2.
      exact (proj1 (party_ok_add _ _ _ _ _ _) Hs2).
    + rewrite aug_asset_err; [reflexivity|]. intros Hb1. apply P1 in Hb1. destruct Hb1 as [b' [Fb' Hb']]. rewrite Fb in Fb'. inversion Fb'; subst.
      unfold holds in Hb'. congruence.
Qed.
Print Assumptions gen_step_guard.

(* the whole loop, under the guard of SimConserve: known parties, every agent holds every market -> never raises, equals the model *)
Theorem gen_update_total mks : forall logs st, covers mks st ->
  Forall (fill_known (map a_id st) mks) (map rec_of_log logs) ->
  update_agents_gen st logs = POk (fold_left apply_fill_holdings (map rec_of_log logs) st).
Proof.
  unfold update_agents_gen. induction logs as [|l r IH]; cbn [pfold map fold_left]; intros st C K; auto.
  inversion K as [|? ? Kl Kr]; subst. unfold rec_of_log, fill_known in Kl. destruct Kl as [Km [Kb Ks]].
  destruct (find_agent_in _ _ Kb) as [b [Fb Ib]]. destruct (find_agent_in _ _ Ks) as [s [Fs Is]].
  destruct (gen_step_guard st l) as [G _]. rewrite G.
  - cbn [pbind]. apply IH; [exact (covers_fill _ _ _ C)|]. rewrite ids_fill. exact Kr.
  - split; [exists b|exists s]; split; auto; apply C; auto.
Qed.
Print Assumptions gen_update_total.

Example gen_update_example :
  let st := [mkA 0 false (1000#1) [(0, 50)]; mkA 1 false (1000#1) [(0, 50)]] in
  update_agents_gen st [mkLog 0 3 0 1 7 8 (101#2) 4] = POk [mkA 0 false (798#1) [(0, 54)]; mkA 1 false (1202#1) [(0, 46)]] /\
  update_agents_gen st [mkLog 0 3 1 1 7 8 (101#2) 4] = POk st /\
  update_agents_gen st [mkLog 0 3 0 2 7 8 (101#2) 4] = PErr PyKeyError /\
  update_agents_gen st [mkLog 5 3 0 1 7 8 (101#2) 4] = PErr PyKeyError.
Proof. vm_compute. repeat split. Qed.
