(* Theorems about the GENERATED text of Market._update_time (TickGen.v, regenerated from /repo every run). *)
Require Import Pams.Prelude Pams.Match Pams.Market Pams.MarketSeries Pams.OrderPy Pams.TickPy.
Require Import PamsGen.TickGen.
From Coq Require Import Lia.
From RecordUpdate Require Import RecordSet.
Import RecordSetNotations.
Open Scope Z_scope.

(* the clock step of the source IS the model's: time advances by one, both sides lose exactly the orders past their time to live (buys
   reported before sells, each side by order id), the series make room, the fundamental price is recorded, and the last-trade, mid and
   market price of the previous step are carried over - the market price becoming the previous last-trade price or, failing that, the
   previous mid price while the market runs; at time 0 a missing market price is the fundamental price *)
Ltac red_tick := cbv -[Z.add Z.sub Z.gtb Z.ltb filter by_id fill_until upd geto zi map app expired].

(* the proof does not depend on how the source spells its case distinctions: both sides are reduced call-by-value, the result of
   fill_until is named (it keeps the time), and every test and every entry read is split into its cases *)
Theorem gen_update_time_is_tick : forall m f, update_time_gen m f = tick m f.
Proof.
  intros m f. destruct m as [id tk t run nx bs ss mp la mi fu vo tu nb ns go].
  red_tick. rewrite <- ?app_assoc, ?map_app.
  match goal with |- context [fill_until ?a ?b] => pose proof (proj1 (fill_until_other a b)) as Ht; revert Ht; generalize (fill_until a b) end.
  intros [id' tk' t' run' nx' bs' ss' mp' la' mi' fu' vo' tu' nb' ns' go'] Ht. cbn [m_time] in Ht. subst t'.
  red_tick.
  destruct (t + 1 >? 0); destruct run'; try reflexivity;
    repeat match goal with |- context [geto ?l ?i] => destruct (geto l i) end; reflexivity.
Qed.
Print Assumptions gen_update_time_is_tick.

(* what the clock step therefore guarantees, read off the generated text: every entry of every recorded series other than the one of the
   new time is left exactly as it was (MarketSeries.tick_past carried over to the source's own statements) *)
Theorem gen_update_time_keeps_the_past : forall m f i, off i (m_time m + 1) ->
  series_at (fst (update_time_gen m f)) i = series_at m i.
Proof. intros m f i H. rewrite gen_update_time_is_tick. apply tick_past, H. Qed.
Print Assumptions gen_update_time_keeps_the_past.

Example gen_update_time_example :
  let m0 := init_market 0 (1#1) (100#1) in
  let m1 := fst (update_time_gen m0 (101#1)) in
  let m2 := fst (update_time_gen m1 (102#1)) in
  (m_time m1 = 0) /\ geto (m_mp m1) 0 = Some (100#1) /\ geto (m_fund m1) 0 = Some (101#1) /\
  (m_time m2 = 1) /\ geto (m_mp m2) 1 = Some (100#1) /\ geto (m_fund m2) 1 = Some (102#1) /\ geto (m_fund m2) 0 = Some (101#1).
Proof. vm_compute. repeat split. Qed.
