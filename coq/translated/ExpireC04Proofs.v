(* Theorems about the GENERATED text of OrderBook._check_expired_orders / _set_time (ExpireGen.v, regenerated from /repo every run). *)
Require Import Pams.Prelude Pams.Match Pams.Market Pams.OrderPy Pams.ExpirePy.
Require Import PamsGen.ExpireGen.
From Coq Require Import Lia.
Open Scope Z_scope.

(* the buckets dropped when the clock is set are exactly those STRICTLY OLDER than the new time - whatever the size of the step *)
Theorem gen_due_is_strictly_older : forall k t, due_orders_gen k t = (k <? t) /\ due_keys_gen k t = (k <? t).
Proof. intros. split; reflexivity. Qed.

Lemma in_due {A} (f : Z * list A -> bool) (tbl : list (Z * list A)) (o : A) :
  In o (concat (map snd (filter f tbl))) <-> exists k l, In (k, l) tbl /\ f (k, l) = true /\ In o l.
Proof.
  rewrite in_concat. split.
  - intros [l [Hl Ho]]. apply in_map_iff in Hl. destruct Hl as [[k l'] [E Hf]]. cbn in E. subst l'.
    apply filter_In in Hf. destruct Hf as [Hi Hf]. exists k, l. auto.
  - intros [k [l [Hi [Hf Ho]]]]. exists l. split; [|exact Ho]. apply in_map_iff. exists (k, l). split; [reflexivity|].
    apply filter_In. auto.
Qed.

Lemma fold_xpop (ks : list Z) : forall (tbl : xtable) kv,
  In kv (fold_left (fun t k => xpop k t) ks tbl) <-> In kv tbl /\ ~ In (fst kv) ks.
Proof.
  induction ks as [|k ks IH]; intros tbl kv; cbn [fold_left].
  - split; [intros H; split; [exact H|intros []]|intros [H _]; exact H].
  - rewrite IH. unfold xpop. rewrite filter_In. split.
    + intros [[Hi Hn] Hk]. split; [exact Hi|]. intros [E|Hin]; [|exact (Hk Hin)].
      subst k. rewrite Z.eqb_refl in Hn. discriminate.
    + intros [Hi Hk]. split; [split; [exact Hi|]|].
      * destruct (fst kv =? k) eqn:E; [|reflexivity]. apply Z.eqb_eq in E. exfalso. apply Hk. left. symmetry. exact E.
      * intros Hin. apply Hk. right. exact Hin.
Qed.

Lemma eta_order (o : O) : mkO (oid o) (agent o) (mkt o) (isbuy o) (price o) (vol o) (placed o) (ttl o) = o.
Proof. destruct o; reflexivity. Qed.

Lemma filed_expired tbl k l o t : filed_ok tbl -> In (k, l) tbl -> In o l -> expired t o = (k <? t).
Proof. intros F Hi Ho. destruct (F k l o Hi Ho) as [d [Ed Ek]]. unfold expired. rewrite Ed, Ek. reflexivity. Qed.

(* (the keys of a Python dict are distinct: NoDup (map fst tbl))
   setting the book's clock to ANY time: the records reported are exactly the filed orders whose accept time plus time to live is
   strictly before it, each reported as it is and at the new time; they are removed from the queue; and nothing that stays filed is past
   its time to live *)
Theorem gen_set_time_expires_exactly_the_overdue : forall tbl queue t, NoDup (map fst tbl) -> filed_ok tbl ->
  let '(logs, queue', tbl') := set_time_gen tbl queue t in
  (forall r, In r logs -> exists k l o, r = RExpire o t /\ In (k, l) tbl /\ In o l /\ expired t o = true) /\
  (forall k l o, In (k, l) tbl -> In o l -> expired t o = true -> In (RExpire o t) logs) /\
  (forall k l o, In (k, l) tbl' -> In o l -> In (k, l) tbl /\ expired t o = false) /\
  queue' = fold_left (fun q o => remove_id (oid o) q) (concat (map snd (filter (fun kv => fst kv <? t) tbl))) queue.
Proof.
  intros tbl queue t ND F. unfold set_time_gen, check_expired_gen, due_orders_gen, due_keys_gen.
  rewrite ?(concat_via_keys tbl (fun kv => fst kv <? t) ND).
  set (due := concat (map snd (filter (fun kv => fst kv <? t) tbl))).
  assert (Hdue : forall o, In o due <-> exists k l, In (k, l) tbl /\ (k <? t) = true /\ In o l).
  { intros o. unfold due. rewrite (in_due (fun kv => fst kv <? t)). reflexivity. }
  destruct (Z.of_nat (length due) =? 0) eqn:E.
  - apply Z.eqb_eq in E. assert (due = []) as E0 by (destruct due; [reflexivity|cbn in E; lia]).
    assert (Hnone : forall k l o, In (k, l) tbl -> In o l -> (k <? t) = false).
    { intros k l o Hi Ho. destruct (k <? t) eqn:Ek; [|reflexivity]. exfalso.
      assert (In o due) as Hd by (apply Hdue; exists k, l; auto). rewrite E0 in Hd. exact Hd. }
    repeat split.
    + intros r [].
    + intros k l o Hi Ho He. rewrite (filed_expired tbl k l o t F Hi Ho), (Hnone k l o Hi Ho) in He. discriminate.
    + exact H.
    + rewrite (filed_expired tbl k l o t F H H0). exact (Hnone k l o H H0).
    + rewrite E0. reflexivity.
  - repeat split.
    + intros r Hr. apply in_map_iff in Hr. destruct Hr as [o [Er Ho]]. rewrite eta_order in Er.
      apply Hdue in Ho. destruct Ho as [k [l [Hi [Hk Ho]]]]. exists k, l, o. repeat split; auto.
      rewrite (filed_expired tbl k l o t F Hi Ho). exact Hk.
    + intros k l o Hi Ho He. apply in_map_iff. exists o. rewrite eta_order. split; [reflexivity|].
      apply Hdue. exists k, l. repeat split; auto. rewrite <- (filed_expired tbl k l o t F Hi Ho). exact He.
    + apply fold_xpop in H. tauto.
    + apply fold_xpop in H. destruct H as [Hi Hn]. rewrite (filed_expired tbl k l o t F Hi H0).
      destruct (k <? t) eqn:Ek; [|reflexivity]. exfalso. apply Hn. cbn [fst]. apply in_map_iff. exists (k, l). split; [reflexivity|].
      apply filter_In. split; [exact Hi|exact Ek].
Qed.
Print Assumptions gen_due_is_strictly_older.
Print Assumptions gen_set_time_expires_exactly_the_overdue.

(* non-vacuity, with a jump of several steps: orders filed under 2 and 4 and one under 9; the clock set from 1 to 6 reports the first two
   (in filing order), removes them from the queue and keeps the third filed *)
Example gen_set_time_example :
  let o1 := mkO 0 7 0 true (Some (100#1)) 3 0 (Some 2) in
  let o2 := mkO 1 7 0 true (Some (99#1)) 3 1 (Some 3) in
  let o3 := mkO 2 7 0 true (Some (98#1)) 3 1 (Some 8) in
  let tbl := [(2, [o1]); (4, [o2]); (9, [o3])] in
  NoDup (map fst tbl) /\ filed_ok tbl /\ set_time_gen tbl [o1; o2; o3] 6 = ([RExpire o1 6; RExpire o2 6], [o3], [(9, [o3])]).
Proof.
  split; [cbn; repeat constructor; cbn; intuition lia|]. split; [|vm_compute; reflexivity].
  intros k l o Hi Ho. cbn in Hi. destruct Hi as [E|[E|[E|[]]]]; inversion E; subst; cbn in Ho; destruct Ho as [<-|[]]; cbn; eexists; split; reflexivity.
Qed.
