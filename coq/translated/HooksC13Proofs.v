(* Theorems about the GENERATED text of the hook table of Simulator (HooksGen.v, regenerated from /repo every run): registering hooks one
   after the other with _add_event and dispatching with any of the nine _trigger_event_* methods yields, for every time, first the hooks
   registered for every time and then the hooks whose time list contains that time, each exactly once, in registration order - which is the
   definition of the model's hooks_for (Sim.v), the function the C13 theorems are about. *)
Require Import Pams.Prelude Pams.Match Pams.Market Pams.OrderPy Pams.Sim Pams.HooksPy.
Require Import PamsGen.HooksGen.
From Coq Require Import Lia FinFun.
Open Scope Z_scope.

(* a hook: its identity and its time list (None = every time) *)
Definition hk := (Z * option (list Z))%type.
Definition keyin (k : option Z) (times : option (list Z)) : bool :=
  match k, times with None, None => true | Some t, Some l => memz t l | _, _ => false end.
Definition sel (k : option Z) (hs : list hk) : list Z := map fst (filter (fun h => keyin k (snd h)) hs).
Definition reg_all (hs : list hk) (tbl : etable) : etable := fold_left (fun tbl h => reg_gen tbl (fst h) (snd h)) hs tbl.

Lemma memz_in x l : memz x l = true <-> In x l.
Proof. unfold memz. rewrite existsb_exists. split; [intros [y [Hy E]]; apply Z.eqb_eq in E; subst; exact Hy|intros H; exists x; split; [exact H|apply Z.eqb_refl]]. Qed.
Lemma memz_app x a b : memz x (a ++ b) = memz x a || memz x b.
Proof. unfold memz. apply existsb_app. Qed.
Lemma memz_snoc t l x : memz t (l ++ [x]) = memz t l || (t =? x).
Proof. rewrite memz_app. unfold memz at 2. simpl. rewrite orb_false_r. reflexivity. Qed.

(* one turn of the registration loop at key k *)
Lemma step_slot hook tbl k k' :
  tslot k' (reg_step_gen hook tbl k) =
  if okeqb k k' then (if memz hook (tslot k tbl) then tslot k tbl else tslot k tbl ++ [hook]) else tslot k' tbl.
Proof.
  unfold reg_step_gen.
  set (t1 := if negb (thas k tbl) then tset k [] tbl else tbl).
  assert (S1 : forall q, tslot q t1 = tslot q tbl).
  { intros q. unfold t1. destruct (thas k tbl) eqn:H; simpl; [reflexivity|].
    destruct (okeqb k q) eqn:E.
    - apply okeqb_eq in E. subst q. rewrite tslot_tset_same. unfold thas in H. unfold tslot. destruct (tget k tbl); [discriminate|reflexivity].
    - apply tslot_tset_other. apply okeqb_neq. exact E. }
  rewrite (S1 k). destruct (memz hook (tslot k tbl)) eqn:M; simpl.
  - rewrite S1. destruct (okeqb k k') eqn:E; [apply okeqb_eq in E; subst; reflexivity|reflexivity].
  - destruct (okeqb k k') eqn:E.
    + apply okeqb_eq in E. subst k'. apply tslot_tset_same.
    + rewrite tslot_tset_other by (apply okeqb_neq; exact E). apply S1.
Qed.

(* the whole loop for one hook that is not in the table yet: it is appended exactly to the slots of its times *)
Lemma reg_slot hook times : forall tbl, (forall k, memz hook (tslot k tbl) = false) ->
  forall k, tslot k (reg_gen tbl hook times) = tslot k tbl ++ (if keyin k times then [hook] else []).
Proof.
  intros tbl Fresh k. unfold reg_gen, reg_times_gen. destruct times as [l|].
  - (* a time list, possibly with repeated entries *)
    assert (H : forall (l done : list Z) tbl0,
              (forall q, tslot q tbl0 = tslot q tbl ++ (if match q with Some t => memz t done | None => false end then [hook] else [])) ->
              forall q, tslot q (fold_left (reg_step_gen hook) (map Some l) tbl0) =
                        tslot q tbl ++ (if match q with Some t => memz t (done ++ l) | None => false end then [hook] else [])).
    { induction l0 as [|x r IH]; intros done tbl0 Inv q; simpl; [rewrite app_nil_r; apply Inv|].
      replace (done ++ x :: r) with ((done ++ [x]) ++ r) by (rewrite <- app_assoc; reflexivity). apply IH. intros q'.
      rewrite step_slot. destruct (okeqb (Some x) q') eqn:E.
      - apply okeqb_eq in E. subst q'. rewrite (Inv (Some x)), memz_snoc, Z.eqb_refl, orb_true_r.
        destruct (memz x done) eqn:Md.
        + rewrite memz_app. replace (memz hook [hook]) with true by (unfold memz; simpl; rewrite Z.eqb_refl; reflexivity).
          rewrite orb_true_r. reflexivity.
        + rewrite app_nil_r, Fresh. reflexivity.
      - rewrite (Inv q'). destruct q' as [t|]; [|reflexivity]. rewrite memz_snoc.
        assert (Ht : (t =? x) = false). { apply Z.eqb_neq. intros C. subst. simpl in E. rewrite Z.eqb_refl in E. discriminate. }
        rewrite Ht, orb_false_r. reflexivity. }
    rewrite (H l [] tbl); [destruct k; reflexivity|]. intros q. destruct q; simpl; rewrite app_nil_r; reflexivity.
  - (* no time list: the slot None *)
    simpl. rewrite step_slot. destruct (okeqb None k) eqn:E.
    + apply okeqb_eq in E. subst k. rewrite Fresh. reflexivity.
    + destruct k; [rewrite app_nil_r; reflexivity|discriminate].
Qed.

Lemma sel_app k a b : sel k (a ++ b) = sel k a ++ sel k b.
Proof. unfold sel. rewrite filter_app, map_app. reflexivity. Qed.

(* every slot of the table built by registering hs (distinct identities) into an empty table is the selection of hs by that key *)
Theorem registration_builds_the_selection : forall hs, NoDup (map fst hs) ->
  forall k, tslot k (reg_all hs []) = sel k hs.
Proof.
  intros hs N.
  assert (G : forall rest done tbl, NoDup (map fst (done ++ rest)) -> (forall k, tslot k tbl = sel k done) ->
              forall k, tslot k (reg_all rest tbl) = sel k (done ++ rest)).
  { induction rest as [|h r IH]; intros done tbl Nd Inv k; simpl; [rewrite app_nil_r; apply Inv|].
    replace (done ++ h :: r) with ((done ++ [h]) ++ r) by (rewrite <- app_assoc; reflexivity). apply IH.
    - rewrite <- app_assoc. exact Nd.
    - intros q. rewrite reg_slot.
      + rewrite Inv, sel_app. unfold sel at 3. simpl. destruct (keyin q (snd h)); reflexivity.
      + intros q'. rewrite Inv. destruct (memz (fst h) (sel q' done)) eqn:M; auto. exfalso. apply memz_in in M.
        unfold sel in M. apply in_map_iff in M. destruct M as [h' [Ef Hf]]. apply filter_In in Hf. destruct Hf as [Hin _].
        rewrite map_app in Nd. apply NoDup_remove_2 in Nd. apply Nd. simpl. apply in_app_iff. left. rewrite <- Ef. apply in_map. exact Hin. }
  intros k. apply (G hs [] [] N). intros q. reflexivity.
Qed.
Print Assumptions registration_builds_the_selection.

(* dispatch: always-hooks first, then the hooks of this time - for all nine trigger methods *)
Theorem dispatch_is_hooks_for : forall hs t, NoDup (map fst hs) ->
  let tbl := reg_all hs [] in
  let expected := sel None hs ++ sel (Some t) hs in
  disp_before_order_gen tbl t = expected /\ disp_after_order_gen tbl t = expected /\
  disp_before_cancel_gen tbl t = expected /\ disp_after_cancel_gen tbl t = expected /\
  disp_after_execution_gen tbl t = expected /\
  disp_before_session_gen tbl t = expected /\ disp_after_session_gen tbl t = expected /\
  disp_before_step_for_market_gen tbl t = expected /\ disp_after_step_for_market_gen tbl t = expected.
Proof.
  intros hs t N tbl expected. unfold expected, tbl.
  unfold disp_before_order_gen, disp_after_order_gen, disp_before_cancel_gen, disp_after_cancel_gen, disp_after_execution_gen,
    disp_before_session_gen, disp_after_session_gen, disp_before_step_for_market_gen, disp_after_step_for_market_gen.
  rewrite !tsel_tslot, !(registration_builds_the_selection hs N). repeat split.
Qed.
Print Assumptions dispatch_is_hooks_for.

(* ... and that is the model's hooks_for: number the hooks of kind k / phase `before` of the model's table 0, 1, 2, ... in registration
   order, register them with the generated _add_event and dispatch with the generated _trigger: the hooks named are hooks_for s k before t *)
Lemma map_fst_combine_local {A B} (l : list A) (l' : list B) : length l = length l' -> map fst (combine l l') = l.
Proof. revert l'. induction l as [|a r IH]; intros [|b r'] H; simpl in *; try discriminate; auto. f_equal. apply IH. lia. Qed.
Lemma filter_filter_local {A} (f g : A -> bool) l : filter f (filter g l) = filter (fun x => g x && f x) l.
Proof. induction l as [|a r IH]; simpl; auto. destruct (g a); simpl; [destruct (f a); simpl; rewrite IH; reflexivity|exact IH]. Qed.

Lemma sel_numbered (P : hook -> bool) (k : option Z) : forall (hl : list hook) (n : nat),
  (forall h, keyin k (h_times h) = P h) ->
  map (fun i => nth (Z.to_nat i - n) hl (mkH 0 HOrder true None None false))
      (sel k (combine (map Z.of_nat (seq n (length hl))) (map h_times hl))) = filter P hl.
Proof.
  intros hl. induction hl as [|h r IH]; intros n HP; [reflexivity|]. simpl. unfold sel. simpl. rewrite (HP h).
  assert (R : map (fun i : Z => nth (Z.to_nat i - n) (h :: r) (mkH 0 HOrder true None None false))
                (map fst (filter (fun x => keyin k (snd x)) (combine (map Z.of_nat (seq (S n) (length r))) (map h_times r)))) = filter P r).
  { rewrite <- (IH (S n) HP). unfold sel. apply map_ext_in. intros i Hi.
    apply in_map_iff in Hi. destruct Hi as [[i0 tm] [<- Hx]]. apply filter_In in Hx. destruct Hx as [Hx _]. apply in_combine_l in Hx. simpl.
    apply in_map_iff in Hx. destruct Hx as [j [<- Hj]]. apply in_seq in Hj. rewrite Nat2Z.id.
    replace (j - n)%nat with (S (j - S n)) by lia. reflexivity. }
  destruct (P h); simpl; [rewrite Nat2Z.id, Nat.sub_diag; simpl; f_equal; exact R|exact R].
Qed.

Theorem generated_dispatch_is_the_models_hooks_for : forall s k before t,
  let hl := filter (hook_matches k before) (s_hooks s) in
  let hs := combine (map Z.of_nat (seq 0 (length hl))) (map h_times hl) in
  map (fun i => nth (Z.to_nat i) hl (mkH 0 HOrder true None None false)) (disp_before_order_gen (reg_all hs []) t) = hooks_for s k before t.
Proof.
  intros s k before t hl hs.
  assert (N : NoDup (map fst hs)).
  { unfold hs. rewrite map_fst_combine_local by (rewrite !map_length, seq_length; reflexivity). apply Injective_map_NoDup; [intros a b E; lia|apply seq_NoDup]. }
  destruct (dispatch_is_hooks_for hs t N) as [-> _]. rewrite map_app.
  pose proof (sel_numbered (fun h => match h_times h with None => true | Some _ => false end) None hl 0) as A.
  pose proof (sel_numbered (fun h => match h_times h with None => false | Some l => Sim.memz t l end) (Some t) hl 0) as B.
  fold hs in A, B.
  assert (E0 : forall i, (Z.to_nat i - 0 = Z.to_nat i)%nat) by (intros; lia).
  rewrite (map_ext _ _ (fun i => f_equal (fun j => nth j hl _) (E0 i))) in A, B.
  rewrite A, B; [|intros h; destruct (h_times h); reflexivity|intros h; destruct (h_times h); reflexivity].
  unfold hooks_for, hl. rewrite !filter_filter_local. reflexivity.
Qed.
Print Assumptions generated_dispatch_is_the_models_hooks_for.

(* a time entry repeated in a hook's list registers it once (the repair F3 of this property) *)
Example gen_hooks_example :
  let tbl := reg_all [(1, Some [2; 2; 3]); (2, None); (3, Some [3]); (4, None)] [] in
  disp_before_order_gen tbl 2 = [2; 4; 1] /\ disp_after_session_gen tbl 3 = [2; 4; 1; 3] /\ disp_before_step_for_market_gen tbl 9 = [2; 4].
Proof. vm_compute. repeat split. Qed.
