(* Theorems about the GENERATED arithmetic kernels (ArithGen.v, regenerated from /repo on every run: only the units of this
   property are generated).  Compiled by the check after regeneration; not part of the static build. *)
Require Import Pams.Prelude Pams.Tick Pams.Match Pams.Market Pams.OrderPy Pams.Sim.
From Coq Require Import QArith Qround Lia.
Require Import PamsGen.ArithGen.
Open Scope Z_scope.

(* C03: the decision "has this round anything to do" of the source is the model's [executable_b], when the quantities it reads
   from the two books are the model's: emptiness, the best orders' prices, the market-order volumes (price key None of
   get_price_volume), the numbers of limit price levels, the lowest ask level and the highest bid level *)
Definition qdef (x : option Q) : Q := match x with Some v => v | None => 0#1 end.
Theorem gen_executable_is_model buys sells :
  executable_gen (match sells with [] => true | _ => false end) (match buys with [] => true | _ => false end)
                 (best_price sells) (best_price buys) false
                 (market_volume sells) (market_volume buys)
                 (Z.of_nat (length (levels sells))) (Z.of_nat (length (levels buys)))
                 (qdef (qmin_list (levels sells))) (qdef (qmax_list (levels buys)))
  = POk (executable_b buys sells).
Proof.
  unfold executable_gen, executable_b, best_price.
  destruct sells as [|s sr]; [reflexivity|]. destruct buys as [|b br]; [reflexivity|].
  destruct (price s) as [ps|] eqn:Ps, (price b) as [pb|] eqn:Pb; cbn [negb orb andb oq_le]; try reflexivity.
  set (sm := market_volume (s :: sr)). set (bm := market_volume (b :: br)).
  set (sl := levels (s :: sr)). set (bl := levels (b :: br)).
  (* the three cases of the two market-order volumes, whatever the order in which the source tests them *)
  destruct (sm <? bm) eqn:E1; destruct (sm =? bm) eqn:E; cbn [negb];
    try (exfalso; apply Z.ltb_lt in E1; apply Z.eqb_eq in E; lia);
    [cbn zeta; f_equal; rewrite ?Z.geb_leb; reflexivity| |cbn zeta; f_equal; rewrite ?Z.geb_leb; reflexivity].
  - (* equal market volumes: a lowest ask level and a highest bid level must exist and cross *)
    assert (Ls : (Z.of_nat (length sl) =? 0) = match sl with [] => true | _ => false end) by (destruct sl; reflexivity).
    assert (Lb : (Z.of_nat (length bl) =? 0) = match bl with [] => true | _ => false end) by (destruct bl; reflexivity).
    rewrite Ls, Lb.
    destruct sl as [|x xs] eqn:Esl.
    + simpl. reflexivity.
    + destruct bl as [|y ys] eqn:Ebl.
      * simpl. destruct (qmin_list xs); reflexivity.
      * cbn [orb].
        assert (exists a, qmin_list (x :: xs) = Some a) as [a Ha] by (simpl; destruct (qmin_list xs); eauto).
        assert (exists c, qmax_list (y :: ys) = Some c) as [c Hc] by (simpl; destruct (qmax_list ys); eauto).
        rewrite Ha, Hc. reflexivity.
Qed.

(* with a limit order at the head of either book nothing but the two best prices matters, and two limit prices are comparable *)
Theorem gen_executable_never_raises_on_books buys sells : exists v,
  executable_gen (match sells with [] => true | _ => false end) (match buys with [] => true | _ => false end)
                 (best_price sells) (best_price buys) false
                 (market_volume sells) (market_volume buys)
                 (Z.of_nat (length (levels sells))) (Z.of_nat (length (levels buys)))
                 (qdef (qmin_list (levels sells))) (qdef (qmax_list (levels buys))) = POk v.
Proof. eexists. apply gen_executable_is_model. Qed.

Example arith_c03_nonvacuous :
  let mk i b p v := mkO i 0 0 b p v 0 None in
  executable_b [mk 1 true (Some (100#1)) 1] [mk 2 false (Some (100#1)) 1] = true /\
  executable_b [mk 1 true (Some (99#1)) 1] [mk 2 false (Some (100#1)) 1] = false /\
  executable_b [mk 1 true None 2; mk 3 true (Some (90#1)) 1] [mk 2 false None 2; mk 4 false (Some (95#1)) 1] = false.
Proof. vm_compute. repeat split. Qed.

Print Assumptions gen_executable_is_model.
Print Assumptions gen_executable_never_raises_on_books.
