(* Theorems about the GENERATED arithmetic kernels (ArithGen.v, regenerated from /repo on every run: only the units of this
   property are generated).  Compiled by the check after regeneration; not part of the static build. *)
Require Import Pams.Prelude Pams.Tick Pams.Match Pams.Market Pams.OrderPy Pams.Sim.
From Coq Require Import QArith Qround.
Require Import PamsGen.ArithGen.
Open Scope Z_scope.

(* C19: the tick level of the source is the model's (floor for buys, ceiling for sells), and the price of a level is
   level x tick - hence the source's rounded price is the model's round_price on off-grid prices *)
Theorem gen_tick_level_is_model tick buy p : tick_level_gen p buy tick = POk (tick_level tick buy p).
Proof.
  unfold tick_level_gen, tick_lower_gen, tick_upper_gen, tick_level, qdiv.
  destruct buy; cbn [negb]; f_equal; first [apply Qfloor_comp|apply Qceiling_comp]; apply Qred_correct.
Qed.

Theorem gen_to_price_is_model tick k : exists q, to_price_gen k tick = POk q /\ Qeq q (qmul (inject_Z k) tick).
Proof. eexists. split; [reflexivity|]. unfold qmul. rewrite !Qred_correct. ring. Qed.

Theorem gen_rounding_is_model tick buy p : on_grid tick p = false ->
  exists k q, tick_level_gen p buy tick = POk k /\ to_price_gen k tick = POk q /\ Qeq q (round_price tick buy p).
Proof.
  intros G. exists (tick_level tick buy p). eexists. split; [apply gen_tick_level_is_model|]. split; [reflexivity|].
  unfold round_price. rewrite G. unfold qmul. rewrite !Qred_correct. ring.
Qed.

Example arith_c19_nonvacuous :
  tick_level_gen (201#2) true (1#1) = POk 100 /\ tick_level_gen (201#2) false (1#1) = POk 101.
Proof. vm_compute. split; reflexivity. Qed.

Print Assumptions gen_tick_level_is_model.
Print Assumptions gen_to_price_is_model.
Print Assumptions gen_rounding_is_model.
