(* Theorems about the GENERATED text of Fundamentals.set_correlation / remove_correlation (CorrGen.v, regenerated from /repo every run):
   the table, keyed by ordered pairs, behaves as a map on UNORDERED pairs - what is set for (a, b) is what is read for (a, b) and for (b, a),
   whichever way round earlier calls named the pair; removing it removes it for both; nothing else changes; no pair is ever stored twice. *)
Require Import Pams.Prelude Pams.Match Pams.Market Pams.OrderPy Pams.FundCorr.
Require Import PamsGen.CorrGen.
From Coq Require Import QArith Lia.
Open Scope Z_scope.

Lemma pair_ne (a b : Z) : a <> b -> (a, b) <> (b, a).
Proof. intros N C. inversion C. contradiction. Qed.

Lemma same_pair_spec (x y a b : Z) : same_pair x y a b = true <-> (x = a /\ y = b) \/ (x = b /\ y = a).
Proof. unfold same_pair. rewrite orb_true_iff, !andb_true_iff, !Z.eqb_eq. tauto. Qed.

(* storing under a key whose mirror image is absent keeps the canonical form and updates exactly that unordered pair *)
Lemma store_spec d a b c : canon_full d -> a <> b -> chas (b, a) d = false ->
  canon_full (cset (a, b) c d) /\
  forall x y, pair_corr (cset (a, b) c d) x y = if same_pair x y a b then Some c else pair_corr d x y.
Proof.
  intros [N C] Nab Hm. split; [split|].
  - apply nodup_cset. exact N.
  - intros p q H1 H2. rewrite chas_cset in H1, H2. apply orb_true_iff in H1, H2.
    destruct H1 as [H1|H1], H2 as [H2|H2].
    + apply keqb_eq in H1, H2. inversion H1; inversion H2; subst. congruence.
    + apply keqb_eq in H1. inversion H1; subst. congruence.
    + apply keqb_eq in H2. inversion H2; subst. congruence.
    + apply C; assumption.
  - intros x y. unfold pair_corr. destruct (same_pair x y a b) eqn:S.
    + apply same_pair_spec in S. destruct S as [[-> ->]|[-> ->]].
      * rewrite cget_cset_same. reflexivity.
      * rewrite (cget_cset_other (a, b) (b, a)) by (apply pair_ne; exact Nab). apply chas_cget in Hm. rewrite Hm, cget_cset_same. reflexivity.
    + assert (K1 : (a, b) <> (x, y)) by (intros E; inversion E; subst; rewrite (proj2 (same_pair_spec x y x y)) in S; [discriminate|auto]).
      assert (K2 : (a, b) <> (y, x)) by (intros E; inversion E; subst; rewrite (proj2 (same_pair_spec x y y x)) in S; [discriminate|auto]).
      rewrite !cget_cset_other by assumption. reflexivity.
Qed.

Theorem gen_set_correlation_spec : forall d u a b c t d' u', canon_full d ->
  set_correlation_gen d u a b c t = POk (d', u') ->
  a <> b /\ u' = t /\ canon_full d' /\
  forall x y, pair_corr d' x y = if same_pair x y a b then Some c else pair_corr d x y.
Proof.
  intros d u a b c t d' u' Cd. unfold set_correlation_gen.
  destruct (negb _); [discriminate|]. destruct (a =? b) eqn:Eab; [discriminate|]. apply Z.eqb_neq in Eab.
  destruct (chas (b, a) d) eqn:Hba; intros H; inversion H; subst; clear H; split; auto; split; auto.
  - (* the pair is stored the other way round: that entry is overwritten *)
    assert (Hab : chas (a, b) d = false).
    { destruct (chas (a, b) d) eqn:E; auto. destruct Cd as [_ C]. exfalso. apply Eab. apply C; assumption. }
    destruct (store_spec d b a c Cd (fun E => Eab (eq_sym E)) Hab) as [C' P]. split; [exact C'|].
    intros x y. rewrite P. replace (same_pair x y b a) with (same_pair x y a b); [reflexivity|].
    unfold same_pair. apply orb_comm.
  - apply store_spec; assumption.
Qed.
Print Assumptions gen_set_correlation_spec.

Theorem gen_set_correlation_accepts : forall d u a b c t, (-1 < c)%Q -> (c < 1)%Q -> a <> b ->
  exists d', set_correlation_gen d u a b c t = POk (d', t).
Proof.
  intros d u a b c t L1 L2 N. unfold set_correlation_gen.
  assert (G1 : qltb (Qopp (1 # 1)) c = true).
  { unfold qltb. apply negb_true_iff. destruct (Qle_bool c (- (1 # 1))) eqn:E; auto. apply Qle_bool_iff in E. exfalso. apply (Qlt_not_le _ _ L1). exact E. }
  assert (G2 : qltb c (1 # 1) = true).
  { unfold qltb. apply negb_true_iff. destruct (Qle_bool (1 # 1) c) eqn:E; auto. apply Qle_bool_iff in E. exfalso. apply (Qlt_not_le _ _ L2). exact E. }
  rewrite G1, G2. cbn [andb negb]. rewrite (proj2 (Z.eqb_neq a b) N). destruct (chas (b, a) d); eauto.
Qed.
Print Assumptions gen_set_correlation_accepts.

Lemma drop_spec d a b : canon_full d -> a <> b -> chas (a, b) d = true ->
  canon_full (cdel (a, b) d) /\
  forall x y, pair_corr (cdel (a, b) d) x y = if same_pair x y a b then None else pair_corr d x y.
Proof.
  intros [N C] Nab Hab. assert (Hba : chas (b, a) d = false).
  { destruct (chas (b, a) d) eqn:E; auto. exfalso. apply Nab. apply C; assumption. }
  split; [split|].
  - apply nodup_cdel. exact N.
  - intros p q H1 H2. rewrite chas_cdel in H1, H2 by exact N. apply andb_true_iff in H1, H2. apply C; tauto.
  - intros x y. unfold pair_corr.
    assert (G : forall k, cget k (cdel (a, b) d) = if keqb (a, b) k then None else cget k d).
    { intros k. destruct (keqb (a, b) k) eqn:E.
      - apply keqb_eq in E. subst k. apply chas_cget. rewrite chas_cdel by exact N. rewrite keqb_refl. reflexivity.
      - apply cget_cdel_other. apply keqb_neq. exact E. }
    rewrite !G. destruct (same_pair x y a b) eqn:S.
    + apply same_pair_spec in S. destruct S as [[-> ->]|[-> ->]].
      * rewrite keqb_refl. assert (keqb (a, b) (b, a) = false) by (apply keqb_neq, pair_ne; exact Nab). rewrite H.
        apply chas_cget in Hba. exact Hba.
      * assert (keqb (a, b) (b, a) = false) by (apply keqb_neq, pair_ne; exact Nab). rewrite H, keqb_refl.
        apply chas_cget in Hba. rewrite Hba. reflexivity.
    + assert (K1 : keqb (a, b) (x, y) = false) by (apply keqb_neq; intros E; inversion E; subst; rewrite (proj2 (same_pair_spec x y x y)) in S; [discriminate|auto]).
      assert (K2 : keqb (a, b) (y, x) = false) by (apply keqb_neq; intros E; inversion E; subst; rewrite (proj2 (same_pair_spec x y y x)) in S; [discriminate|auto]).
      rewrite K1, K2. reflexivity.
Qed.

Theorem gen_remove_correlation_spec : forall d u a b t d' u', canon_full d ->
  remove_correlation_gen d u a b t = POk (d', u') ->
  a <> b /\ u' = t /\ canon_full d' /\ pair_corr d a b <> None /\
  forall x y, pair_corr d' x y = if same_pair x y a b then None else pair_corr d x y.
Proof.
  intros d u a b t d' u' Cd. unfold remove_correlation_gen, pbindc, cpop.
  destruct (a =? b) eqn:Eab; [discriminate|]. apply Z.eqb_neq in Eab.
  destruct (chas (b, a) d) eqn:Hba.
  - intros H; inversion H; subst; clear H. split; auto. split; auto.
    destruct (drop_spec d b a Cd (fun E => Eab (eq_sym E)) Hba) as [C' P]. split; [exact C'|]. split.
    + unfold pair_corr. destruct (cget (a, b) d); [discriminate|]. intros E. apply chas_cget in E. congruence.
    + intros x y. rewrite P. replace (same_pair x y b a) with (same_pair x y a b); [reflexivity|]. unfold same_pair. apply orb_comm.
  - destruct (chas (a, b) d) eqn:Hab; [|discriminate]. intros H; inversion H; subst; clear H. split; auto. split; auto.
    destruct (drop_spec d a b Cd Eab Hab) as [C' P]. split; [exact C'|]. split; [|exact P].
    unfold pair_corr. intros E. destruct (cget (a, b) d) eqn:G; [discriminate|]. apply chas_cget in G. congruence.
Qed.
Print Assumptions gen_remove_correlation_spec.

Theorem gen_remove_missing_raises : forall d u a b t, a <> b -> pair_corr d a b = None ->
  remove_correlation_gen d u a b t = PErr PyKeyError.
Proof.
  intros d u a b t N P. unfold remove_correlation_gen, pbindc, cpop. rewrite (proj2 (Z.eqb_neq a b) N).
  unfold pair_corr in P. destruct (cget (a, b) d) eqn:G1; [discriminate|]. apply chas_cget in G1. apply chas_cget in P.
  rewrite P, G1. reflexivity.
Qed.
Print Assumptions gen_remove_missing_raises.

(* the history of the third seeded change of this property: name the pair both ways round *)
Example gen_corr_example :
  let step d op := match op with
                   | (a, b, Some c) => match set_correlation_gen d 0 a b c 0 with POk (d', _) => d' | PErr _ => d end
                   | (a, b, None) => match remove_correlation_gen d 0 a b 0 with POk (d', _) => d' | PErr _ => d end
                   end in
  let d := fold_left step [(1, 2, Some (9#10)); (2, 1, Some (-1#2)); (1, 2, Some (3#10)); (2, 3, Some (8#10)); (3, 2, Some (6#10))] [] in
  pair_corr d 1 2 = Some (3#10) /\ pair_corr d 2 1 = Some (3#10) /\ pair_corr d 3 2 = Some (6#10) /\ length d = 2%nat /\
  pair_corr (step d (2, 3, None)) 3 2 = None /\ set_correlation_gen d 0 1 1 (1#2) 0 = PErr PyValueError /\
  set_correlation_gen d 0 1 2 (1#1) 0 = PErr PyValueError.
Proof. vm_compute. repeat split. Qed.
