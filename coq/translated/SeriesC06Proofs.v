(* Theorems about the GENERATED text of Market._fill_until (SeriesGen.v, regenerated from /repo every run). *)
Require Import Pams.Prelude Pams.Match Pams.Market.
Require Import PamsGen.SeriesGen.
From Coq Require Import Lia.
From RecordUpdate Require Import RecordSet.
Import RecordSetNotations.
Open Scope Z_scope.

Lemma pad_as_repeat {A} (l : list A) (len : Z) (d : A) (k : nat) : k = length l ->
  l ++ repeat d (Z.to_nat (len - Z.of_nat k)) = pad l (Z.to_nat len) d.
Proof. intros ->. unfold pad. f_equal. f_equal. lia. Qed.

(* the storage grows exactly as in the model: when the requested time is beyond what is allocated, EVERY one of the eight series is
   extended - from ITSELF - to the next multiple of the chunk size with its own padding value, and nothing that was recorded moves *)
Theorem gen_fill_until_is_model : forall m t, fill_until_gen m t chunk = fill_until m t.
Proof.
  intros m t. unfold fill_until_gen, fill_until. destruct (Z.of_nat (length (m_mid m)) >=? t + 1); [reflexivity|].
  cbv zeta. cbn [m_mp m_mid m_last m_fund m_vol m_turn m_nbuy m_nsell set].
  rewrite !(pad_as_repeat _ _ _ _ eq_refl). reflexivity.
Qed.
Print Assumptions gen_fill_until_is_model.

Example gen_fill_until_example :
  let m := init_market 0 (1#1) (100#1) in
  length (m_nsell (fill_until_gen m 0 100)) = 100%nat /\ length (m_mp (fill_until_gen m 100 100)) = 200%nat /\
  fill_until_gen (fill_until_gen m 0 100) 99 100 = fill_until_gen m 0 100.
Proof. vm_compute. repeat split. Qed.
