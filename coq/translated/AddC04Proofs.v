(* Theorems about the GENERATED text of Market._add_order (AddGen.v, regenerated from /repo every run). *)
Require Import Pams.Prelude Pams.Tick Pams.Match Pams.Market Pams.MarketInv Pams.OrderPy Pams.AddPy.
Require Import PamsGen.AddGen.
From Coq Require Import Lia.
From RecordUpdate Require Import RecordSet.
Import RecordSetNotations.
Open Scope Z_scope.

Ltac red_add := cbv -[Z.add Z.sub Z.opp Z.leb Z.ltb Z.eqb upd getz getq geto zi qadd qmul qofz update_market_price negb is_none
                      insert round_price on_grid tick_level inject_Z].

Theorem gen_add_order_is_add_order : forall m ag mk buy p v ttl, 0 <= m_time m ->
  add_order_gen m ag mk buy p v ttl None None = add_order m ag mk buy p v ttl.
Proof.
  intros m ag mk buy p v ttl Ht. unfold add_order_gen, add_order.
  destruct (m_time m <? 0) eqn:E; [lia|]. clear E Ht.
  destruct m as [id tk t run nx bs ss mp la mi fu vo tu nb ns go].
  destruct buy; (destruct p as [x|]; red_add; [unfold round_price; destruct (on_grid tk x); cbn [negb]|]); rewrite ?Z.eqb_refl;
    (destruct (mk =? id); [|reflexivity]); cbn [negb is_none];
    match goal with |- context [update_market_price ?a] => pose proof (ump_time a) as Hu; revert Hu; generalize (update_market_price a) end;
    intros [id' tk' t' run' nx' bs' ss' mp' la' mi' fu' vo' tu' nb' ns' go'] Hu; cbn [m_time] in Hu; subst t'; reflexivity.
Qed.
Print Assumptions gen_add_order_is_add_order.

(* non-vacuity: a buy at 100.4 on a market with tick 1 at time 0 is accepted as order 0 at 100, counted as a buy order of the step, rests
   in the book and is the record reported; an order of another market is refused and changes nothing *)
Example gen_add_order_example :
  let m := fst (tick (init_market 0 (1#1) (100#1)) (100#1)) in
  match add_order_gen m 7 0 true (Some (502#5)) 3 None None None with
  | Ok (m', ROrder o) => oid o = 0 /\ Qeq_bool (match price o with Some x => x | None => 0#1 end) (100#1) = true /\ placed o = 0 /\
                         m_buys m' = [o] /\ getz (m_nbuy m') 0 = 1 /\ m_next m' = 1
  | _ => False
  end /\ add_order_gen m 7 5 true (Some (100#1)) 3 None None None = Err ENotThisMarket.
Proof. vm_compute. repeat split. Qed.
