(* Theorems about the GENERATED text of pams.logs.base.Logger (LoggerGen.v, regenerated from /repo every run): whatever is written -
   one record at a time or in bulk, queued or processed directly - reaches the handler of its own class exactly once, in the order it
   was written, and flushing empties the queue. *)
Require Import Pams.Prelude Pams.Match Pams.Market Pams.OrderPy Pams.LoggerPy.
Require Import PamsGen.LoggerGen.
Open Scope Z_scope.

Definition handler_of (k : logkind) : handler :=
  match k with
  | KOrderLog => H_process_order_log | KCancelLog => H_process_cancel_log | KExpirationLog => H_process_expiration_log
  | KExecutionLog => H_process_execution_log | KSimulationBeginLog => H_process_simulation_begin_log
  | KSimulationEndLog => H_process_simulation_end_log | KSessionBeginLog => H_process_session_begin_log
  | KSessionEndLog => H_process_session_end_log | KMarketStepBeginLog => H_process_market_step_begin_log
  | KMarketStepEndLog => H_process_market_step_end_log
  end.

(* every class has its handler, none is refused *)
Theorem gen_dispatch_total : forall log, dispatch_gen log = POk (handler_of (fst log), snd log).
Proof. intros [[] p]; reflexivity. Qed.
Print Assumptions gen_dispatch_total.

(* processing a list delivers every record to the handler of its class, in order, each once *)
Theorem gen_process_delivers_in_order : forall logs, process_gen logs = POk (map (fun l => (handler_of (fst l), snd l)) logs).
Proof. induction logs as [|l r IH]; simpl; [reflexivity|]. rewrite gen_dispatch_total, IH. reflexivity. Qed.
Print Assumptions gen_process_delivers_in_order.

(* the queue discipline: a script of writes, bulk writes, direct writes and flushes *)
Inductive lop := LWrite (l : logkind * Z) | LBulk (ls : list (logkind * Z)) | LDirect (l : logkind * Z) | LFlush.
Definition lstep (st : list (handler * Z) * list (logkind * Z)) (o : lop) : list (handler * Z) * list (logkind * Z) :=
  let '(out, pending) := st in
  match o with
  | LWrite l => (out, write_gen pending l)
  | LBulk ls => (out, bulk_write_gen pending ls)
  | LDirect l => (out ++ match direct_gen l with POk c => c | PErr _ => [] end, pending)
  | LFlush => let '(r, p) := flush_gen pending in (out ++ match r with POk c => c | PErr _ => [] end, p)
  end.
(* the records of a script that were queued (not written directly), in the order written *)
Fixpoint queued (ops : list lop) : list (logkind * Z) :=
  match ops with [] => [] | LWrite l :: r => l :: queued r | LBulk ls :: r => ls ++ queued r | _ :: r => queued r end.

(* with queued writes only, followed by one flush: delivered = written, same order, each once, to the handler of its class *)
Theorem gen_flush_delivers_what_was_written : forall ops, (forall o, In o ops -> match o with LWrite _ | LBulk _ => True | _ => False end) ->
  fold_left lstep (ops ++ [LFlush]) ([], []) = (map (fun l => (handler_of (fst l), snd l)) (queued ops), []).
Proof.
  intros ops H.
  assert (G : forall ops pending, (forall o, In o ops -> match o with LWrite _ | LBulk _ => True | _ => False end) ->
              fold_left lstep ops ([], pending) = ([], pending ++ queued ops)).
  { induction ops0 as [|o r IH]; intros pending Ho; simpl; [rewrite app_nil_r; reflexivity|].
    assert (Hr : forall o', In o' r -> match o' with LWrite _ | LBulk _ => True | _ => False end) by (intros; apply Ho; right; assumption).
    specialize (Ho o (or_introl eq_refl)). destruct o; try contradiction; simpl.
    - unfold write_gen. rewrite IH by exact Hr. rewrite <- app_assoc. reflexivity.
    - unfold bulk_write_gen. rewrite IH by exact Hr. rewrite <- app_assoc. reflexivity. }
  rewrite fold_left_app, (G ops [] H). simpl. rewrite gen_process_delivers_in_order. reflexivity.
Qed.
Print Assumptions gen_flush_delivers_what_was_written.

Example gen_logger_example :
  fold_left lstep [LWrite (KOrderLog, 1); LBulk [(KExecutionLog, 2); (KExecutionLog, 3)]; LDirect (KSessionBeginLog, 9); LWrite (KCancelLog, 4); LFlush] ([], []) =
  ([(H_process_session_begin_log, 9); (H_process_order_log, 1); (H_process_execution_log, 2); (H_process_execution_log, 3); (H_process_cancel_log, 4)], []).
Proof. vm_compute. reflexivity. Qed.
