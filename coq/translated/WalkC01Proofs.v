(* Theorems about the GENERATED text of the walk of Market._execution (WalkGen.v, regenerated from /repo every run): the loop of the
   source, iterated, is the model's Match.walk. *)
Require Import Pams.Prelude Pams.Match Pams.Market Pams.OrderPy Pams.WalkPy.
Require Import PamsGen.WalkGen.
From Coq Require Import Lia.
Open Scope Z_scope.

(* the model's cursors read off the loop state *)
Definition cur_b (w : wst) : option (O * Z) := Some (w_b w, w_bt w).
Definition cur_s (w : wst) : option (O * Z) := match w_s w with Some s => Some (s, w_st w) | None => None end.
Definition mwalk (f : nat) (w : wst) : option Q * list fillq :=
  walk Q qltb f (cur_b w) (cur_s w) (w_bq w) (w_sq w) (w_p w) (w_pend w).

Definition pos (o : O) : Prop := 0 < vol o.
Definition inv (w : wst) : Prop :=
  0 <= w_bt w /\ 0 <= w_st w /\ (w_bt w = 0 \/ w_st w = 0) /\ Forall pos (w_bq w) /\ Forall pos (w_sq w) /\ (w_s w = None -> w_st w = 0).

Definition step_rel (f : nat) (w : wst) (r : result (bool * wst)) : Prop :=
  match r with
  | Err _ => False
  | Ok (false, w') => mwalk (S f) w = (w_p w', w_pend w')
  | Ok (true, w') => inv w' /\ mwalk (S f) w = mwalk f w'
  end.

Ltac zb :=
  repeat match goal with
  | H : (_ =? _) = true |- _ => apply Z.eqb_eq in H
  | H : (_ =? _) = false |- _ => apply Z.eqb_neq in H
  | H : (_ <? _) = true |- _ => apply Z.ltb_lt in H
  | H : (_ <? _) = false |- _ => apply Z.ltb_ge in H
  end.

Lemma one_iteration f w : inv w -> step_rel f w (loop_body_gen w).
Proof.
  intros [Hb [Hs [Hz [Fb [Fs Hn]]]]]. destruct w as [b s bt st bq sq pb ps p pend]. cbn [w_b w_s w_bt w_st w_bq w_sq w_pb w_ps w_p w_pend] in *.
  unfold loop_body_gen, step_rel, mwalk, cur_b, cur_s. cbn [w_b w_s w_bt w_st w_bq w_sq w_pb w_ps w_p w_pend].
  destruct s as [s|]; destruct (bt =? 0) eqn:Eb; destruct (st =? 0) eqn:Es; cbn [andb negb];
    repeat (match goal with
            | |- context [match ?l with [] => _ | _ :: _ => _ end] => is_var l; destruct l
            | |- context [if ?c then _ else _] => destruct c eqn:?
            end; cbv beta iota);
    repeat match goal with H : Forall pos (_ :: _) |- _ => apply Forall_cons_iff in H; destruct H as [? H] end; unfold pos in *.
  all: try (exfalso; zb; lia).
  all: try (specialize (Hn eq_refl); exfalso; zb; lia).
  all: cbn [walk w_b w_s w_bt w_st w_bq w_sq w_pb w_ps w_p w_pend]; unfold refill, need_pop;
       repeat match goal with
              | H : negb ?c = true |- _ => apply Bool.negb_true_iff in H
              | H : negb ?c = false |- _ => apply Bool.negb_false_iff in H
              end;
       repeat match goal with H : ?c = ?v |- context [?c] => rewrite H end; cbv beta iota.
  all: try reflexivity.
  all: try (split; [unfold inv; cbn [w_b w_s w_bt w_st w_bq w_sq w_pb w_ps w_p w_pend]; zb; repeat split; try assumption; try lia; try (intros; discriminate)|]).
  all: repeat match goal with H : ?c = ?v |- context [?c] => rewrite H end; cbv beta iota; try reflexivity.
Qed.

(* the popped orders followed by what is left of a queue are always the queue the round started from: the put-back loses nothing *)
Lemma one_iteration_keeps_elements w : match loop_body_gen w with
  | Ok (_, w') => w_pb w' ++ w_bq w' = w_pb w ++ w_bq w /\ w_ps w' ++ w_sq w' = w_ps w ++ w_sq w
  | Err _ => True end.
Proof.
  destruct w as [b s bt st bq sq pb ps p pend]. unfold loop_body_gen. cbn [w_b w_s w_bt w_st w_bq w_sq w_pb w_ps w_p w_pend].
  destruct s as [s|];
    repeat (match goal with
            | |- context [match ?l with [] => _ | _ :: _ => _ end] => is_var l; destruct l
            | |- context [if ?c then _ else _] => destruct c eqn:?
            end; cbv beta iota);
    cbn [w_b w_s w_bt w_st w_bq w_sq w_pb w_ps w_p w_pend]; try exact I; rewrite <- ?app_assoc; split; reflexivity.
Qed.

(* the loop of the source: iterate the generated body until it says stop (None: it has not stopped within `fuel` iterations) *)
Fixpoint iter (fuel : nat) (w : wst) : result (option wst) :=
  match fuel with
  | 0%nat => Ok None
  | S f => match loop_body_gen w with
           | Err e => Err e
           | Ok (false, w') => Ok (Some w')
           | Ok (true, w') => iter f w'
           end
  end.

Lemma iter_is_walk fuel : forall w, inv w ->
  (exists r, iter fuel w = Ok r) /\ (forall w', iter fuel w = Ok (Some w') -> mwalk fuel w = (w_p w', w_pend w')).
Proof.
  induction fuel as [|f IH]; intros w Hi.
  - split; [eexists; reflexivity|]. intros w' H. discriminate.
  - pose proof (one_iteration f w Hi) as H1. cbn [iter]. unfold step_rel in H1.
    destruct (loop_body_gen w) as [[[|] w1]|e]; [| |contradiction].
    + destruct H1 as [Hi1 E]. destruct (IH w1 Hi1) as [Hx Hw]. split; [exact Hx|]. intros w' H. rewrite E. apply Hw. exact H.
    + split; [eexists; reflexivity|]. intros w' H. inversion H; subst. exact H1.
Qed.

(* every iteration that goes on has popped at least one order: the loop cannot go on longer than there are orders *)
Lemma going_on_consumes w w1 : inv w -> loop_body_gen w = Ok (true, w1) ->
  (length (w_bq w1) + length (w_sq w1) < length (w_bq w) + length (w_sq w))%nat.
Proof.
  intros [Hb [Hs [Hz [Fb [Fs Hn]]]]]. destruct w as [b s bt st bq sq pb ps p pend]. cbn [w_b w_s w_bt w_st w_bq w_sq w_pb w_ps w_p w_pend] in *.
  unfold loop_body_gen. cbn [w_b w_s w_bt w_st w_bq w_sq w_pb w_ps w_p w_pend].
  destruct s as [s|]; destruct (bt =? 0) eqn:Eb; destruct (st =? 0) eqn:Es; cbn [andb negb];
    repeat (match goal with
            | |- context [match ?l with [] => _ | _ :: _ => _ end] => is_var l; destruct l
            | |- context [if ?c then _ else _] => destruct c eqn:?
            end; cbv beta iota);
    intros H; try discriminate H; inversion H; subst; clear H; cbn [w_bq w_sq length]; try lia.
  all: try (specialize (Hn eq_refl)); exfalso; zb; lia.
Qed.

Lemma iter_more fuel : forall w w' k, iter fuel w = Ok (Some w') -> iter (fuel + k) w = Ok (Some w').
Proof.
  induction fuel as [|f IH]; intros w w' k H; [discriminate|]. cbn [iter Nat.add] in *.
  destruct (loop_body_gen w) as [[[|] w1]|e]; [apply IH; exact H|exact H|discriminate].
Qed.

(* ... so it stops: within one iteration more than there are orders left in the two queues *)
Lemma iter_stops n : forall w, inv w -> (length (w_bq w) + length (w_sq w) <= n)%nat -> exists w', iter (S n) w = Ok (Some w').
Proof.
  induction n as [|n IH]; intros w Hi Hl; cbn [iter]; pose proof (one_iteration 0 w Hi) as H1; unfold step_rel in H1;
    destruct (loop_body_gen w) as [[[|] w1]|e] eqn:E; try contradiction; try (eexists; reflexivity).
  - pose proof (going_on_consumes w w1 Hi E). lia.
  - destruct H1 as [Hi1 _]. pose proof (going_on_consumes w w1 Hi E). apply IH; [exact Hi1|lia].
Qed.

Lemma init_ok bq sq w0 : Forall pos bq -> Forall pos sq -> walk_init_gen bq sq = Ok w0 ->
  inv w0 /\ (forall fuel, mwalk fuel w0 = walk Q qltb fuel None None bq sq None []) /\ w_pb w0 ++ w_bq w0 = bq /\ w_ps w0 ++ w_sq w0 = sq.
Proof.
  intros Fb Fs H. unfold walk_init_gen in H. destruct bq as [|b0 r]; [discriminate|]. inversion H; subst; clear H.
  apply Forall_cons_iff in Fb. destruct Fb as [Hp Fb]. unfold pos in Hp. split; [|split; [|split; reflexivity]].
  - unfold inv. cbn [w_b w_s w_bt w_st w_bq w_sq w_pb w_ps w_p w_pend]. repeat split; try assumption; try lia.
  - intros [|f]; [reflexivity|]. unfold mwalk, cur_b, cur_s. cbn [w_b w_s w_bt w_st w_bq w_sq w_pb w_ps w_p w_pend walk].
    unfold refill at 1 3. unfold need_pop. destruct (vol b0 =? 0) eqn:E; [apply Z.eqb_eq in E; lia|]. reflexivity.
Qed.

(* THE LOOP OF THE SOURCE IS THE MODEL'S WALK: on queues of orders with positive volume the statements before the loop and the loop body,
   iterated, never raise, and whenever the loop stops within `fuel` iterations the price and the pending fills it leaves are exactly what
   Match.walk computes with that fuel from the two sorted books; the popped orders followed by the rest are the books it started from *)
Theorem gen_loop_is_the_models_walk : forall bq sq, Forall pos bq -> Forall pos sq -> bq <> [] ->
  exists w0, walk_init_gen bq sq = Ok w0 /\
  forall fuel, (exists r, iter fuel w0 = Ok r) /\
               (forall w', iter fuel w0 = Ok (Some w') -> walk Q qltb fuel None None bq sq None [] = (w_p w', w_pend w')).
Proof.
  intros bq sq Fb Fs Hne. destruct bq as [|b0 r]; [contradiction|].
  eexists. split; [reflexivity|]. intros fuel.
  destruct (init_ok (b0 :: r) sq _ Fb Fs eq_refl) as [Hi [Hm _]].
  destruct (iter_is_walk fuel _ Hi) as [Hx Hw]. split; [exact Hx|]. intros w' H. rewrite <- Hm. apply Hw. exact H.
Qed.
Print Assumptions gen_loop_is_the_models_walk.

(* ... and it always stops: with the model's fuel for these books the loop has ended, and its result is the model's walk *)
Theorem gen_loop_stops_with_the_models_result : forall bq sq, Forall pos bq -> Forall pos sq -> bq <> [] ->
  exists w0 w', walk_init_gen bq sq = Ok w0 /\ iter (S (S (length bq + length sq))) w0 = Ok (Some w') /\
                walk Q qltb (S (S (length bq + length sq))) None None bq sq None [] = (w_p w', w_pend w') /\
                w_pb w' ++ w_bq w' = bq /\ w_ps w' ++ w_sq w' = sq.
Proof.
  intros bq sq Fb Fs Hne. destruct bq as [|b0 r]; [contradiction|].
  destruct (init_ok (b0 :: r) sq _ Fb Fs eq_refl) as [Hi [Hm [Eb Es]]].
  match type of Hi with inv ?x => remember x as w0 eqn:Ew0 end.
  assert (Hl : (length (w_bq w0) + length (w_sq w0) <= length r + length sq)%nat) by (rewrite Ew0; cbn; lia).
  destruct (iter_stops _ w0 Hi Hl) as [w' Hw].
  assert (Hw2 : iter (S (S (length (b0 :: r) + length sq))) w0 = Ok (Some w')).
  { replace (S (S (length (b0 :: r) + length sq))) with (S (length r + length sq) + 2)%nat by (cbn [length]; lia). apply iter_more. exact Hw. }
  exists w0, w'. split; [rewrite Ew0; reflexivity|]. split; [exact Hw2|]. split.
  - rewrite <- Hm. exact (proj2 (iter_is_walk _ w0 Hi) w' Hw2).
  - (* elements: every iteration keeps popped ++ rest *)
    assert (K : forall f w w2, iter f w = Ok (Some w2) -> w_pb w2 ++ w_bq w2 = w_pb w ++ w_bq w /\ w_ps w2 ++ w_sq w2 = w_ps w ++ w_sq w).
    { induction f as [|f IHf]; intros w w2 H; [discriminate|]. cbn [iter] in H. pose proof (one_iteration_keeps_elements w) as Ke.
      destruct (loop_body_gen w) as [[[|] w1]|e]; [|inversion H; subst; exact Ke|discriminate].
      destruct (IHf w1 w2 H) as [A B]. destruct Ke as [A1 B1]. split; congruence. }
    destruct (K _ _ _ Hw2) as [A B]. rewrite A, B. split; [exact Eb|exact Es].
Qed.
Print Assumptions gen_loop_stops_with_the_models_result.

(* non-vacuity: two bids (101 x 2, 100 x 1) against two asks (99 x 1, 100 x 5): the loop stops at its 4th iteration with three fills
   and the model's walk (any fuel from 4 on) gives the same price and fills *)
Example gen_loop_example :
  let o (i : Z) (b : bool) (p : positive) (v : Z) := mkO i 7 0 b (Some (Z.pos p # 1)) v 0 None in
  let bq := [o 0 true 101%positive 2; o 1 true 100%positive 1] in
  let sq := [o 2 false 99%positive 1; o 3 false 100%positive 5] in
  match walk_init_gen bq sq with
  | Ok w0 => match iter 6 w0 with
             | Ok (Some w') => length (w_pend w') = 3%nat /\ walk Q qltb 6 None None bq sq None [] = (w_p w', w_pend w') /\
                               w_pb w' ++ w_bq w' = bq
             | _ => False end
  | _ => False end.
Proof. vm_compute. repeat split. Qed.

