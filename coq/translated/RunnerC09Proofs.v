(* Theorems about the GENERATED text of the per-order block of SequentialRunner._handle_orders (RunnerGen.v, regenerated from /repo every
   run): the source's sequence of effects - before-hooks, acceptance, the owner's callback, after-hooks, and, while matching is on, the
   round, the update of the holdings for the whole round, then per fill the buyer's callback, the seller's callback and the
   after-execution hooks - with the source's branching and with nothing running after an exception, IS the model's handle_request
   (Sim.v), the function the run-level theorems of C05, C09, C11, C13, C16 are about.  Both copies of the block (normal agents,
   high-frequency agents) are translated and proved. *)
Require Import Pams.Prelude Pams.Tick Pams.Match Pams.Market Pams.Sim Pams.SimInv Pams.RunnerPy.
Require Import PamsGen.RunnerGen.
From RecordUpdate Require Import RecordSet.
Import RecordSetNotations.
Open Scope Z_scope.

Ltac proj := cbn [cs cmk crec creq ctm cix clogs setS setSR setAcc setLogs setRec init_ctx req_market].

Lemma ok_emit s e : ok (emit s e) = ok s. Proof. reflexivity. Qed.
Lemma ok_set_market s i m : ok (set_market s i m) = ok s. Proof. reflexivity. Qed.
Lemma ok_log_events rs : forall s, ok (fold_left (fun s r => log_event s r []) rs s) = ok s.
Proof. induction rs as [|r rest IH]; simpl; intros s; auto. rewrite IH. reflexivity. Qed.
Lemma ok_accept_order s mkid x m' rc tag : ok (do_accept_order s mkid x m' rc tag) = ok s. Proof. reflexivity. Qed.
Lemma ok_accept_cancel s mkid m' rc : ok (do_accept_cancel s mkid m' rc) = ok s. Proof. reflexivity. Qed.

(* while matching is on: the round, the holdings of the whole round, then the fills one by one = the model's run_round *)
Lemma exec_tail c : ok (cs c) = true ->
  cs (p_if_exec [p_execution; p_update_agents; p_for_logs [p_cb_buyer; p_cb_seller; p_after_execution]] c) = run_round (cs c) (cmk c) /\
  True.
Proof.
  intros O. split; [|exact Logic.I]. destruct c as [s rq mk rc tm ix lgs]. cbn [cs] in O. unfold p_if_exec, run_round. proj.
  destruct (cur_switch s); [|reflexivity]. cbn [negb].
  rewrite seqg_cons. proj. rewrite O. unfold p_execution. proj.
  destruct (find_mkt mk (s_markets s)) as [x|]; [|rewrite seqg_dead; proj; [reflexivity|apply ok_fail_false; exact O]].
  destruct (execution (mk_m x)) as [[m' logs]|e].
  - rewrite seqg_cons. proj. rewrite ok_log_events, ok_set_market, ok_emit, O. unfold p_update_agents. proj.
    rewrite seqg_cons, seqg_nil. proj.
    assert (O3 : ok ((fold_left (fun s0 r => log_event s0 r []) logs (set_market (emit s (EvRound mk (m_running (mk_m x)) (s_cur s))) mk m'))
                      <| s_agents := fold_left apply_fill_holdings logs
                           (s_agents (fold_left (fun s0 r => log_event s0 r []) logs (set_market (emit s (EvRound mk (m_running (mk_m x)) (s_cur s))) mk m'))) |>) = true).
    { change (ok (_ <| s_agents := _ |>)) with (ok (fold_left (fun s0 r => log_event s0 r []) logs (set_market (emit s (EvRound mk (m_running (mk_m x)) (s_cur s))) mk m'))).
      rewrite ok_log_events. exact O. }
    rewrite O3. unfold p_for_logs. proj.
    match goal with |- cs (fold_left _ logs ?c0) = _ => destruct (for_logs_is_notify logs c0) as [A _]; rewrite A end.
    proj. reflexivity.
  - rewrite seqg_dead; proj; [reflexivity|]. apply ok_fail_false. exact O.
Qed.

Lemma fire_simple_tags s k before t mkid extra : s_tags (fire_simple s k before t mkid extra) = s_tags s.
Proof.
  unfold fire_simple. generalize (hooks_for s k before t). intros l. revert s. induction l as [|h r IH]; intros s; simpl; auto.
  rewrite IH. destruct (ok s && is_probe s h); reflexivity.
Qed.

Definition tail_steps : list (ctx -> ctx) := [p_if_exec [p_execution; p_update_agents; p_for_logs [p_cb_buyer; p_cb_seller; p_after_execution]]].

(* the last statement of the block: `if session.with_order_execution: ...`, reached unless an exception was raised before *)
Lemma tail_is_guarded_round c : cs (seqg tail_steps c) = guard (cs c) (fun s => run_round s (cmk c)).
Proof.
  unfold tail_steps. rewrite seqg_cons, seqg_nil. destruct (ok (cs c)) eqn:O.
  - rewrite (guard_ok _ _ O). apply exec_tail. exact O.
  - rewrite (guard_dead _ _ O). reflexivity.
Qed.

Definition order_steps := [p_before_order; p_add_order; p_cb_submitted; p_after_order].
Definition cancel_steps := [p_before_cancel; p_cancel_order; p_cb_canceled; p_after_cancel].

(* the common part of both copies of the block *)
Lemma block_is_handle_request s r : ok s = true ->
  cs (seqg [p_market; p_case order_steps cancel_steps; p_if_exec [p_execution; p_update_agents; p_for_logs [p_cb_buyer; p_cb_seller; p_after_execution]]]
        (init_ctx s r)) = handle_request s r.
Proof.
  intros O. unfold handle_request. rewrite O. cbn [negb].
  rewrite seqg_cons. proj. rewrite O. unfold p_market. proj.
  destruct (find_mkt (req_market r) (s_markets s)) as [x|] eqn:Fx;
    [|rewrite seqg_dead; proj; [reflexivity|apply ok_fail_false; exact O]].
  rewrite seqg_cons. proj. rewrite O. change (seqg [?p] ?c) with (seqg tail_steps c). rewrite tail_is_guarded_round.
  unfold p_case. proj. destruct r as [tag ag mk buy p v ttlv|tag ag mk]; cbn [req_market] in *.
  - (* an order *)
    unfold order_steps. rewrite seqg_cons. proj. rewrite O. unfold p_before_order. proj. rewrite Fx.
    destruct (fire_order_before s (RNew tag ag mk buy p v ttlv) (mtime x)) as [s1 r'] eqn:Fb. proj.
    rewrite seqg_cons. proj. destruct (ok s1) eqn:O1; cbn [negb].
    2:{ rewrite seqg_dead by (proj; exact O1). proj. rewrite (guard_dead _ _ O1). reflexivity. }
    unfold p_add_order. proj.
    destruct r' as [tag' ag' mk' buy' p' v' ttlv'|tag' ag' mk'].
    2:{ rewrite seqg_dead by (proj; apply ok_fail_false; exact O1). proj.
        rewrite guard_dead by (apply ok_fail_false; exact O1).
        destruct (find_mkt mk (s_markets s1)); reflexivity. }
    destruct (find_mkt mk (s_markets s1)) as [x1|] eqn:Fx1.
    2:{ rewrite seqg_dead by (proj; apply ok_fail_false; exact O1). proj. rewrite guard_dead by (apply ok_fail_false; exact O1). reflexivity. }
    destruct (assoc tag' (s_tags s1)) eqn:Tg.
    { rewrite seqg_dead by (proj; apply ok_fail_false; exact O1). proj. rewrite guard_dead by (apply ok_fail_false; exact O1). reflexivity. }
    destruct (add_order (mk_m x1) ag' mk' buy' p' v' ttlv') as [[m' rc]|e] eqn:Ea.
    2:{ rewrite seqg_dead by (proj; apply ok_fail_false; exact O1). proj. rewrite guard_dead by (apply ok_fail_false; exact O1). reflexivity. }
    rewrite seqg_cons. proj. rewrite ok_accept_order, O1. unfold p_cb_submitted. proj.
    rewrite seqg_cons, seqg_nil. proj. unfold p_after_order. proj.
    set (s3 := callback (do_accept_order s1 mk x1 m' rc tag') ag' 1 rc mk).
    destruct (ok s3) eqn:O3; proj; rewrite ?O3; rewrite ?(guard_ok _ _ O3), ?(guard_dead _ _ O3); proj; rewrite ?(guard_dead _ _ O3); reflexivity.
  - (* a cancel *)
    unfold cancel_steps. rewrite seqg_cons. proj. rewrite O. unfold p_before_cancel. proj. rewrite Fx.
    set (oid := match assoc tag (s_tags s) with Some (_, i) => Some i | None => None end).
    set (s1 := fire_simple s HCancel true (mtime x) mk [voz oid]).
    rewrite seqg_cons. proj. destruct (ok s1) eqn:O1; cbn [negb].
    2:{ rewrite seqg_dead by (proj; exact O1). proj. rewrite (guard_dead _ _ O1). reflexivity. }
    unfold p_cancel_order. proj.
    change (s_tags s1) with (s_tags (fire_simple s HCancel true (mtime x) mk [voz oid])). rewrite fire_simple_tags. fold oid.
    destruct oid as [i|].
    2:{ rewrite seqg_dead by (proj; apply ok_fail_false; exact O1). proj. rewrite guard_dead by (apply ok_fail_false; exact O1). reflexivity. }
    destruct (find_mkt mk (s_markets s1)) as [x1|] eqn:Fx1.
    2:{ rewrite seqg_dead by (proj; apply ok_fail_false; exact O1). proj. rewrite guard_dead by (apply ok_fail_false; exact O1). reflexivity. }
    destruct (cancel_order (mk_m x1) i) as [[m' rc]|e] eqn:Ec.
    2:{ rewrite seqg_dead by (proj; apply ok_fail_false; exact O1). proj. rewrite guard_dead by (apply ok_fail_false; exact O1). reflexivity. }
    rewrite seqg_cons. proj. rewrite ok_accept_cancel, O1. unfold p_cb_canceled. proj.
    rewrite seqg_cons, seqg_nil. proj. unfold p_after_cancel. proj.
    set (s3 := callback (do_accept_cancel s1 mk m' rc) (rec_owner rc ag) 2 rc mk).
    destruct (ok s3) eqn:O3; proj; rewrite ?O3; rewrite ?(guard_ok _ _ O3), ?(guard_dead _ _ O3); proj; rewrite ?(guard_dead _ _ O3); reflexivity.
Qed.

(* THE TWO COPIES OF THE BLOCK, as the source says them now *)
Theorem gen_hft_order_block_is_handle_request : forall s r, handle_hft_order_gen s r = handle_request s r.
Proof.
  intros s r. unfold handle_hft_order_gen, handle_hft_order_gen_steps. destruct (ok s) eqn:O.
  - apply (block_is_handle_request s r O).
  - rewrite seqg_dead by exact O. unfold handle_request. rewrite O. reflexivity.
Qed.
Print Assumptions gen_hft_order_block_is_handle_request.

Theorem gen_order_block_is_handle_request : forall s r,
  (exists se, cur_sess s = Some se /\ se_place se = true) -> handle_order_gen s r = handle_request s r.
Proof.
  intros s r [se [Cs Pl]]. unfold handle_order_gen, handle_order_gen_steps. destruct (ok s) eqn:O.
  - rewrite seqg_cons. proj. rewrite O. unfold p_assert_placement. proj. rewrite Cs, Pl. apply (block_is_handle_request s r O).
  - rewrite seqg_dead by exact O. unfold handle_request. rewrite O. reflexivity.
Qed.
Print Assumptions gen_order_block_is_handle_request.

(* with placement off the block refuses the order before anything else happens *)
Theorem gen_order_block_refuses_without_placement : forall s r se, ok s = true -> cur_sess s = Some se -> se_place se = false ->
  handle_order_gen s r = fail s EOther.
Proof.
  intros s r se O Cs Pl. unfold handle_order_gen, handle_order_gen_steps. rewrite seqg_cons. proj. rewrite O.
  unfold p_assert_placement. proj. rewrite Cs, Pl. rewrite seqg_dead; proj; [reflexivity|apply ok_fail_false; exact O].
Qed.
Print Assumptions gen_order_block_refuses_without_placement.

Example gen_runner_example :
  let c := mkCfg [mkMC 0 (1#1) (100#1) None 1] [mkAC 0 false (1000#1) [(0, 10)]; mkAC 1 false (1000#1) [(0, 10)]]
                 [mkSC 0 2 true true 2 1 (0#1)] [] in
  let s0 := tick_all (flush (write (init_sim c [] [] [(0, 0, 100#1)]) EvSimBegin)) in
  let s := begin_iteration (s0 <| s_cur := 0 |>) in
  let s1 := handle_order_gen s (RNew 1 0 0 false (Some (100#1)) 5 None) in
  let s2 := handle_hft_order_gen s1 (RNew 2 1 0 true (Some (100#1)) 2 None) in
  ok s2 = true /\ map a_cash (s_agents s2) = [1200#1; 800#1] /\ s2 = handle_request (handle_request s (RNew 1 0 0 false (Some (100#1)) 5 None)) (RNew 2 1 0 true (Some (100#1)) 2 None).
Proof. vm_compute. repeat split. Qed.
