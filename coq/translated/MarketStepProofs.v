(* Capstone over the generated texts of Market._update_time, _add_order, _cancel_order, _execute_orders and of the walk of _execution
   (TickGen, AddGen, CancelGen, FillGen, WalkGen - all regenerated from /repo on every run): the step function of Level M assembled from the SOURCE's own statements is the
   model's step_rec on every state satisfying the book invariant, so every Level-M theorem about sequences of operations is a theorem about
   sequences of the generated functions. *)
Require Import Pams.Prelude Pams.Tick Pams.Match Pams.Market Pams.MarketInv Pams.MarketAcct Pams.OrderPy.
Require Import Pams.WalkPy.
Require Import PamsGen.TickGen PamsGen.FillGen PamsGen.AddGen PamsGen.CancelGen PamsGen.WalkGen.
Require Import PamsGen.TickC06Proofs PamsGen.FillC08Proofs PamsGen.AddC04Proofs PamsGen.CancelC04Proofs PamsGen.WalkC01Proofs.
From Coq Require Import Lia.
From RecordUpdate Require Import RecordSet.
Import RecordSetNotations.
Open Scope Z_scope.

(* the fills of a round, each applied by the generated _execute_orders *)
Fixpoint fills_src (p : Q) (m : market) (fs : list fillq) : result (market * list record) :=
  match fs with
  | [] => Ok (m, [])
  | Fill v b s :: r => do (m1, x) <- execute_orders_gen m p v b s;
                       do (m2, xs) <- fills_src p m1 r;
                       Ok (m2, x :: xs)
  end.

(* Market._execution: the generated statements before the loop, the generated loop body iterated (with the model's fuel for these books),
   the generated application of the fills; the executability test before and after is the model's (tied by the second translator) *)
Definition execution_src (m : market) : result (market * list record) :=
  if negb (executable m) then Ok (m, []) else
  do w0 <- walk_init_gen (m_buys m) (m_sells m);
  match iter (walk_fuel m) w0 with
  | Err e => Err e
  | Ok None => Err EAssertWalk
  | Ok (Some w') =>
      match w_p w' with
      | None => Err EAssertPrice
      | Some p => do (m', logs) <- fills_src p m (w_pend w'); if executable m' then Err EAssertPost else Ok (m', logs)
      end
  end.

(* the order object a cancel names: the order with that id as the market holds it *)
Definition held (m : market) (i : Z) : option O :=
  match find_id i (m_buys m) with
  | Some o => Some o
  | None => match find_id i (m_sells m) with Some o => Some o | None => find_id i (m_gone m) end
  end.

Definition step_src (m : market) (o : op) : result (market * list record) :=
  match o with
  | OAdd ag mk buy p v ttlv => do (m', r) <- add_order_gen m ag mk buy p v ttlv None None; Ok (m', [r])
  | OCancel i => match held m i with
                 | Some x => do (m', r) <- cancel_order_gen m x; Ok (m', [r])
                 | None => Err ENotSubmitted
                 end
  | OExec => execution_src m
  | OTick f => Ok (update_time_gen m f)
  | _ => step_rec m o
  end.

Definition gone_here (m : market) : Prop := Forall (fun o : O => mkt o = m_id m) (m_gone m).

Lemma apply_fill_id p m f m' r : apply_fill p m f = Ok (m', r) -> m_id m' = m_id m.
Proof.
  destruct f as [v b s]. unfold apply_fill. destruct (negb (m_running m)); [discriminate|]. destruct (v <=? 0); [discriminate|].
  destruct (dec_vol (oid b) v (m_buys m) (m_gone m)) as [[bs g1]|e]; [|discriminate]. cbn [bind].
  destruct (dec_vol (oid s) v (m_sells m) g1) as [[ss g2]|e]; [|discriminate]. cbn [bind].
  intros H. inversion H. rewrite ump_id. reflexivity.
Qed.

Lemma fills_src_is_apply_fills p fs : forall m,
  Forall (fun f => mkt (fbuy f) = m_id m /\ mkt (fsell f) = m_id m) fs -> fills_src p m fs = apply_fills p m fs.
Proof.
  induction fs as [|[v b s] r IH]; intros m H; [reflexivity|]. inversion H as [|f r' [Hb Hs] Hr]; subst.
  cbn [fills_src apply_fills]. cbn [fbuy fsell] in Hb, Hs. rewrite (gen_execute_orders_is_apply_fill m p v b s Hb Hs).
  destruct (apply_fill p m (Fill v b s)) as [[m1 x]|e] eqn:E; [|reflexivity]. cbn [bind].
  rewrite IH; [reflexivity|]. rewrite (apply_fill_id _ _ _ _ _ E). exact Hr.
Qed.

Theorem step_src_is_step_rec : forall m o, book_ok m -> gone_here m -> 0 <= m_time m ->
  step_src m o = step_rec m o.
Proof.
  intros m o [HB HS] HG Ht. destruct o; try reflexivity.
  - (* an order *) cbn [step_src step_rec]. rewrite gen_add_order_is_add_order by exact Ht. reflexivity.
  - (* a cancel *) cbn [step_src step_rec]. unfold held.
    destruct (find_id i (m_buys m)) as [x|] eqn:Eb.
    + destruct (find_id_some_in _ _ _ Eb) as [Hin Hi]. subst i.
      pose proof (proj1 (Forall_forall _ _) (so_elems _ _ _ _ _ HB) x Hin) as [Hside [_ [_ [Hm _]]]].
      rewrite (gen_cancel_order_is_cancel_order m x Ht Hm); [reflexivity|]. left. split; assumption.
    + destruct (find_id i (m_sells m)) as [x|] eqn:Es.
      * destruct (find_id_some_in _ _ _ Es) as [Hin Hi]. subst i.
        pose proof (proj1 (Forall_forall _ _) (so_elems _ _ _ _ _ HS) x Hin) as [Hside [_ [_ [Hm _]]]].
        rewrite (gen_cancel_order_is_cancel_order m x Ht Hm); [reflexivity|]. right. left. repeat split; assumption.
      * destruct (find_id i (m_gone m)) as [x|] eqn:Eg.
        -- destruct (find_id_some_in _ _ _ Eg) as [Hin Hi]. subst i.
           pose proof (proj1 (Forall_forall _ _) HG x Hin) as Hm.
           rewrite (gen_cancel_order_is_cancel_order m x Ht Hm); [reflexivity|]. right. right. repeat split; assumption.
        -- unfold cancel_order. destruct (m_time m <? 0) eqn:E; [lia|]. rewrite Eb, Es, Eg. reflexivity.
  - (* a matching round *) cbn [step_src step_rec]. unfold execution_src, execution.
    destruct (negb (executable m)) eqn:Ex; [reflexivity|].
    assert (Pb : Forall WalkC01Proofs.pos (m_buys m)).
    { rewrite Forall_forall. intros x Hx. exact (proj1 (proj2 (proj2 (proj1 (Forall_forall _ _) (so_elems _ _ _ _ _ HB) x Hx)))). }
    assert (Ps : Forall WalkC01Proofs.pos (m_sells m)).
    { rewrite Forall_forall. intros x Hx. exact (proj1 (proj2 (proj2 (proj1 (Forall_forall _ _) (so_elems _ _ _ _ _ HS) x Hx)))). }
    assert (Hne : m_buys m <> []).
    { intros E. apply Bool.negb_false_iff in Ex. unfold executable, executable_b in Ex. rewrite E in Ex. destruct (m_sells m); discriminate. }
    destruct (gen_loop_stops_with_the_models_result (m_buys m) (m_sells m) Pb Ps Hne) as [w0 [w' [E0 [Ei [Ew _]]]]].
    rewrite E0. cbn [bind]. unfold walk_fuel. rewrite Ei. unfold run_walk, walk_fuel. rewrite Ew.
    destruct (w_p w') as [p|]; [|reflexivity].
    rewrite fills_src_is_apply_fills; [reflexivity|].
    assert (Hin : Forall (fun f => In (fbuy f) (m_buys m) /\ In (fsell f) (m_sells m)) (snd (run_walk m))).
    { unfold run_walk. apply (walk_fills_from Q qltb); simpl; auto using incl_refl. }
    unfold run_walk, walk_fuel in Hin. rewrite Ew in Hin. cbn [snd] in Hin. rewrite Forall_forall in *. intros f Hf. destruct (Hin f Hf) as [Ib Is]. split.
    + exact (proj1 (proj2 (proj2 (proj2 (proj1 (Forall_forall _ _) (so_elems _ _ _ _ _ HB) _ Ib))))).
    + exact (proj1 (proj2 (proj2 (proj2 (proj1 (Forall_forall _ _) (so_elems _ _ _ _ _ HS) _ Is))))).
  - (* a clock step *) cbn [step_src step_rec]. rewrite gen_update_time_is_tick. reflexivity.
Qed.
Print Assumptions step_src_is_step_rec.

(* ---- any sequence of operations: the source-derived step function and the model's go through the same states and emit the same
   records (a refused operation leaves the state and emits nothing) ---- *)
Fixpoint exec_with (step : market -> op -> result (market * list record)) (m : market) (ops : list op) : market * list record :=
  match ops with
  | [] => (m, [])
  | o :: r => match step m o with
              | Ok (m', rs) => let '(mf, rest) := exec_with step m' r in (mf, rs ++ rest)
              | Err _ => exec_with step m r
              end
  end.

Require Import Pams.Sim Pams.SimMarketLift Pams.MarketSeries Pams.MarketExec Pams.MarketRound Pams.MarketPrice Pams.MatchQ Pams.MarketLife Pams.MarketPost.

Theorem every_history_of_the_source_is_a_history_of_the_model : forall ops m,
  book_ok m -> gone_here m -> 0 <= m_time m -> Forall valid_op ops ->
  exec_with step_src m ops = exec_with step_rec m ops.
Proof.
  induction ops as [|o r IH]; intros m HB HG Ht HV; [reflexivity|]. inversion HV as [|o' r' Ho Hr]; subst.
  cbn [exec_with]. rewrite (step_src_is_step_rec m o HB HG Ht).
  destruct (step_rec m o) as [[m' rs]|e] eqn:E; [|apply IH; assumption].
  rewrite IH; [reflexivity| | | |exact Hr].
  - exact (step_rec_ok m o m' rs HB Ho E).
  - exact (proj1 (proj2 (step_rec_mkt m o m' rs HB HG E))).
  - pose proof (step_rec_time_mono m o m' rs E). lia.
Qed.
Print Assumptions every_history_of_the_source_is_a_history_of_the_model.

(* ---- a property of the model becomes a property of the source: C04's "nothing is lost" ---- *)
Lemma exec_rec_is_final_and_trace ops : forall m, exec_with step_rec m ops = (final_state m ops, trace m ops).
Proof.
  induction ops as [|o r IH]; intros m; [reflexivity|]. cbn [exec_with final_state trace]. unfold step.
  destruct (step_rec m o) as [[m' rs]|e]; cbn [bind]; rewrite IH; reflexivity.
Qed.

(* from market setup, the first clock step and then ANY list of valid operations, carried out by the generated methods, end in the
   model's final state and emit the model's trace: every Level-M theorem stated over final_state / trace is a theorem about the source *)
Theorem histories_of_the_source_from_setup : forall id tk mp0 f0 ops, Forall valid_op ops ->
  exec_with step_src (init_market id tk mp0) (OTick f0 :: ops) =
  (final_state (init_market id tk mp0) (OTick f0 :: ops), trace (init_market id tk mp0) (OTick f0 :: ops)).
Proof.
  intros id tk mp0 f0 ops Hv. rewrite <- exec_rec_is_final_and_trace.
  cbn [exec_with step_src step_rec]. rewrite gen_update_time_is_tick. destruct (tick (init_market id tk mp0) f0) as [m1 rs1] eqn:Et.
  assert (Hm1 : m1 = fst (tick (init_market id tk mp0) f0)) by (rewrite Et; reflexivity).
  rewrite every_history_of_the_source_is_a_history_of_the_model; [reflexivity| | | |exact Hv].
  - rewrite Hm1. apply tick_ok. apply book_ok_init.
  - rewrite Hm1. unfold gone_here. cbn. constructor.
  - rewrite Hm1. cbn. lia.
Qed.
Print Assumptions histories_of_the_source_from_setup.

(* ... for instance C04's "nothing is lost": for every accepted order, accepted volume = fills + what rests + the volume of its first
   terminal record; a resting order has had no terminal event *)
Theorem nothing_is_lost_along_histories_of_the_source : forall id tk mp0 f0 ops, Forall valid_op ops ->
  let '(m, rs) := exec_with step_src (init_market id tk mp0) (OTick f0 :: ops) in
  forall i v0, accepted rs i = Some v0 ->
    v0 = filled rs i + rest_vol m i + tv rs i /\ (rest_vol m i <> 0 -> term rs i = None) /\ 0 <= rest_vol m i.
Proof.
  intros id tk mp0 f0 ops Hv. rewrite (histories_of_the_source_from_setup id tk mp0 f0 ops Hv).
  apply (nothing_lost id tk mp0 (OTick f0 :: ops)). constructor; [exact I|exact Hv].
Qed.
Print Assumptions nothing_is_lost_along_histories_of_the_source.

(* ... C02: after any such history of the source both books are sorted by priority, without duplicate ids *)
Theorem books_are_priority_sorted_along_histories_of_the_source : forall id tk mp0 f0 ops, Forall valid_op ops ->
  let m := fst (exec_with step_src (init_market id tk mp0) (OTick f0 :: ops)) in
  MatchQ.sortedq (m_buys m) /\ MatchQ.sortedq (m_sells m) /\ NoDup (map (@oid Q) (m_buys m)) /\ NoDup (map (@oid Q) (m_sells m)).
Proof.
  intros id tk mp0 f0 ops Hv. rewrite (histories_of_the_source_from_setup id tk mp0 f0 ops Hv). cbn [fst].
  assert (H : book_ok (final_state (init_market id tk mp0) (OTick f0 :: ops))).
  { apply reachable_ok; [apply book_ok_init|constructor; [exact I|exact Hv]]. }
  destruct H as [[? ? ?] [? ? ?]]. auto.
Qed.

(* ... C06: whatever the source's methods do after a state reached by such a history, every value recorded for an earlier step stays *)
Theorem recorded_history_is_immutable_along_histories_of_the_source : forall id tk mp0 f0 ops more i, Forall valid_op ops -> Forall valid_op more ->
  let m := fst (exec_with step_src (init_market id tk mp0) (OTick f0 :: ops)) in
  0 <= i < m_time m ->
  series_at (fst (exec_with step_src (init_market id tk mp0) (OTick f0 :: ops ++ more))) i = series_at m i.
Proof.
  intros id tk mp0 f0 ops more i Hv Hm. rewrite (histories_of_the_source_from_setup id tk mp0 f0 ops Hv).
  rewrite (histories_of_the_source_from_setup id tk mp0 f0 (ops ++ more)) by (apply Forall_app; split; assumption). cbn [fst].
  intros Hi. change (OTick f0 :: ops ++ more) with ((OTick f0 :: ops) ++ more).
  assert (F : forall a b m0, final_state m0 (a ++ b) = final_state (final_state m0 a) b).
  { induction a as [|o r IH]; intros b m0; [reflexivity|]. cbn [app final_state]. destruct (step m0 o) as [[m' x]|]; apply IH. }
  rewrite F. apply history_immutable. exact Hi.
Qed.
Print Assumptions books_are_priority_sorted_along_histories_of_the_source.
Print Assumptions recorded_history_is_immutable_along_histories_of_the_source.

(* the three premises of the step theorem travel along every history *)
Lemma premises_travel ops : forall m, book_ok m -> gone_here m -> 0 <= m_time m -> Forall valid_op ops ->
  let mf := fst (exec_with step_rec m ops) in book_ok mf /\ gone_here mf /\ 0 <= m_time mf.
Proof.
  induction ops as [|o r IH]; intros m HB HG Ht HV; [cbn; auto|]. inversion HV as [|o' r' Ho Hr]; subst.
  cbn [exec_with]. destruct (step_rec m o) as [[m' rs]|e] eqn:E; [|apply IH; assumption].
  assert (K : let mf := fst (exec_with step_rec m' r) in book_ok mf /\ gone_here mf /\ 0 <= m_time mf).
  { apply IH; [exact (step_rec_ok m o m' rs HB Ho E)|exact (proj1 (proj2 (step_rec_mkt m o m' rs HB HG E)))|
               pose proof (step_rec_time_mono m o m' rs E); lia|exact Hr]. }
  destruct (exec_with step_rec m' r) as [mf rest]. exact K.
Qed.

(* ... C03 and C01: after ANY history of the source, a matching round carried out by the source's own statements (the generated
   statements before the loop, the generated loop body, the generated _execute_orders per fill) returns whenever the market is running -
   none of its assertions can fire - and what it returns is nothing or the fills of the model's walk, all at ONE price, which is no higher
   than the limit of any filled buy order and no lower than the limit of any filled sell order *)
Theorem a_round_of_the_source_never_fails_and_trades_at_one_price_within_both_limits : forall id tk mp0 f0 ops, Forall valid_op ops ->
  let m := fst (exec_with step_src (init_market id tk mp0) (OTick f0 :: ops)) in
  m_running m = true ->
  exists m' logs, execution_src m = Ok (m', logs) /\
    (logs = [] \/ exists p fs, run_walk m = (Some p, fs) /\ logs = map (log_of m p) fs /\ Forall (withinq p) fs /\
                               Forall (fun f => In (fbuy f) (m_buys m) /\ In (fsell f) (m_sells m)) fs).
Proof.
  intros id tk mp0 f0 ops Hv.
  rewrite (histories_of_the_source_from_setup id tk mp0 f0 ops Hv). cbn [fst].
  assert (P : let mf := final_state (init_market id tk mp0) (OTick f0 :: ops) in book_ok mf /\ gone_here mf /\ 0 <= m_time mf).
  { cbn [final_state]. unfold step. cbn [step_rec bind]. destruct (tick (init_market id tk mp0) f0) as [m1 rs1] eqn:Et.
    assert (Hm1 : m1 = fst (tick (init_market id tk mp0) f0)) by (rewrite Et; reflexivity).
    pose proof (premises_travel ops m1) as K. rewrite exec_rec_is_final_and_trace in K. cbn [fst] in K. apply K; [| | |exact Hv].
    - rewrite Hm1. apply tick_ok. apply book_ok_init.
    - rewrite Hm1. unfold gone_here. cbn. constructor.
    - rewrite Hm1. cbn. lia. }
  set (m := final_state (init_market id tk mp0) (OTick f0 :: ops)) in *. cbv zeta in P. destruct P as [HB [HG Ht]]. intros Hr.
  pose proof (step_src_is_step_rec m OExec HB HG Ht) as E. cbn [step_src step_rec] in E.
  destruct (execution_never_errors m HB Hr) as [m' [logs Ex]]. exists m', logs. split; [rewrite E; exact Ex|].
  exact (execution_fills m m' logs HB Ex).
Qed.
Print Assumptions a_round_of_the_source_never_fails_and_trades_at_one_price_within_both_limits.

(* ... C08: the storage invariant of the price / volume / counter series holds after any history of the source *)
Theorem the_series_are_well_stored_along_histories_of_the_source : forall id tk mp0 f0 ops, Forall valid_op ops ->
  store_ok (fst (exec_with step_src (init_market id tk mp0) (OTick f0 :: ops))).
Proof.
  intros id tk mp0 f0 ops Hv. rewrite (histories_of_the_source_from_setup id tk mp0 f0 ops Hv). cbn [fst].
  apply reachable_store_ok. apply store_ok_init.
Qed.
Print Assumptions the_series_are_well_stored_along_histories_of_the_source.

(* ---- the transfer principle, stated once: WHATEVER the model's theorems say of the final state and the trace of a history is true of the
   state reached and the records emitted by the source's own statements along that history ---- *)
Theorem every_theorem_about_histories_of_the_model_is_one_about_the_source :
  forall (P : market -> list record -> Prop) id tk mp0 f0 ops, Forall valid_op ops ->
  P (final_state (init_market id tk mp0) (OTick f0 :: ops)) (trace (init_market id tk mp0) (OTick f0 :: ops)) ->
  let '(m, rs) := exec_with step_src (init_market id tk mp0) (OTick f0 :: ops) in P m rs.
Proof. intros P id tk mp0 f0 ops Hv H. rewrite (histories_of_the_source_from_setup id tk mp0 f0 ops Hv). exact H. Qed.
Print Assumptions every_theorem_about_histories_of_the_model_is_one_about_the_source.

(* ... C04: every order resting after a history of the source is within its lifetime, no id rests on both sides, the ids of departed
   orders lie below the id counter *)
Theorem resting_orders_are_within_their_lifetime_along_histories_of_the_source : forall id tk mp0 f0 ops, Forall valid_op ops ->
  life_ok (fst (exec_with step_src (init_market id tk mp0) (OTick f0 :: ops))).
Proof.
  intros id tk mp0 f0 ops Hv. rewrite (histories_of_the_source_from_setup id tk mp0 f0 ops Hv). cbn [fst].
  apply reachable_life_ok; [apply life_ok_init|constructor; [exact I|exact Hv]].
Qed.

(* ... C04: once the source has reported the first terminal event of an order with volume t, nothing of it rests and its fills sum to
   accepted - t, whatever the source does afterwards *)
Theorem a_terminal_report_is_final_along_histories_of_the_source : forall id tk mp0 f0 ops, Forall valid_op ops ->
  let '(m, rs) := exec_with step_src (init_market id tk mp0) (OTick f0 :: ops) in
  forall i v0 t, accepted rs i = Some v0 -> term rs i = Some t -> rest_vol m i = 0 /\ filled rs i = v0 - t.
Proof.
  intros id tk mp0 f0 ops Hv. rewrite (histories_of_the_source_from_setup id tk mp0 f0 ops Hv).
  apply (terminal_volume_is_final id tk mp0 (OTick f0 :: ops)). constructor; [exact I|exact Hv].
Qed.

(* ... C04: the ids under which the source accepts orders along a history are fresh consecutive integers *)
Theorem accepted_ids_are_fresh_and_consecutive_along_histories_of_the_source : forall id tk mp0 f0 ops, Forall valid_op ops ->
  exists n, accepted_ids (snd (exec_with step_src (init_market id tk mp0) (OTick f0 :: ops))) =
            map (fun k => m_next (init_market id tk mp0) + Z.of_nat k) (seq 0 n).
Proof.
  intros id tk mp0 f0 ops Hv. rewrite (histories_of_the_source_from_setup id tk mp0 f0 ops Hv). cbn [snd].
  apply accepted_ids_increasing.
Qed.

(* ... C06: the clock of the source never runs backwards *)
Theorem the_clock_never_runs_backwards_along_histories_of_the_source : forall id tk mp0 f0 ops more, Forall valid_op ops -> Forall valid_op more ->
  m_time (fst (exec_with step_src (init_market id tk mp0) (OTick f0 :: ops))) <=
  m_time (fst (exec_with step_src (init_market id tk mp0) (OTick f0 :: ops ++ more))).
Proof.
  intros id tk mp0 f0 ops more Hv Hm. rewrite (histories_of_the_source_from_setup id tk mp0 f0 ops Hv).
  rewrite (histories_of_the_source_from_setup id tk mp0 f0 (ops ++ more)) by (apply Forall_app; split; assumption). cbn [fst].
  change (OTick f0 :: ops ++ more) with ((OTick f0 :: ops) ++ more).
  assert (F : forall a b m0, final_state m0 (a ++ b) = final_state (final_state m0 a) b).
  { induction a as [|o r IH]; intros b m0; [reflexivity|]. cbn [app final_state]. destruct (step m0 o) as [[m' x]|]; apply IH. }
  rewrite F. apply final_state_time_mono.
Qed.
Print Assumptions resting_orders_are_within_their_lifetime_along_histories_of_the_source.
Print Assumptions a_terminal_report_is_final_along_histories_of_the_source.
Print Assumptions accepted_ids_are_fresh_and_consecutive_along_histories_of_the_source.
Print Assumptions the_clock_never_runs_backwards_along_histories_of_the_source.

(* ... C19: an order the source accepts is recorded - and rests - at the model's rounded price: on the grid, and for an off-grid limit
   strictly less than a tick below (buy) / above (sell) what was submitted *)
Theorem an_order_accepted_by_the_source_carries_the_rounded_price : forall m ag mk buy p v ttlv m' r,
  0 <= m_time m -> (0 < m_tick m)%Q -> add_order_gen m ag mk buy (Some p) v ttlv None None = Ok (m', r) ->
  exists o, r = ROrder o /\ price o = Some (round_price (m_tick m) buy p) /\ vol o = v /\ placed o = m_time m /\ oid o = m_next m /\
            (exists k : Z, round_price (m_tick m) buy p == inject_Z k * m_tick m)%Q /\
            (if buy then round_price (m_tick m) true p <= p /\ p - m_tick m < round_price (m_tick m) true p
             else p <= round_price (m_tick m) false p /\ round_price (m_tick m) false p < p + m_tick m)%Q.
Proof.
  intros m ag mk buy p v ttlv m' r Ht Hk H. rewrite gen_add_order_is_add_order in H by exact Ht. unfold add_order in H.
  destruct (m_time m <? 0); [discriminate|]. destruct (negb (mk =? m_id m)); [discriminate|].
  inversion H; subst. eexists. split; [reflexivity|]. cbn [price vol placed oid]. repeat split; try reflexivity.
  - apply round_on_grid. exact Hk.
  - destruct buy; [apply buy_rounds_down|apply sell_rounds_up]; exact Hk.
Qed.
Print Assumptions an_order_accepted_by_the_source_carries_the_rounded_price.

(* the premises of the single-step tie hold of the state any history of the source reaches from setup *)
Lemma the_state_a_history_reaches_meets_the_premises : forall id tk mp0 f0 ops, Forall valid_op ops ->
  let mf := final_state (init_market id tk mp0) (OTick f0 :: ops) in book_ok mf /\ gone_here mf /\ 0 <= m_time mf.
Proof.
  intros id tk mp0 f0 ops Hv. cbn [final_state]. unfold step. cbn [step_rec bind].
  destruct (tick (init_market id tk mp0) f0) as [m1 rs1] eqn:Et.
  assert (Hm1 : m1 = fst (tick (init_market id tk mp0) f0)) by (rewrite Et; reflexivity).
  pose proof (premises_travel ops m1) as K. rewrite exec_rec_is_final_and_trace in K. cbn [fst] in K. apply K; [| | |exact Hv].
  - rewrite Hm1. apply tick_ok. apply book_ok_init.
  - rewrite Hm1. unfold gone_here. cbn. constructor.
  - rewrite Hm1. cbn. lia.
Qed.

(* ... C03, the postcondition: whenever a round carried out by the source's own statements returns after ANY history of the source, the
   books it leaves do not cross - if both sides still hold an order and one of the two best is a limit order, both are, and the best buy
   is strictly below the best sell *)
Theorem a_round_of_the_source_leaves_books_that_do_not_cross : forall id tk mp0 f0 ops, Forall valid_op ops ->
  let m := fst (exec_with step_src (init_market id tk mp0) (OTick f0 :: ops)) in
  forall m' logs b bs s ss, execution_src m = Ok (m', logs) -> m_buys m' = b :: bs -> m_sells m' = s :: ss ->
  (price b <> None \/ price s <> None) -> exists pb ps, price b = Some pb /\ price s = Some ps /\ (pb < ps)%Q.
Proof.
  intros id tk mp0 f0 ops Hv.
  rewrite (histories_of_the_source_from_setup id tk mp0 f0 ops Hv). cbn [fst].
  pose proof (the_state_a_history_reaches_meets_the_premises id tk mp0 f0 ops Hv) as P.
  set (m := final_state (init_market id tk mp0) (OTick f0 :: ops)) in *. cbv zeta in P. destruct P as [HB [HG Ht]].
  intros m' logs b bs s ss Ex. pose proof (step_src_is_step_rec m OExec HB HG Ht) as E. cbn [step_src step_rec] in E.
  rewrite E in Ex. exact (round_clears_book m m' logs b bs s ss Ex).
Qed.
Print Assumptions a_round_of_the_source_leaves_books_that_do_not_cross.

(* ... C03 / C16, the stopped market: after ANY history of the source, a round on a market that is not running either changes nothing and
   reports nothing, or is refused with the documented "market is not running" - and a round that returns fills was on a running market *)
Theorem a_round_of_the_source_on_a_stopped_market_trades_nothing : forall id tk mp0 f0 ops, Forall valid_op ops ->
  let m := fst (exec_with step_src (init_market id tk mp0) (OTick f0 :: ops)) in
  (m_running m = false -> execution_src m = Ok (m, []) \/ execution_src m = Err EAssertNotRunning) /\
  (forall m' logs, execution_src m = Ok (m', logs) -> logs <> [] -> m_running m = true).
Proof.
  intros id tk mp0 f0 ops Hv.
  rewrite (histories_of_the_source_from_setup id tk mp0 f0 ops Hv). cbn [fst].
  pose proof (the_state_a_history_reaches_meets_the_premises id tk mp0 f0 ops Hv) as P.
  set (m := final_state (init_market id tk mp0) (OTick f0 :: ops)) in *. cbv zeta in P. destruct P as [HB [HG Ht]].
  pose proof (step_src_is_step_rec m OExec HB HG Ht) as E. cbn [step_src step_rec] in E. rewrite E. split.
  - intros Hr. exact (execution_not_running m HB Hr).
  - intros m' logs Ex. exact (no_fill_when_not_running m m' logs Ex).
Qed.
Print Assumptions a_round_of_the_source_on_a_stopped_market_trades_nothing.

(* ... C04: an order whose cancel the source's own _cancel_order accepted after ANY history of the source is named by no fill the source
   reports afterwards, whatever valid operations follow *)
Theorem an_order_the_source_cancelled_is_never_filled_afterwards : forall id tk mp0 f0 ops more i, Forall valid_op ops -> Forall valid_op more ->
  forall m1 rs, step_src (fst (exec_with step_src (init_market id tk mp0) (OTick f0 :: ops))) (OCancel i) = Ok (m1, rs) ->
  forall x, In x (snd (exec_with step_src m1 more)) -> ~ fill_names x i.
Proof.
  intros id tk mp0 f0 ops more i Hv Hm.
  pose proof (resting_orders_are_within_their_lifetime_along_histories_of_the_source id tk mp0 f0 ops Hv) as HL.
  rewrite (histories_of_the_source_from_setup id tk mp0 f0 ops Hv) in *. cbn [fst] in *.
  pose proof (the_state_a_history_reaches_meets_the_premises id tk mp0 f0 ops Hv) as P.
  set (m := final_state (init_market id tk mp0) (OTick f0 :: ops)) in *. cbv zeta in P. destruct P as [HB [HG Ht]].
  intros m1 rs E. rewrite (step_src_is_step_rec m (OCancel i) HB HG Ht) in E.
  rewrite every_history_of_the_source_is_a_history_of_the_model; [| | | |exact Hm].
  - rewrite exec_rec_is_final_and_trace. cbn [snd].
    cbn [step_rec] in E. destruct (cancel_order m i) as [[m' r]|e] eqn:Ec; cbn [bind] in E; [|discriminate].
    inversion E; subst. exact (no_fill_after_cancel m i m1 r more HL Ec Hm).
  - exact (step_rec_ok m (OCancel i) m1 rs HB I E).
  - exact (proj1 (proj2 (step_rec_mkt m (OCancel i) m1 rs HB HG E))).
  - pose proof (step_rec_time_mono m (OCancel i) m1 rs E). lia.
Qed.
Print Assumptions an_order_the_source_cancelled_is_never_filled_afterwards.

(* ... C04: an order the source's own _update_time reported expired after ANY history of the source is named by no fill the source
   reports afterwards, whatever valid operations follow *)
Theorem an_order_the_source_reported_expired_is_never_filled_afterwards : forall id tk mp0 f0 ops more f o t,
  Forall valid_op ops -> Forall valid_op more ->
  forall m1 rs, step_src (fst (exec_with step_src (init_market id tk mp0) (OTick f0 :: ops))) (OTick f) = Ok (m1, rs) -> In (RExpire o t) rs ->
  forall x, In x (snd (exec_with step_src m1 more)) -> ~ fill_names x (oid o).
Proof.
  intros id tk mp0 f0 ops more f o t Hv Hm.
  pose proof (resting_orders_are_within_their_lifetime_along_histories_of_the_source id tk mp0 f0 ops Hv) as HL.
  rewrite (histories_of_the_source_from_setup id tk mp0 f0 ops Hv) in *. cbn [fst] in *.
  pose proof (the_state_a_history_reaches_meets_the_premises id tk mp0 f0 ops Hv) as P.
  set (m := final_state (init_market id tk mp0) (OTick f0 :: ops)) in *. cbv zeta in P. destruct P as [HB [HG Ht]].
  intros m1 rs E Hin. rewrite (step_src_is_step_rec m (OTick f) HB HG Ht) in E.
  rewrite every_history_of_the_source_is_a_history_of_the_model; [| | | |exact Hm].
  - rewrite exec_rec_is_final_and_trace. cbn [snd].
    cbn [step_rec] in E. destruct (tick m f) as [m' r'] eqn:Et. inversion E; subst.
    assert (E1 : m1 = fst (tick m f)) by (rewrite Et; reflexivity). assert (E2 : rs = snd (tick m f)) by (rewrite Et; reflexivity).
    rewrite E1. apply (no_fill_after_expiry m f o t more HL); [rewrite <- E2; exact Hin|exact Hm].
  - exact (step_rec_ok m (OTick f) m1 rs HB I E).
  - exact (proj1 (proj2 (step_rec_mkt m (OTick f) m1 rs HB HG E))).
  - pose proof (step_rec_time_mono m (OTick f) m1 rs E). lia.
Qed.
Print Assumptions an_order_the_source_reported_expired_is_never_filled_afterwards.

(* non-vacuity: the premises hold of a market after its first clock step, and a history with an order on each side, a round, a cancel of
   the rest and a clock step runs through the generated functions to a trade and a cancellation *)
Example source_history_example :
  let m := fst (update_time_gen (init_market 0 (1#1) (100#1)) (100#1)) <| m_running := true |> in
  (book_ok m /\ gone_here m /\ 0 <= m_time m) /\
  let '(mf, recs) := exec_with step_src m [OAdd 7 0 true (Some (100#1)) 5 None; OAdd 8 0 false (Some (100#1)) 3 (Some 2); OExec; OCancel 0; OTick (101#1)] in
  length recs = 4%nat /\ m_buys mf = [] /\ m_sells mf = [] /\ m_time mf = 1 /\ getz (m_vol mf) 0 = 3.
Proof.
  intros m.
  assert (Hb : m_buys m = []) by (vm_compute; reflexivity). assert (Hs : m_sells m = []) by (vm_compute; reflexivity).
  assert (Hg : m_gone m = []) by (vm_compute; reflexivity). assert (Ht : m_time m = 0) by (vm_compute; reflexivity).
  split.
  - split; [unfold book_ok; rewrite Hb, Hs; split; apply side_ok_nil|]. split; [unfold gone_here; rewrite Hg; constructor|lia].
  - vm_compute. repeat split.
Qed.
