(* Theorems about the GENERATED text of IndexMarket.compute_market_index / compute_fundamental_index (IndexGen.v, regenerated from
   /repo every run). *)
Require Import Pams.Prelude Pams.Match Pams.Market Pams.OrderPy Pams.Sim Pams.SimProps Pams.StatePy.
Require Import PamsGen.IndexGen.
From Coq Require Import QArith.
Open Scope Z_scope.

Definition resolved (s : sim) (get : mkt -> option Q) (i : Z) (pz : Q * Z) : Prop :=
  exists c, find_mkt i (s_markets s) = Some c /\ get c = Some (fst pz) /\ mk_shares c = snd pz.

Lemma qeqb_inject z : qeqb (inject_Z z) (0#1) = (z =? 0).
Proof. unfold qeqb, Qeq_bool, inject_Z. simpl. destruct z; reflexivity. Qed.

(* the model's walk over the component ids and the generated walk over the values read from the components keep the same
   two accumulators *)
Lemma walks_agree s get (gstep : Q * Z -> Q * Z -> Q * Z) :
  (forall tv ts p sh, gstep (tv, ts) (p, sh) = (qadd tv (qmul p (inject_Z sh)), ts + sh)) ->
  forall comps l, Forall2 (resolved s get) comps l -> forall tv ts,
  fold_left (fun (acc : option (Q * Z)) (i : Z) =>
    match acc, find_mkt i (s_markets s) with
    | Some (tv, ts), Some c => match get c with
                               | Some p => Some (qadd tv (qmul p (qofz (mk_shares c))), ts + mk_shares c)
                               | None => None
                               end
    | _, _ => None
    end) comps (Some (tv, ts)) = Some (fold_left gstep l (tv, ts)).
Proof.
  intros Hg comps l F. induction F as [|i [p sh] comps l [c [Fc [Gc Sc]]] F IH]; intros tv ts; [reflexivity|].
  simpl in Gc, Sc. cbn [fold_left]. rewrite Fc, Gc, Sc, Hg. unfold qofz. apply IH.
Qed.

Lemma gen_is_wavg s get (gstep : Q * Z -> Q * Z -> Q * Z) :
  (forall tv ts p sh, gstep (tv, ts) (p, sh) = (qadd tv (qmul p (inject_Z sh)), ts + sh)) ->
  forall comps l, Forall2 (resolved s get) comps l ->
  (let '(tv, ts) := fold_left gstep l ((0#1), 0) in pdiv tv (inject_Z ts)) =
  match wavg s comps get with Some x => POk x | None => PErr PyZeroDivisionError end.
Proof.
  intros Hg comps l F. unfold wavg. rewrite (walks_agree s get gstep Hg comps l F).
  destruct (fold_left gstep l (0#1, 0)) as [tv ts]. unfold pdiv. rewrite qeqb_inject. destruct (ts =? 0); reflexivity.
Qed.

(* IndexMarket.compute_market_index, as the source says it now, is the model's weighted average - the function the C17 theorems
   and every step record of an index market are about - and raises ZeroDivisionError exactly where the model has no value
   although every component resolves (no components, or shares summing to zero) *)
Theorem gen_market_index_is_model : forall s get comps l, Forall2 (resolved s get) comps l ->
  market_index_gen l = match wavg s comps get with Some x => POk x | None => PErr PyZeroDivisionError end.
Proof.
  intros s get comps l F. unfold market_index_gen. apply (gen_is_wavg s get market_index_gen_step); [|exact F].
  intros tv ts p sh. reflexivity.
Qed.
Print Assumptions gen_market_index_is_model.

Theorem gen_fundamental_index_is_model : forall s get comps l, Forall2 (resolved s get) comps l ->
  fundamental_index_gen l = match wavg s comps get with Some x => POk x | None => PErr PyZeroDivisionError end.
Proof.
  intros s get comps l F. unfold fundamental_index_gen. apply (gen_is_wavg s get fundamental_index_gen_step); [|exact F].
  intros tv ts p sh. reflexivity.
Qed.
Print Assumptions gen_fundamental_index_is_model.

(* stated on the generated function alone: the share-weighted average *)
Theorem gen_market_index_is_weighted_average : forall l x, market_index_gen l = POk x ->
  sum_z (map snd l) <> 0 /\ (x == sum_q (map (fun pz => fst pz * inject_Z (snd pz)) l) / inject_Z (sum_z (map snd l)))%Q.
Proof.
  intros l x. unfold market_index_gen.
  assert (G : forall l tv ts, let '(tv', ts') := fold_left market_index_gen_step l (tv, ts) in
            ts' = ts + sum_z (map snd l) /\ (tv' == tv + sum_q (map (fun pz => fst pz * inject_Z (snd pz)) l))%Q).
  { clear. induction l as [|[p sh] r IH]; intros tv ts; cbn [fold_left map sum_z sum_q].
    - split; [lia|ring].
    - specialize (IH (qadd tv (qmul p (inject_Z sh))) (ts + sh)).
      change (market_index_gen_step (tv, ts) (p, sh)) with (qadd tv (qmul p (inject_Z sh)), ts + sh).
      destruct (fold_left market_index_gen_step r (qadd tv (qmul p (inject_Z sh)), ts + sh)) as [tv' ts'].
      destruct IH as [A B]. split; [simpl; lia|]. rewrite B, qadd_eq, qmul_eq. simpl. ring. }
  specialize (G l (0#1) 0). destruct (fold_left market_index_gen_step l (0#1, 0)) as [tv ts]. destruct G as [A B].
  unfold pdiv. rewrite qeqb_inject. destruct (ts =? 0) eqn:Ez; [discriminate|]. apply Z.eqb_neq in Ez.
  intros H. inversion H; subst x. simpl in A. subst ts. split; [exact Ez|].
  rewrite qdiv_eq, B. field. intro C. unfold Qeq in C. simpl in C. lia.
Qed.
Print Assumptions gen_market_index_is_weighted_average.

Example gen_index_example :
  market_index_gen [((100#1), 100); ((200#1), 300)] = POk (175#1) /\ market_index_gen [] = PErr PyZeroDivisionError /\
  fundamental_index_gen [((10#1), 1); ((20#1), 1); ((60#1), 2)] = POk (75#2).
Proof. vm_compute. repeat split. Qed.
