(* Theorems about the GENERATED text of Market._update_market_price (CellsGen.v, regenerated from /repo every run). *)
Require Import Pams.Prelude Pams.Match Pams.Market Pams.MatchQ Pams.MarketInv Pams.MarketPrice Pams.OrderPy Pams.CellsPy.
Require Import PamsGen.CellsGen.
From Coq Require Import QArith.
From RecordUpdate Require Import RecordSet.
Import RecordSetNotations.
Open Scope Z_scope.

(* what the method stores, as the source says it now: the mid price is the mean of the two best LIMIT prices when both exist and is
   undefined otherwise; while the market is running the market price becomes the last executed price of this step if there is one,
   otherwise the mid price if there is one, otherwise it keeps its value; a stopped market keeps its market price.  It never raises. *)
Theorem gen_ump_spec : forall bb bs running last mid mp,
  ump_gen bb bs running last mid mp =
  POk (let mid' := match bb, bs with Some b, Some s => Some (qdiv (qadd s b) (2#1)) | _, _ => None end in
       (mid', if running then match last with Some l => Some l | None => match mid' with Some x => Some x | None => mp end end else mp)).
Proof. intros [b|] [s|] [|] [l|] mid mp; reflexivity. Qed.
Print Assumptions gen_ump_spec.

(* ... which is the model's update_market_price (the function the C08 theorems are about) on the two series at the current time *)
Theorem gen_ump_is_model : forall m, let t := m_time m in
  series_ok m -> 0 <= t ->
  ump_gen (best_price (m_buys m)) (best_price (m_sells m)) (m_running m) (geto (m_last m) t) (geto (m_mid m) t) (geto (m_mp m) t) =
  POk (geto (m_mid (update_market_price m)) t, geto (m_mp (update_market_price m)) t).
Proof.
  intros m t S Ht. rewrite gen_ump_spec. rewrite (ump_mid m t S eq_refl Ht), (ump_market_price m t S eq_refl Ht).
  unfold book_mid. reflexivity.
Qed.
Print Assumptions gen_ump_is_model.

Example gen_ump_example :
  ump_gen (Some (100#1)) (Some (102#1)) true None None (Some (90#1)) = POk (Some (101#1), Some (101#1)) /\
  ump_gen (Some (100#1)) (Some (102#1)) true (Some (99#1)) None (Some (90#1)) = POk (Some (101#1), Some (99#1)) /\
  ump_gen (Some (100#1)) None true None (Some (7#1)) (Some (90#1)) = POk (None, Some (90#1)) /\
  ump_gen (Some (100#1)) (Some (102#1)) false (Some (99#1)) None (Some (90#1)) = POk (Some (101#1), Some (90#1)).
Proof. vm_compute. repeat split. Qed.
