From Coq Require Import ZArith QArith List Bool.
Require Import Walk.
Import ListNotations.
Open Scope Z_scope.
Definition qlt (a b: Q) : bool := negb (Qle_bool b a).
Definition O := order Q.
Definition mk (i: Z) (b: bool) (p: option Q) (v t: Z) : O := mkO Q i b p v t.
Definition run (bs ss: list O) := walk Q qlt 200 None None bs ss None [].
Definition fill_sig (f: fill Q) : Z * Z * Z := match f with Fill _ v b s => (v, oid Q b, oid Q s) end.
Definition obs (bs ss: list O) : option Q * list (Z*Z*Z) := let r := run bs ss in (fst r, map fill_sig (snd r)).
Definition teq (x y: Z*Z*Z) : bool := let '(a1,a2,a3) := x in let '(b1,b2,b3) := y in (a1 =? b1) && (a2 =? b2) && (a3 =? b3).
Fixpoint leq (a b: list (Z*Z*Z)) : bool := match a, b with [], [] => true | x::a', y::b' => teq x y && leq a' b' | _, _ => false end.
Definition eq_obs (a b: option Q * list (Z*Z*Z)) : bool :=
  (match fst a, fst b with Some x, Some y => Qeq_bool x y | None, None => true | _, _ => false end) && leq (snd a) (snd b).
Fixpoint mism (i: nat) (l: list (list O * list O * (option Q * list (Z*Z*Z)))) : list nat :=
  match l with [] => [] | (bs, ss, e) :: r => if eq_obs (obs bs ss) e then mism (S i) r else i :: mism (S i) r end.
