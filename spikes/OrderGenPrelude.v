From Coq Require Import ZArith Bool Lia.
Open Scope Z_scope.
Inductive kind := MARKET_ORDER | LIMIT_ORDER.
Definition kind_eqb a b := match a, b with MARKET_ORDER, MARKET_ORDER | LIMIT_ORDER, LIMIT_ORDER => true | _, _ => false end.
Record order := { o_id : option Z; o_buy : bool; o_kind : kind; o_price : option Z; o_placed : option Z }.
Inductive err := EValueError | ENotImplementedError | EAssertionError | ENotComparable.
Inductive res (A: Type) := Ok (a: A) | Err (e: err).
Arguments Ok {A}. Arguments Err {A}.
Definition is_none {A} (x: option A) := match x with None => true | _ => false end.
Definition lift (f: Z -> Z -> bool) (a b: option Z) := match a, b with Some x, Some y => f x y | _, _ => false end.
Definition oz_lt := lift Z.ltb. Definition oz_gt := lift Z.gtb. Definition oz_ne := lift (fun x y => negb (x =? y)).
Definition oq_lt := lift Z.ltb. Definition oq_gt := lift Z.gtb. Definition oq_ne := lift (fun x y => negb (x =? y)).
Definition check_comparable (a b: order) := Bool.eqb (o_buy a) (o_buy b).
