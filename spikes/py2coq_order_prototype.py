"""Prototype: fail-closed translation of pams/order.py comparator to Gallina."""
import ast, sys, textwrap
src = open("/repo/pams/order.py").read()
mod = ast.parse(src)
cls = [n for n in mod.body if isinstance(n, ast.ClassDef) and n.name == "Order"][0]
funcs = {n.name: n for n in cls.body if isinstance(n, ast.FunctionDef)}

class Unsupported(Exception): pass
FIELDS = {"price": "o_price", "placed_at": "o_placed", "order_id": "o_id", "is_buy": "o_buy", "kind": "o_kind"}
OPT = {"price", "placed_at", "order_id"}        # Optional[...] fields

def expr(e, env):
    """returns Coq term of type bool (for tests) ; env maps python names to coq vars"""
    if isinstance(e, ast.BoolOp):
        op = "&&" if isinstance(e.op, ast.And) else "||"
        return "(" + (" %s " % op).join(expr(v, env) for v in e.values) + ")"
    if isinstance(e, ast.UnaryOp) and isinstance(e.op, ast.Not):
        return "(negb %s)" % expr(e.operand, env)
    if isinstance(e, ast.Constant) and isinstance(e.value, bool):
        return "true" if e.value else "false"
    if isinstance(e, ast.Name) and e.id in env and env[e.id][1] == "bool":
        return env[e.id][0]
    if isinstance(e, ast.Attribute) and e.attr == "is_buy":
        return attr(e, env)
    if isinstance(e, ast.IfExp):
        return "(if %s then %s else %s)" % (expr(e.test, env), expr(e.body, env), expr(e.orelse, env))
    if isinstance(e, ast.Compare) and len(e.ops) == 1:
        l, r, op = e.left, e.comparators[0], e.ops[0]
        # x.f is None / is not None
        if isinstance(r, ast.Constant) and r.value is None and isinstance(op, (ast.Is, ast.IsNot)):
            t = "(is_none %s)" % attr(l, env)
            return t if isinstance(op, ast.Is) else "(negb %s)" % t
        # kind comparisons against constants
        if isinstance(l, ast.Attribute) and l.attr == "kind" and isinstance(r, ast.Name) and r.id in ("MARKET_ORDER", "LIMIT_ORDER"):
            t = "(kind_eqb %s %s)" % (attr(l, env), r.id)
            if isinstance(op, ast.Eq): return t
            if isinstance(op, ast.NotEq): return "(negb %s)" % t
        if isinstance(l, ast.Attribute) and isinstance(r, ast.Attribute) and l.attr == r.attr:
            f = l.attr
            cmpf = {"price": "q", "placed_at": "z", "order_id": "z", "is_buy": "b", "kind": "k"}[f]
            a, b = attr(l, env), attr(r, env)
            opn = {ast.Lt: "lt", ast.Gt: "gt", ast.Eq: "eq", ast.NotEq: "ne"}.get(type(op))
            if opn is None: raise Unsupported(ast.dump(e))
            if f in OPT: return "(o%s_%s %s %s)" % (cmpf, opn, a, b)     # comparison on options (defined after None-guards)
            return "(%s_%s %s %s)" % (cmpf, opn, a, b)
    raise Unsupported(ast.dump(e))

def attr(e, env):
    if isinstance(e, ast.Attribute) and isinstance(e.value, ast.Name) and e.value.id in env and e.attr in FIELDS:
        return "(%s %s)" % (FIELDS[e.attr], env[e.value.id][0])
    raise Unsupported(ast.dump(e))

def stmts(body, env, helpers):
    """translate a statement list that must end in return/raise on every path -> Coq term of type `res bool`"""
    if not body: raise Unsupported("fallthrough")
    s, rest = body[0], body[1:]
    if isinstance(s, ast.Expr) and isinstance(s.value, ast.Call) and isinstance(s.value.func, ast.Attribute) and s.value.func.attr == "_check_comparability":
        return "(if check_comparable %s %s then %s else Err ENotComparable)" % (env["self"][0], env["other"][0], stmts(rest, env, helpers))
    if isinstance(s, ast.Assign) and isinstance(s.value, ast.Call) and getattr(s.value.func, "id", None) == "cast":
        return stmts(rest, env, helpers)                      # other = cast(Order, other)
    if isinstance(s, ast.FunctionDef):
        helpers[s.name] = s; return stmts(rest, env, helpers)
    if isinstance(s, ast.Return):
        v = s.value
        if isinstance(v, ast.Call) and isinstance(v.func, ast.Name) and v.func.id in helpers:
            h = helpers[v.func.id]
            kw = {k.arg: k.value for k in v.keywords}
            env2 = dict(env)
            for a in h.args.args: env2[a.arg] = env[kw[a.arg].id]
            return stmts(h.body, env2, helpers)                # inline the nested helper
        return "(Ok %s)" % expr(v, env)
    if isinstance(s, ast.Raise):
        name = s.exc.func.id if isinstance(s.exc, ast.Call) else s.exc.id
        return "(Err E%s)" % name
    if isinstance(s, ast.If):
        els = s.orelse if s.orelse else rest
        thn = s.body if terminates(s.body) else s.body + rest
        return "(if %s\n then %s\n else %s)" % (expr(s.test, env), stmts(thn, env, helpers), stmts(els if s.orelse and terminates(s.orelse) else (s.orelse + rest if s.orelse else rest), env, helpers))
    raise Unsupported(ast.dump(s)[:200])

def terminates(body):
    if not body: return False
    l = body[-1]
    if isinstance(l, (ast.Return, ast.Raise)): return True
    if isinstance(l, ast.If): return terminates(l.body) and bool(l.orelse) and terminates(l.orelse)
    return False

env = {"self": ("self", "order"), "other": ("other", "order"), "gt": ("gt", "bool")}
body = [s for s in funcs["_gt_lt"].body if not (isinstance(s, ast.Expr) and isinstance(s.value, ast.Constant))]
print("Definition gt_lt_gen (self other : order) (gt : bool) : res bool :=\n" + stmts(body, env, {}) + ".")
