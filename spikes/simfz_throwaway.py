import random, warnings, sys, traceback, copy, math
warnings.simplefilter("ignore")
from pams.runners import SequentialRunner
from pams.logs import Logger
from pams.agents import Agent, HighFrequencyAgent
from pams.order import Order, LIMIT_ORDER, MARKET_ORDER, Cancel
from pams.events import EventABC, EventHook
from pams.index_market import IndexMarket

class Ctx: pass
CTX=None
def snap(m):
    t=m.get_time()
    return dict(t=t, mp=m.get_market_price(), mid=m.get_mid_price(), last=m.get_last_executed_price(), fund=m.get_fundamental_price(),
                ev=m.get_executed_volume(), et=m.get_executed_total_price(), nb=m.get_n_buy_order(), ns=m.get_n_sell_order(),
                bb=m.get_best_buy_price(), bs=m.get_best_sell_price(), run=m.is_running,
                bbo=m.buy_order_book.get_best_order(), bso=m.sell_order_book.get_best_order())
def check_price_rule(m, prev_mp, where):
    s=snap(m)
    bbo,bso=s['bbo'],s['bso']
    exp_mid = (bso.price+bbo.price)/2.0 if (bbo is not None and bso is not None and bbo.price is not None and bso.price is not None) else None
    if where!='tick' and s['mid']!=exp_mid: CTX.fail("C08 mid %s %s %s"%(where,s['mid'],exp_mid))
    if s['run']:
        exp = s['last'] if s['last'] is not None else (s['mid'] if s['mid'] is not None else prev_mp)
        if s['mp']!=exp: CTX.fail("C08 mp rule %s mp=%s exp=%s"%(where,s['mp'],exp))
    else:
        if s['mp']!=prev_mp: CTX.fail("C08 frozen %s"%where)
    return s['mp']

class Rec(Logger):
    def __init__(s): super().__init__(); s.rec=[]
    def process_order_log(s, log): s.rec.append(("O",log.market_id,log.order_id))
    def process_execution_log(s, log): s.rec.append(("X",log.market_id,log.buy_order_id,log.sell_order_id,log.time))
    def process_cancel_log(s, log): s.rec.append(("C",log.market_id,log.order_id))
    def process_expiration_log(s, log): s.rec.append(("E",log.market_id,log.order_id))
    def process_market_step_begin_log(s, log):
        c=CTX; m=log.market
        c.steps.append(("SB",m.market_id,m.get_time(),log.session.session_id))
        ts={mm.get_time() for mm in c.sim.markets}
        if len(ts)!=1: c.fail("C06 lockstep")
    def process_market_step_end_log(s, log):
        c=CTX; m=log.market
        # history immutability
        t=m.get_time()
        cur=(m.get_market_prices(), m.get_mid_prices(), m.get_last_executed_prices(), m.get_fundamental_prices(), m.get_executed_volumes(), m.get_executed_total_prices(), m.get_n_buy_orders(), m.get_n_sell_orders())
        old=c.hist.get(m.market_id)
        if old is not None:
            for a,b in zip(old,cur):
                if a[:-1]!=b[:len(a)-1] : c.fail("C06 history changed (past)")
        c.hist[m.market_id]=cur
        for dt in (1,2):
            try: m.get_market_price(t+dt); c.fail("C06 future allowed")
            except AssertionError: pass
        if isinstance(m, IndexMarket):
            comps=m.get_components(); tot=sum(x.outstanding_shares for x in comps)
            e=sum(x.get_market_price()*x.outstanding_shares for x in comps)/tot
            if abs(m.get_index()-e)>1e-9*abs(e): c.fail("C17 index")
            e=sum(x.get_fundamental_price()*x.outstanding_shares for x in comps)/tot
            if abs(m.get_fundamental_price()-e)>1e-9*abs(e): c.fail("C17 fund")

class SAgent(Agent):
    def submit_orders(self, markets):
        c=CTX; rng=c.rng
        c.consult.append((c.sim.markets[0].get_time(), self.agent_id))
        out=[]
        for _ in range(rng.choice([0,1,1,2,3])):
            mids=[m.market_id for m in markets if self.is_market_accessible(m.market_id)]
            mid=rng.choice(mids); m=c.sim.id2market[mid]
            r=rng.random()
            mine=[o for o in c.my_orders[self.agent_id] if o.placed_at is not None]
            if r<0.2 and mine:
                out.append(Cancel(rng.choice(mine)))
            else:
                is_mkt=rng.random()<c.pmkt
                px=None if is_mkt else max(m.tick_size, m.get_market_price()+rng.randint(-6,6)*m.tick_size)
                o=Order(agent_id=self.agent_id,market_id=mid,is_buy=rng.random()<0.5,kind=MARKET_ORDER if is_mkt else LIMIT_ORDER,volume=rng.randint(1,5),price=px,ttl=rng.choice([None,1,2,3,5]))
                c.my_orders[self.agent_id].append(o); out.append(o)
        return out
    def submitted_order(self, log): CTX.cb.append(("S",self.agent_id,log.market_id,log.order_id))
    def canceled_order(self, log): CTX.cb.append(("C",self.agent_id,log.market_id,log.order_id))
    def executed_order(self, log):
        CTX.cb.append(("X",self.agent_id,log.market_id,log.buy_order_id,log.sell_order_id))
        # holdings must already include this round: compare with fold
        c=CTX
        exp=c.expected_holdings(self.agent_id)
        if (self.cash_amount, dict(self.asset_volumes))!=exp: c.fail("C05/C11 holdings at callback %s %s"%((self.cash_amount,self.asset_volumes),exp))
class HAgent(SAgent, HighFrequencyAgent): pass

class Probe(EventABC):
    def setup(self, settings, *a, **k): self.spec=settings["spec"]
    def hook_registration(self):
        hs=[]
        for i,(ht,before,times,inst,cls) in enumerate(self.spec):
            kw={}
            if inst is not None: kw['specific_instance']=self.simulator.id2market[inst]
            if cls=='index': kw['specific_class']=IndexMarket
            h=EventHook(event=self,hook_type=ht,is_before=before,time=times,**kw); h._idx=i; hs.append(h)
        self.hs=hs
        return hs
    def _r(self,kind,t,mid=None): CTX.hooks.append((self.event_id,kind,t,mid))
    def hooked_before_order(self, simulator, order):
        m=simulator.id2market[order.market_id]; self._r("order_before",m.get_time(),None)
        CTX.prev_mp[order.market_id]=m.get_market_price()
    def hooked_after_order(self, simulator, order_log):
        self._r("order_after",order_log.time,None)
        m=simulator.id2market[order_log.market_id]
        CTX.occ.append(("order",order_log.time,order_log.market_id))
        CTX.prev_mp[m.market_id]=check_price_rule(m, CTX.prev_mp[m.market_id], "add")
    def hooked_before_cancel(self, simulator, cancel):
        m=simulator.id2market[cancel.market_id]; self._r("cancel_before",m.get_time(),None); CTX.prev_mp[m.market_id]=m.get_market_price()
    def hooked_after_cancel(self, simulator, cancel_log):
        self._r("cancel_after",cancel_log.cancel_time,None)
        m=simulator.id2market[cancel_log.market_id]
        CTX.occ.append(("cancel",cancel_log.cancel_time,cancel_log.market_id))
        CTX.prev_mp[m.market_id]=check_price_rule(m, CTX.prev_mp[m.market_id], "cancel")
    def hooked_after_execution(self, simulator, execution_log):
        self._r("execution_after",execution_log.time,None)
        c=CTX; m=simulator.id2market[execution_log.market_id]
        c.occ.append(("exec",execution_log.time,execution_log.market_id))
        c.fills_seen.append(execution_log)
        if not c.running_at_round.get(m.market_id, True): c.fail("C16 fill on non running market")
        ses=simulator.current_session
        if not c.cfg_exec[ses.session_id]: c.fail("C09 fill in non-exec session t=%d"%execution_log.time)
    def hooked_before_session(self, simulator, session): self._r("session_before",session.session_start_time,None); CTX.occ.append(("sb",session.session_start_time,None))
    def hooked_after_session(self, simulator, session): self._r("session_after",session.session_start_time+session.iteration_steps-1,None); CTX.occ.append(("sa",session.session_start_time+session.iteration_steps-1,None))
    def hooked_before_step_for_market(self, simulator, market):
        self._r("market_before",market.get_time(),market.market_id)
    def hooked_after_step_for_market(self, simulator, market): self._r("market_after",market.get_time(),market.market_id)

def build(rng):
    nm=rng.randint(1,3)
    tick=rng.choice([1.0,0.5,0.25])
    cfg={"simulation":{"markets":[],"agents":["N","H"],"sessions":[]}}
    for i in range(nm):
        cfg["M%d"%i]={"class":"Market","tickSize":tick,"marketPrice":float(rng.randint(90,110)),"outstandingShares":rng.choice([1,2,3,5])*100}
        cfg["simulation"]["markets"].append("M%d"%i)
    has_idx = nm>=2 and rng.random()<0.4
    if has_idx:
        cfg["IDX"]={"class":"IndexMarket","tickSize":tick,"marketPrice":100.0,"outstandingShares":100,"markets":["M0","M1"]}
        cfg["simulation"]["markets"].append("IDX")
    mk=list(cfg["simulation"]["markets"])
    cfg["N"]={"class":"SAgent","numAgents":rng.randint(1,5),"markets":mk,"assetVolume":50,"cashAmount":10000}
    cfg["H"]={"class":"HAgent","numAgents":rng.randint(0,2),"markets":mk,"assetVolume":50,"cashAmount":10000}
    ns=rng.randint(1,3); evs=[]
    total=0
    for s in range(ns):
        steps=rng.choice([1,2,3,5,8,12]) if rng.random()<0.93 else rng.randint(95,130)
        ses={"sessionName":s,"iterationSteps":steps,"withOrderPlacement":rng.random()<0.85,"withOrderExecution":rng.random()<0.7,"withPrint":False,
             "maxNormalOrders":rng.choice([0,1,2,3,5]),"maxHighFrequencyOrders":rng.choice([0,1,2]),"highFrequencySubmitRate":rng.choice([0.0,0.5,1.0]),"events":[]}
        for k in range(rng.choice([0,1,1,2,3])):
            name="EV%d_%d"%(s,k); kind=rng.choice(["probe","probe","fps","oms","plr","thr"])
            tgt=rng.choice(mk[:nm])
            if kind=="probe":
                spec=[]
                for _ in range(rng.randint(1,3)):
                    ht=rng.choice(["order","cancel","execution","session","market"]); before=False if ht=="execution" else rng.random()<0.5
                    times=None if rng.random()<0.4 else [rng.randint(0,total+steps+2) for _ in range(rng.randint(1,4))]
                    inst=None; cls=None
                    if ht=="market" and rng.random()<0.5: inst=rng.randrange(len(mk))
                    if ht=="market" and rng.random()<0.2: cls='index'
                    spec.append((ht,before,times,inst,cls))
                cfg[name]={"class":"Probe","spec":spec}
            elif kind=="fps": cfg[name]={"class":"FundamentalPriceShock","target":tgt,"triggerTime":rng.randint(0,steps),"priceChangeRate":rng.choice([-0.5,-0.25,0.25,0.5]),"shockTimeLength":rng.randint(1,3),"enabled":rng.random()<0.9}
            elif kind=="oms": cfg[name]={"class":"OrderMistakeShock","target":tgt,"triggerTime":rng.randint(0,steps),"priceChangeRate":rng.choice([-0.25,-0.125,0.125,0.25]),"orderVolume":rng.randint(1,20),"orderTimeLength":rng.randint(1,4),"enabled":rng.random()<0.9}
            elif kind=="plr": cfg[name]={"class":"PriceLimitRule","targetMarkets":rng.sample(mk[:nm],rng.randint(1,nm)),"triggerChangeRate":rng.choice([0.03125,0.0625,0.125])}
            elif kind=="thr": cfg[name]={"class":"TradingHaltRule","targetMarkets":rng.sample(mk[:nm],rng.randint(1,nm)),"triggerChangeRate":rng.choice([0.015625,0.03125,0.0625]),"haltingTimeLength":rng.randint(1,4)}
            ses["events"].append(name)
        # always one all-hooks probe to observe everything
        total+=steps
        cfg["simulation"]["sessions"].append(ses)
    cfg["ALL"]={"class":"Probe","spec":[("order",True,None,None,None),("order",False,None,None,None),("cancel",True,None,None,None),("cancel",False,None,None,None),("execution",False,None,None,None),("session",True,None,None,None),("session",False,None,None,None),("market",True,None,None,None),("market",False,None,None,None)]}
    cfg["simulation"]["sessions"][0]["events"].insert(0,"ALL")
    return cfg

def run(seed, verbose=False):
    global CTX
    rng=random.Random(seed)
    cfg=build(rng); cfg0=copy.deepcopy(cfg)
    c=Ctx(); CTX=c
    c.rng=rng; c.pmkt=rng.choice([0,0.1,0.3]); c.consult=[]; c.cb=[]; c.hooks=[]; c.occ=[]; c.steps=[]; c.hist={}; c.my_orders={}; c.fills_seen=[]; c.prev_mp={}; c.running_at_round={}
    c.fails=[]
    def fail(msg): c.fails.append(msg)
    c.fail=fail
    c.cfg_exec={i:s["withOrderExecution"] for i,s in enumerate(cfg["simulation"]["sessions"])}
    lg=Rec()
    r=SequentialRunner(settings=cfg,prng=random.Random(seed+7),logger=lg)
    for k in (SAgent,HAgent,Probe): r.class_register(k)
    r._setup()
    c.sim=r.simulator
    for a in c.sim.agents: c.my_orders[a.agent_id]=[]
    init={a.agent_id:(a.cash_amount, dict(a.asset_volumes)) for a in c.sim.agents}
    def expected_holdings(aid):
        cash,assets=init[aid]; assets=dict(assets)
        for l in c.all_fills():
            if l.buy_agent_id==aid: cash-=l.price*l.volume; assets[l.market_id]+=l.volume
            if l.sell_agent_id==aid: cash+=l.price*l.volume; assets[l.market_id]-=l.volume
        return cash,assets
    c.expected_holdings=expected_holdings
    # wrap _execution on each market to capture rounds
    c.rounds=[]
    for m in c.sim.markets:
        orig=m._execution
        def wrapped(m=m,orig=orig):
            c.running_at_round[m.market_id]=m.is_running
            logs=orig(); c.rounds.append((m.market_id,m.get_time(),logs)); return logs
        m._execution=wrapped
    c.all_fills=lambda: [l for (_,_,logs) in c.rounds for l in logs]
    try:
        r._run()
    except Exception as e:
        c.fails.append("EXC %s %s"%(type(e).__name__, e))
        if verbose: traceback.print_exc()
    if cfg!=cfg0: c.fails.append("C07 settings mutated")
    # final holdings
    for a in c.sim.agents:
        if (a.cash_amount, dict(a.asset_volumes))!=expected_holdings(a.agent_id): c.fails.append("C05 final holdings")
    for m in c.sim.markets:
        tot=sum(a.asset_volumes[m.market_id]-init[a.agent_id][1][m.market_id] for a in c.sim.agents)
        if tot!=0: c.fails.append("C05 shares")
    # C10 counts
    fills=c.all_fills()
    nX=sum(1 for x in lg.rec if x[0]=="X")
    if nX!=len(fills): c.fails.append("C10 fills logged %d vs %d"%(nX,len(fills)))
    # C11: callbacks X twice per fill
    ncbx=sum(1 for x in c.cb if x[0]=="X")
    if ncbx!=2*len(fills): c.fails.append("C11 exec callbacks %d vs %d"%(ncbx,2*len(fills)))
    nO=sum(1 for x in lg.rec if x[0]=="O"); ncbS=sum(1 for x in c.cb if x[0]=="S")
    if nO!=ncbS: c.fails.append("C11 submitted callbacks")
    # C13
    if not any(f.startswith("EXC") for f in c.fails):
        from collections import Counter
        allid=[e.event_id for e in c.sim.events if e.name=="ALL"][0]
        allcalls=[h for h in c.hooks if h[0]==allid]
        k=Counter(h[1] for h in allcalls)
        nC=sum(1 for x in lg.rec if x[0]=="C")
        nsteps=sum(s_["iterationSteps"] for s_ in cfg["simulation"]["sessions"]); nmk=len(c.sim.markets)
        exp={"order_before":nO,"order_after":nO,"cancel_before":nC,"cancel_after":nC,"execution_after":len(fills),"session_before":len(c.sim.sessions),"session_after":len(c.sim.sessions),"market_before":nsteps*nmk,"market_after":nsteps*nmk}
        for kk,v in exp.items():
            if k.get(kk,0)!=v: c.fails.append("C13 ALL count %s %d vs %d"%(kk,k.get(kk,0),v))
        # other probes: expected multiset from ALL occurrences
        for e in c.sim.events:
            if not isinstance(e, Probe) or e.name=="ALL": continue
            got=Counter((h[1],h[2],h[3]) for h in c.hooks if h[0]==e.event_id)
            want=Counter()
            for (ht,before,times,inst,cls) in e.spec:
                kind=ht+("_before" if before else "_after")
                for h in allcalls:
                    if h[1]!=kind: continue
                    if times is not None and h[2] not in times: continue
                    if ht=="market":
                        mk_=c.sim.id2market[h[3]]
                        if inst is not None and inst!=h[3]: continue
                        if cls=='index' and not isinstance(mk_, IndexMarket): continue
                    want[(h[1],h[2],h[3])]+=1
            if got!=want: c.fails.append("C13 probe dispatch mismatch")
    return c, cfg
if __name__=="__main__":
    n=int(sys.argv[1]); start=int(sys.argv[2]) if len(sys.argv)>2 else 0
    from collections import Counter
    cnt=Counter(); ex={}
    nf=0
    for s in range(start,start+n):
        c,cfg=run(s)
        nf+=len(c.all_fills())
        import re
        for f in set(re.sub(r"[0-9.]+","#",x)[:70] for x in c.fails):
            cnt[f]+=1; ex.setdefault(f,s)
    print("fills total",nf)
    for k,v in cnt.most_common(): print(v,k,"e.g. seed",ex[k])
