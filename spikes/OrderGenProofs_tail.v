(* appended after the generated definition `gt_lt_gen` (output of py2coq_order_prototype.py) *)
(* hand-written ranking on accepted orders *)
Definition accepted (o: order) : Prop :=
  (exists i, o_id o = Some i) /\ (exists t, o_placed o = Some t) /\
  (o_kind o = MARKET_ORDER <-> o_price o = None).
Definition time_lt (a b: order) := match o_placed a, o_placed b, o_id a, o_id b with
  | Some ta, Some tb, Some ia, Some ib => if ta =? tb then ia <? ib else ta <? tb | _,_,_,_ => false end.
Definition olt (a b: order) : bool :=
  match o_price a, o_price b with
  | None, None => time_lt a b | None, Some _ => true | Some _, None => false
  | Some pa, Some pb => if pa =? pb then time_lt a b else if o_buy a then pb <? pa else pa <? pb end.
Lemma gen_lt_is_olt a b : accepted a -> accepted b -> o_buy a = o_buy b -> gt_lt_gen a b false = Ok (olt a b).
Proof.
  intros [[ia Ia] [[ta Ta] Ka]] [[ib Ib] [[tb Tb] Kb]] S.
  unfold gt_lt_gen, olt, time_lt, check_comparable. rewrite S, Bool.eqb_reflx, Ia, Ib, Ta, Tb. simpl.
  destruct (o_kind a), (o_kind b), (o_price a) as [pa|] eqn:Pa, (o_price b) as [pb|] eqn:Pb; simpl;
    try (exfalso; (destruct Ka as [K1 K2]; (specialize (K1 eq_refl) || specialize (K2 eq_refl)); discriminate)
                  || (destruct Kb as [K1 K2]; (specialize (K1 eq_refl) || specialize (K2 eq_refl)); discriminate));
    unfold oz_ne, oz_lt, oz_gt, oq_ne, oq_lt, oq_gt, lift; simpl;
    repeat match goal with |- context [?x =? ?y] => destruct (x =? y) eqn:?; simpl end;
    try reflexivity; try (destruct (o_buy b); rewrite ?Z.gtb_ltb; reflexivity); try lia.
Qed.
Lemma gen_gt_is_converse a b : accepted a -> accepted b -> o_buy a = o_buy b -> gt_lt_gen a b true = Ok (olt b a).
Proof.
  intros [[ia Ia] [[ta Ta] Ka]] [[ib Ib] [[tb Tb] Kb]] S.
  unfold gt_lt_gen, olt, time_lt, check_comparable. rewrite S, Bool.eqb_reflx, Ia, Ib, Ta, Tb. simpl.
  destruct (o_kind a), (o_kind b), (o_price a) as [pa|] eqn:Pa, (o_price b) as [pb|] eqn:Pb; simpl;
    try (exfalso; (destruct Ka as [K1 K2]; (specialize (K1 eq_refl) || specialize (K2 eq_refl)); discriminate)
                  || (destruct Kb as [K1 K2]; (specialize (K1 eq_refl) || specialize (K2 eq_refl)); discriminate));
    unfold oz_ne, oz_lt, oz_gt, oq_ne, oq_lt, oq_gt, lift; simpl;
    repeat match goal with |- context [?x =? ?y] => destruct (x =? y) eqn:?; simpl end;
    try reflexivity; try (destruct (o_buy b); simpl; try reflexivity; try lia);
    rewrite ?Z.gtb_ltb; try reflexivity; try lia.
Qed.
Print Assumptions gen_lt_is_olt.
